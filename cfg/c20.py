#!/usr/bin/env python3
"""C20 - every documented feature combination builds and works.

Generated inputs : cargo feature configurations (layer x subset of the 8 protocol features,
                   plus `default` and `none`) and monotonicity pairs S subset-of S'.
System under test: cargo/rustc applied to /repo's working tree + the smoke program cfg/smoke.
Oracle           : (a) `cargo check` of the smoke program with use_S + dep_S succeeds (this
                   type-checks the library with exactly that feature set and a client of it);
                   (b) `cargo run` exits 0 and prints one `OK <proto> <layer>` line for every
                   enabled protocol at every enabled layer and nothing else;
                   (c) with use_S and dep_S', S subset-of S', it still compiles (and runs).
Shrinking        : a failing configuration is reduced (ddmin over features, then layer) to a
                   minimal failing one, which becomes the violation signature and replay file.
Exit codes       : 0 held / 1 VIOLATION / 2 inconclusive (infrastructure).
"""
import hashlib
import itertools
import json
import os
import queue
import random
import re
import shutil
import subprocess
import sys
import threading
import time

HERE = os.path.dirname(os.path.abspath(__file__))
VERIF = os.path.dirname(HERE)
REPO = os.environ.get("PV_REPO", "/repo")
WORK = os.environ.get("PV_WORK", os.path.join(VERIF, ".work", "c20"))
FIXTURES = os.path.join(VERIF, "fixtures")
PROTOS = ["v1_local", "v2_local", "v3_local", "v4_local", "v1_public", "v2_public", "v3_public", "v4_public"]
LAYERS = ["core", "generic", "batteries_included"]
LAYER_TAGS = {"core": ["core"], "generic": ["core", "generic"], "batteries_included": ["core", "generic", "prelude"]}
NWORKERS = int(os.environ.get("PV_C20_WORKERS", "12"))
PID = "C20"


def label(p):
    return p.replace("_", ".")


class Cfg:
    """One configuration: layer, protocols used by the smoke code, protocols enabled in the library."""

    def __init__(self, layer, use, dep=None, special=None, profile="dev"):
        self.profile = profile  # "dev" | "release" (cargo --release: no debug assertions, optimised)
        self.layer = layer
        self.use = tuple(sorted(use, key=PROTOS.index))
        self.dep = tuple(sorted(dep if dep is not None else use, key=PROTOS.index))
        self.special = special  # None | "default" | "none"

    def features(self):
        if self.special == "default":
            return ["lib_default"]
        if self.special == "default+":
            # the documented way to add a protocol: default features stay on, one more feature is named
            return ["lib_default"] + ["dep_" + p for p in self.dep]
        if self.special == "none":
            return []
        return [self.layer] + ["use_" + p for p in self.use] + ["dep_" + p for p in self.dep]

    def expected_lines(self):
        if self.special in ("default", "default+"):
            return sorted("OK %s %s" % (label(p), t) for p in ("v4_local", "v4_public") for t in LAYER_TAGS["batteries_included"])
        if self.special == "none":
            return []
        return sorted("OK %s %s" % (label(p), t) for p in self.use for t in LAYER_TAGS[self.layer])

    def key(self):
        return (self.special or self.layer, self.use, self.dep) + ((self.profile,) if self.profile != "dev" else ())

    def to_json(self):
        return {"layer": self.layer, "use": list(self.use), "dep": list(self.dep), "special": self.special, "profile": self.profile}

    @staticmethod
    def from_json(j):
        return Cfg(j["layer"], j["use"], j["dep"], j.get("special"), j.get("profile", "dev"))

    def __repr__(self):
        if self.profile != "dev":
            base = Cfg(self.layer, self.use, self.dep, self.special)
            return "%s --%s" % (repr(base), self.profile)
        if self.special == "default+":
            return "<default + %s>" % ",".join(self.dep)
        if self.special:
            return "<%s>" % self.special
        s = "%s:{%s}" % (self.layer, ",".join(self.use))
        if self.dep != self.use:
            s += " lib={%s}" % ",".join(self.dep)
        return s


class Worker:
    def __init__(self, idx, root):
        self.idx = idx
        self.target = os.path.join(root, "t%d" % idx)
        self.smoke = os.path.join(root, "smoke")

    def cargo(self, sub, cfg, timeout=900):
        env = dict(os.environ)
        env.update(
            CARGO_TARGET_DIR=self.target,
            CARGO_NET_OFFLINE="true",
            PV_FIXTURES=FIXTURES,
            RUSTFLAGS="--cap-lints allow",
            CARGO_TERM_COLOR="never",
            CARGO_INCREMENTAL="0",
        )
        env.pop("RUSTC_WRAPPER", None)
        cmd = ["cargo", sub, "-q", "--offline", "--manifest-path", os.path.join(self.smoke, "Cargo.toml"), "--no-default-features"]
        feats = cfg.features()
        if feats:
            cmd += ["--features", " ".join(feats)]
        if cfg.profile == "release":
            cmd += ["--release"]
        try:
            p = subprocess.run(cmd, env=env, stdout=subprocess.PIPE, stderr=subprocess.PIPE, timeout=timeout, text=True, errors="replace")
            return p.returncode, p.stdout, p.stderr, " ".join(cmd)
        except subprocess.TimeoutExpired:
            return 124, "", "TIMEOUT", " ".join(cmd)

    def lib_check(self, cfg):
        """cargo check of the library alone with cfg's library features (used to attribute a failure)."""
        env = dict(os.environ)
        env.update(CARGO_TARGET_DIR=self.target, CARGO_NET_OFFLINE="true", RUSTFLAGS="--cap-lints allow", CARGO_TERM_COLOR="never")
        feats = []
        if cfg.special == "default":
            feats = ["default"]
        elif cfg.special == "default+":
            feats = ["default"] + list(cfg.dep)
        elif cfg.special != "none":
            feats = [cfg.layer] + list(cfg.dep)
        cmd = ["cargo", "check", "-q", "--offline", "--lib", "--manifest-path", os.path.join(self.smoke, "Cargo.toml"), "-p", "rusty_paseto", "--no-default-features"]
        if feats:
            cmd += ["--features", " ".join("rusty_paseto/" + f for f in feats)]
        if cfg.profile == "release":
            cmd += ["--release"]
        p = subprocess.run(cmd, env=env, stdout=subprocess.PIPE, stderr=subprocess.PIPE, text=True, errors="replace")
        return p.returncode, p.stderr


def is_compile_failure(stderr):
    """True only for a failure of rustc on the code (never for I/O trouble such as a full disk)."""
    return ("error[E" in stderr) or ("error: could not compile" in stderr) or ("aborting due to" in stderr)


def first_errors(stderr, n=6):
    out = []
    for line in stderr.splitlines():
        if line.startswith("error"):
            out.append(line.strip())
    return out[:n]


def error_codes(stderr):
    return sorted(set(re.findall(r"^error\[(E\d+)\]", stderr, re.M)))


def evaluate(worker, kind, cfg):
    """Returns (ok, detail dict). kind: 'check' | 'run'."""
    if kind == "check":
        rc, out, err, cmd = worker.cargo("check", cfg)
        if rc == 124:
            return None, {"why": "timeout", "cmd": cmd}
        if rc != 0:
            if not is_compile_failure(err):
                return None, {"why": "infrastructure", "cmd": cmd, "errors": first_errors(err) or err.strip().splitlines()[-3:]}
            return False, {"why": "does not compile", "cmd": cmd, "errors": first_errors(err), "codes": error_codes(err)}
        return True, {}
    rc, out, err, cmd = worker.cargo("run", cfg)
    if rc == 124:
        return None, {"why": "timeout", "cmd": cmd}
    if rc != 0:
        errs = first_errors(err)
        if errs and not is_compile_failure(err) and "FAIL " not in out:
            return None, {"why": "infrastructure", "cmd": cmd, "errors": errs}
        if errs and is_compile_failure(err):
            return False, {"why": "does not compile", "cmd": cmd, "errors": errs, "codes": error_codes(err)}
        tail = (out + "\n" + err).strip().splitlines()[-6:]
        return False, {"why": "smoke run failed (exit %d)" % rc, "cmd": cmd, "output": tail}
    got = sorted(l for l in out.splitlines() if l.startswith("OK "))
    if got != cfg.expected_lines() or "DONE" not in out:
        return False, {"why": "smoke run did not perform the expected round trips", "cmd": cmd, "expected": cfg.expected_lines(), "got": got}
    return True, {}


def enumerate_jobs(tier, seed):
    jobs = []  # (kind, cfg, group)
    full = tuple(PROTOS)
    subsets = []
    if tier == "quick":
        subsets = [(p,) for p in PROTOS] + list(itertools.combinations(PROTOS, 2)) + [full]
    else:
        for r in range(1, 9):
            subsets += list(itertools.combinations(PROTOS, r))
    for layer in LAYERS:
        for s in subsets:
            # quick: round trips run for singletons, the full set and - at the batteries-included layer, which builds
            # all three layers - for every pair; the other pair configurations are compiled only
            run_it = tier == "thorough" or len(s) == 1 or s == full or (len(s) == 2 and layer == "batteries_included")
            jobs.append(("run" if run_it else "check", Cfg(layer, s), "config"))
    if tier == "quick":
        # beyond the stated quick set: every triple at the core layer (compile) and every "full minus one" set (run)
        for s in itertools.combinations(PROTOS, 3):
            jobs.append(("check", Cfg("core", s), "config-extra"))
        for drop in PROTOS:
            jobs.append(("run", Cfg("generic", tuple(p for p in PROTOS if p != drop)), "config-extra"))
    jobs.append(("run", Cfg("batteries_included", (), special="default"), "config"))
    # default features plus one more protocol (how the documentation tells users to add one), plus all of them
    for p in PROTOS:
        jobs.append(("run" if tier == "thorough" or p in ("v1_public", "v3_local") else "check", Cfg("batteries_included", ("v4_local", "v4_public"), (p,), special="default+"), "default-plus"))
    jobs.append(("run", Cfg("batteries_included", ("v4_local", "v4_public"), full, special="default+"), "default-plus"))
    jobs.append(("run", Cfg("core", (), special="none"), "config"))
    # the other build profile (cargo --release: cfg(debug_assertions) off, optimised): code may exist in only one of the two
    for p in PROTOS:
        jobs.append(("check" if tier == "quick" else "run", Cfg("core", (p,), profile="release"), "release-profile"))
    jobs.append(("check" if tier == "quick" else "run", Cfg("batteries_included", full, profile="release"), "release-profile"))
    jobs.append(("check", Cfg("batteries_included", (), special="default", profile="release"), "release-profile"))
    if tier == "thorough":
        for layer in ("generic", "batteries_included"):
            for p in PROTOS:
                jobs.append(("check", Cfg(layer, (p,), profile="release"), "release-profile"))
    # monotonicity: code written for S, library built with S' (superset)
    mono = []
    if tier == "quick":
        for s in [(p,) for p in PROTOS] + list(itertools.combinations(PROTOS, 2)):
            mono.append(("check", Cfg("batteries_included", s, full), "monotone"))
        mono.append(("run", Cfg("batteries_included", ("v4_local", "v4_public"), full), "monotone"))
    else:
        for s in subsets:
            if s != full:
                mono.append(("run" if len(s) <= 2 else "check", Cfg("batteries_included", s, full), "monotone"))
        rng = random.Random(seed * 1000003 + 20)
        for _ in range(200):
            # a generated chain S0 < S1 < ... ; the code stays that of S0
            order = PROTOS[:]
            rng.shuffle(order)
            k0 = rng.randint(1, 4)
            layer = rng.choice(LAYERS)
            base = tuple(order[:k0])
            for k in range(k0 + 1, 9):
                if rng.random() < 0.5 or k == 8:
                    mono.append(("check", Cfg(layer, base, tuple(order[:k])), "monotone-chain"))
    seen = set()
    for kind, cfg, grp in jobs + mono:
        k = (kind,) + cfg.key()
        if k in seen:
            continue
        seen.add(k)
        yield kind, cfg, grp


_memo = {}


def evaluate_memo(worker, kind, cfg):
    k = (kind,) + cfg.key()
    if k not in _memo:
        _memo[k] = evaluate(worker, kind, cfg)
    return _memo[k]


def fingerprint(detail):
    """What kind of failure this is, independent of the configuration it was seen in."""
    why = detail.get("why", "?")
    if why == "does not compile":
        return "compile:" + "+".join(detail.get("codes") or ["E?"])
    if why.startswith("smoke run failed"):
        return "run-fails"
    return "roundtrips-missing"


def shrink(worker, kind, cfg, fp):
    """ddmin: smallest (layer, use, dep) that still fails with the same fingerprint."""
    if cfg.special:
        return cfg

    def fails(c):
        ok, d = evaluate_memo(worker, kind, c)
        return ok is False and fingerprint(d) == fp

    cur = cfg
    # a failure inside the library does not depend on the client code: drop it first
    cand = Cfg(cur.layer, (), cur.dep, profile=cur.profile)
    if cur.use and fails(cand):
        cur = cand
    changed = True
    while changed:
        changed = False
        for p in list(cur.dep):
            dep = tuple(x for x in cur.dep if x != p)
            use = tuple(x for x in cur.use if x != p)
            if not dep:
                continue
            cand = Cfg(cur.layer, use, dep, profile=cur.profile)
            if fails(cand):
                cur = cand
                changed = True
                break
    for layer in LAYERS:
        if LAYERS.index(layer) >= LAYERS.index(cur.layer):
            break
        cand = Cfg(layer, cur.use, cur.dep, profile=cur.profile)
        if fails(cand):
            cur = cand
            break
    return cur


def explains(small, cfg):
    """True if cfg contains the minimal failing configuration `small`."""
    if small.special or cfg.special:
        return small.key() == cfg.key()
    if small.profile != cfg.profile:
        return False
    return set(small.dep) <= set(cfg.dep) and set(small.use) <= set(cfg.use) and LAYERS.index(small.layer) <= LAYERS.index(cfg.layer)


def signature(kind, cfg, detail):
    return "%s:%s:%s" % (PID, fingerprint(detail), repr(cfg))


def load_known():
    path = os.path.join(VERIF, "known_findings.json")
    try:
        with open(path) as f:
            j = json.load(f)
    except FileNotFoundError:
        return {}
    return {e["signature"]: e for e in j.get("open", []) if e.get("property") == PID}


def write_evidence(tier, seed, t0, cov, violations, assumptions):
    os.makedirs(os.path.join(VERIF, "evidence"), exist_ok=True)
    ev = {
        "property_id": PID,
        "tier": tier,
        "seed": seed,
        "level": "exploration",
        "coverage": cov,
        "assumptions": assumptions,
        "wall_s": round(time.time() - t0, 2),
        "violations": violations,
    }
    tmp = os.path.join(VERIF, "evidence", PID + ".json.tmp")
    with open(tmp, "w") as f:
        json.dump(ev, f, indent=1)
    os.replace(tmp, os.path.join(VERIF, "evidence", PID + ".json"))


def prepare(root):
    shutil.rmtree(root, ignore_errors=True)
    os.makedirs(root)
    shutil.copytree(os.path.join(HERE, "smoke"), os.path.join(root, "smoke"))
    # point the smoke program at the repository under test
    mp = os.path.join(root, "smoke", "Cargo.toml")
    with open(mp) as f:
        txt = f.read()
    with open(mp, "w") as f:
        f.write(txt.replace('path = "/repo"', 'path = "%s"' % REPO))


def warm(root):
    w = Worker(0, root)
    w.target = os.path.join(root, "warm")
    full = Cfg("batteries_included", PROTOS)
    # builds every dependency once (the library itself may fail to compile here; that is
    # for the configurations below to report, not for the warm-up)
    w.cargo("build", full)
    w.cargo("check", full)
    return w.target


def main():
    t0 = time.time()
    args = sys.argv[1:]
    seed = int(os.environ.get("VERIF_SEED", "0") or 0)
    root = os.path.join(WORK, "run")
    if args and args[0] == "--replay":
        with open(args[1]) as f:
            rep = json.load(f)
        prepare(root)
        w = Worker(0, root)
        cfg = Cfg.from_json(rep["case"])
        ok, detail = evaluate(w, rep["kind"], cfg)
        shutil.rmtree(root, ignore_errors=True)
        if ok is False:
            print("replay: still fails: %s %r %s" % (rep["kind"], cfg, json.dumps(detail)))
            print("VIOLATION property=%s replay=%s" % (PID, os.path.abspath(args[1])))
            return 1
        print("replay: passes now: %s %r" % (rep["kind"], cfg))
        return 0 if ok else 2
    tier = args[0] if args else os.environ.get("VERIF_TIER", "quick")
    if tier not in ("quick", "thorough"):
        print("usage: c20.py quick|thorough | --replay <file>")
        return 2
    if not os.path.exists(os.path.join(REPO, "Cargo.toml")):
        print("INCONCLUSIVE: no Cargo.toml under %s" % REPO)
        return 2

    prepare(root)
    warm_dir = warm(root)
    jobs = list(enumerate_jobs(tier, seed))
    q = queue.Queue()
    for j in jobs:
        q.put(j)
    results = []
    lock = threading.Lock()

    def run_worker(i):
        w = Worker(i, root)
        subprocess.run(["cp", "-a", warm_dir, w.target], check=False)
        done = 0
        while True:
            try:
                kind, cfg, grp = q.get_nowait()
            except queue.Empty:
                break
            if done and done % 12 == 0:
                # every configuration leaves its own build of the library behind: start again from the warm copy
                shutil.rmtree(w.target, ignore_errors=True)
                subprocess.run(["cp", "-a", warm_dir, w.target], check=False)
            done += 1
            ok, detail = evaluate(w, kind, cfg)
            with lock:
                results.append((kind, cfg, grp, ok, detail))
        shutil.rmtree(w.target, ignore_errors=True)

    threads = [threading.Thread(target=run_worker, args=(i,)) for i in range(1, NWORKERS + 1)]
    for t in threads:
        t.start()
    for t in threads:
        t.join()

    failures = [(k, c, g, d) for (k, c, g, ok, d) in results if ok is False]
    timeouts = [(k, c) for (k, c, g, ok, d) in results if ok is None]
    known = load_known()
    exit_code = 0
    reported = {}
    known_hit = {}
    if failures:
        w = Worker(0, root)
        w.target = warm_dir
        # attribute: if even the default configuration's smoke program fails to compile while the
        # library itself compiles, the smoke program is out of date -> inconclusive
        dflt = Cfg("batteries_included", (), special="default")
        ok, _ = evaluate(w, "check", dflt)
        if ok is False:
            rc, _err = w.lib_check(dflt)
            if rc == 0:
                print("INCONCLUSIVE: the smoke program does not compile against the default configuration although the library does")
                shutil.rmtree(root, ignore_errors=True)
                return 2
        minimal = []  # (kind, fingerprint, small cfg, signature)
        for kind, cfg, grp, detail in sorted(failures, key=lambda f: (len(f[1].dep), len(f[1].use), LAYERS.index(f[1].layer), repr(f[1]))):
            fp = fingerprint(detail)
            sig = None
            for (k2, fp2, small2, sig2) in minimal:
                if fp2 == fp and explains(small2, cfg) and (k2 == kind or k2 == "check"):
                    sig = sig2
                    break
            if sig is None:
                small = shrink(w, kind, cfg, fp)
                ok2, d2 = evaluate_memo(w, kind, small)
                if ok2 is not False:
                    small, d2 = cfg, detail
                sig = signature(kind, small, d2)
                minimal.append((kind, fp, small, sig))
                if sig not in known:
                    os.makedirs(os.path.join(VERIF, "replays"), exist_ok=True)
                    h = hashlib.sha256(sig.encode()).hexdigest()[:12]
                    path = os.path.join(VERIF, "replays", "%s-%s.json" % (PID, h))
                    with open(path, "w") as f:
                        json.dump({"property": PID, "signature": sig, "kind": kind, "case": small.to_json(), "original_case": cfg.to_json(), "group": grp, "detail": d2}, f, indent=1)
                    reported[sig] = {"path": path, "instances": 0, "detail": d2, "cfg": repr(small)}
            if sig in known:
                known_hit[sig] = known_hit.get(sig, 0) + 1
            else:
                reported[sig]["instances"] += 1
    for sig, n in known_hit.items():
        print("KNOWN-FINDING: property=%s %s (%d configurations; %s)" % (PID, sig, n, known[sig].get("what", "")))
    for sig, r in reported.items():
        print("violation: %s  [%d configurations reduce to it] %s" % (sig, r["instances"], json.dumps(r["detail"])[:600]))
        print("VIOLATION property=%s replay=%s" % (PID, r["path"]))
        exit_code = 1

    evaluated = [r for r in results if r[3] is not None]
    nontriv = set((k,) + c.key() for (k, c, g, ok, d) in evaluated if len(c.dep) >= 2 or c.special in ("default", "default+"))
    by_group = {}
    for (k, c, g, ok, d) in evaluated:
        by_group["%s/%s" % (g, k)] = by_group.get("%s/%s" % (g, k), 0) + 1
    by_size = {}
    for (k, c, g, ok, d) in evaluated:
        by_size[str(len(c.dep))] = by_size.get(str(len(c.dep)), 0) + 1
    samples = [{"kind": k, "config": repr(c), "features": c.features(), "ok": ok} for (k, c, g, ok, d) in (evaluated[:3] + evaluated[len(evaluated) // 2 : len(evaluated) // 2 + 3] + evaluated[-3:])]
    cov = {
        "evaluations": len(evaluated),
        "distinct_nontrivial": len(nontriv),
        "rule": "configurations = layer x subset of the 8 protocol features (quick: singletons, all 28 pairs, full set; thorough: all 255) + default + none, "
        "each checked with cargo (smoke program type-checked against the library built with exactly those features; 'run' additionally executes one round trip per enabled protocol and layer); "
        "monotone = smoke code for S against the library built with a superset S'. Non-trivial = at least two protocol features enabled in the library (or the default set); distinct by (kind, layer, S, S').",
        "samples": samples,
        "exhaustive": tier == "thorough",
        "classes": {"by_group_and_kind": by_group, "by_number_of_library_protocol_features": by_size},
        "failing_configurations": len(failures),
        "known_findings_excluded": sum(known_hit.values()),
        "timeouts": len(timeouts),
        "workers": NWORKERS,
    }
    write_evidence(tier, seed, t0, cov, len(reported), [
        "rustc/cargo of this image decide 'compiles'",
        "the smoke program cfg/smoke exercises one round trip per protocol and layer; deeper behaviour per protocol is C01/C02's job",
    ])
    shutil.rmtree(root, ignore_errors=True)
    if exit_code == 0 and timeouts:
        print("INCONCLUSIVE: %d configurations could not be evaluated (timeout or I/O trouble, e.g. a full disk)" % len(timeouts))
        return 2
    print("C20 %s: %d configurations evaluated, %d failing, %d unlisted violation signature(s), %.1fs" % (tier, len(evaluated), len(failures), len(reported), time.time() - t0))
    return exit_code


if __name__ == "__main__":
    sys.exit(main())
