//! C20 smoke program: one round trip per enabled protocol at each enabled layer.
//! Prints `OK <protocol> <layer>` per round trip; exits 1 on the first failure.
#![allow(unused_imports, unused_macros, dead_code, unused_mut)]

const MSG: &str = "{\"data\":\"smoke \u{1F980} message crossing one block ........................................\"}";
const FOOT: &str = "{\"kid\":\"smoke\"}";
const ASSERT: &str = "{\"bound\":\"smoke\"}";
const ED_SECRET: &str = "b4cbfb43df4ce210727d953e4a713307fa19bb7d9f85041438d9e11b942a37741eb9dbbbbc047c03fd70604e0071f0987e16b28b757225c11f00415d0e20b1a2";
const ED_PUBLIC: &str = "1eb9dbbbbc047c03fd70604e0071f0987e16b28b757225c11f00415d0e20b1a2";
const P384_SECRET: &str = "20347609607477aca8fbfbc5e6218455f3199669792ef8b466faa87bdc67798144c848dd03661eed5ac62461340cea96";
const P384_PUBLIC: &str = "02fbcb7c69ee1c60579be7a334134878d9c5c5bf35d552dab63c0140397ed14cef637d7720925c44699ea30e72874c72fb";
const RSA_PRIV: &[u8] = include_bytes!(concat!(env!("PV_FIXTURES"), "/rsa/k0.pk8"));
const RSA_PUB: &[u8] = include_bytes!(concat!(env!("PV_FIXTURES"), "/rsa/k0.pub.der"));
const SYM: &str = "707172737475767778797a7b7c7d7e7f808182838485868788898a8b8c8d8e8f";
const NONCE: &str = "26f7553354482a1d91d4784627854b8da6b8042a7966523c2b404e8dbbe7f7f2";

// Known answers: what the specification's algorithms produce for the constants above (printed by `pv smoke-kat`, i.e. by
// the harness's independent transcription of the spec, which is pinned to the official test vectors). A feature
// combination in which a protocol still round-trips with itself but no longer speaks the protocol is caught by these.
#[allow(dead_code)]
const KAT_V1_LOCAL: &str = "v1.local.BbkAJkPaj-RrqnJTjQeYQNZhwcept9MX1KOmeU0bj-wUR0u5LsPxiBRoAV1548iGnzY652PJ18u1xtZVeFZWGyXNxNoEgvgPLZtjxtbVGExX8ag532UJWhEr0YC-nwOteCM8rV38QJUNo-iuEHT8qumN_yIEZL6S2WxgoV4RvcWiERwcK5AVnZBUxDBFYPMF-wKAz7x5PD06rZBU-wujbAyZ97uYYslpPw.eyJraWQiOiJzbW9rZSJ9";
#[allow(dead_code)]
const KAT_V2_LOCAL: &str = "v2.local.9-BlJ2O5xN5abCpK9eiaGbYXR_Xl2Y70tPsyyVT3ah5bQ3_0FWtYz6Ia3LnYh2wj5mrQRjgX4aijErXJWUAyOsan8Ofl47VcagQEsH-Sdl9w-okKzx0FKGZc0A6D-_XQUxpAF_DbLRyn7N--1ij1zMVHpgYv_nRVhoU7RiTlUtwN.eyJraWQiOiJzbW9rZSJ9";
#[allow(dead_code)]
const KAT_V3_LOCAL: &str = "v3.local.JvdVM1RIKh2R1HhGJ4VLjaa4BCp5ZlI8K0BOjbvn9_LwY78vQnDait-X_875UoaepKfUF-oOy1E-X3G50zLVWqzFLj03t7Qk0TduOl2SezIOss8Vnz7xg1OhCiuUIHO2vH0QTMpmH5flk1tQrO_l0CYd7ljX30p_AML2Rx652HKgYb5H97qW43HXnWvDWBW1Q37HgSO6k3EPcnbnlB249w62l3_qFUmP4A.eyJraWQiOiJzbW9rZSJ9";
#[allow(dead_code)]
const KAT_V4_LOCAL: &str = "v4.local.JvdVM1RIKh2R1HhGJ4VLjaa4BCp5ZlI8K0BOjbvn9_L6qU34Aj806z9GGGikd2qLh3g2wiZvi3F7biHZ0Ep_yl1P3ocii9WeS2dOdmq_ajJxKAroVcw9nQZhzulS_Lkgou-pIE32cyRpqQivxQ9G2ozrYnTLrfzTvtP3sY7WHpRVS9FRwTyRV9-hETOwlxSapFb2NXtjk0uQ.eyJraWQiOiJzbW9rZSJ9";
#[allow(dead_code)]
const KAT_V2_PUBLIC: &str = "v2.public.eyJkYXRhIjoic21va2Ug8J-mgCBtZXNzYWdlIGNyb3NzaW5nIG9uZSBibG9jayAuLi4uLi4uLi4uLi4uLi4uLi4uLi4uLi4uLi4uLi4uLi4uLi4uLi4uIn3lNlc2bTyxo5rgRqcDtzz_8GQ2Frda6wGQRIiTAqopsrtBzhmXleaGEDA_UMw_JJWNrkKTyZOFZeJW3JuZDVcL.eyJraWQiOiJzbW9rZSJ9";
#[allow(dead_code)]
const KAT_V4_PUBLIC: &str = "v4.public.eyJkYXRhIjoic21va2Ug8J-mgCBtZXNzYWdlIGNyb3NzaW5nIG9uZSBibG9jayAuLi4uLi4uLi4uLi4uLi4uLi4uLi4uLi4uLi4uLi4uLi4uLi4uLi4uIn2VqUgIe5Kovn8tuBPgrh267_pgwG7aX5Rzg6sGVyZtC2SRoi-_e3w5Q7k7oZkLYCncGUa9u5h8VBdOHcNIPA4C.eyJraWQiOiJzbW9rZSJ9";

/// 0 = first pass (protocols in feature order, on the main thread): the only one that reports `OK` lines;
/// later passes repeat every round trip in the opposite order and on another thread - what worked once must keep working
/// whatever ran before it in this process.
static PASS: std::sync::atomic::AtomicU32 = std::sync::atomic::AtomicU32::new(0);

fn fail(what: &str) -> ! {
  println!("FAIL (pass {}) {}", PASS.load(std::sync::atomic::Ordering::SeqCst), what);
  std::process::exit(1)
}

fn say(line: &str) {
  if PASS.load(std::sync::atomic::Ordering::SeqCst) == 0 {
    println!("{}", line);
  }
}

macro_rules! ok {
  ($e:expr, $what:expr) => {
    match $e {
      Ok(v) => v,
      Err(e) => fail(&format!("{}: {:?}", $what, e)),
    }
  };
}

/// Error types go where errors ordinarily go: across threads, into `Box<dyn Error + Send + Sync>` (what `anyhow` and most
/// application error types require). Which protocols are enabled must not change that.
fn errors_are_ordinary<E: std::error::Error + Send + Sync + 'static>() {
  fn boxed<E: std::error::Error + Send + Sync + 'static>(r: Result<(), E>) -> Result<(), Box<dyn std::error::Error + Send + Sync>> {
    Ok(r?)
  }
  let _ = boxed::<E>(Ok(()));
}

// what client code ordinarily does with keys - written so that it relies on there being ONE obvious reading of each call;
// a feature that adds a second `AsRef` / `From` / `Deref` path to these types breaks such code (monotonicity)
macro_rules! downstream_idioms {
  ($key:ident, $raw:ident) => {
    let key_len = $key.as_ref().len();
    let key_copy = $key.as_ref().to_vec();
    let raw_len = $raw.as_ref().len();
    let first = $raw.as_ref().iter().next().copied();
    if key_len != 32 || key_copy.len() != 32 || raw_len != 32 || first.is_none() {
      fail("key bytes are not what was put in");
    }
  };
}

// fresh key material, the way the documentation mints it: Key::<N>::try_new_random() for every size that a key or nonce
// of some protocol has (24 / 32 nonces, 32 symmetric, 48 P-384 secret, 64 Ed25519 pair) and a few that none has - the
// call is generic over N, so a program asking for any N compiled and worked
macro_rules! fresh_material {
  ($($n:literal),*) => {
    $(
      {
        let a = ok!(Key::<$n>::try_new_random(), concat!("Key::<", stringify!($n), ">::try_new_random()"));
        let b = ok!(Key::<$n>::try_new_random(), concat!("Key::<", stringify!($n), ">::try_new_random()"));
        if a.as_ref().len() != $n || ($n >= 16 && a.as_ref() == b.as_ref()) {
          fail(concat!("Key::<", stringify!($n), ">::try_new_random(): wrong size or the same bytes twice"));
        }
      }
    )*
  };
}
#[cfg(feature = "core")]
fn fresh_key_material() {
  use rusty_paseto::core::Key;
  fresh_material!(1, 16, 24, 32, 33, 48, 49, 64, 96, 128);
}
#[cfg(not(feature = "core"))]
fn fresh_key_material() {}

// the authentic token under every OTHER header text - the seven other protocols' (whether or not they are compiled into this
// build) and headers that no protocol has - must be refused by this protocol's entry point
const OTHER_HEADERS: [&str; 16] = ["v1.local.", "v2.local.", "v3.local.", "v4.local.", "v1.public.", "v2.public.", "v3.public.", "v4.public.",
  "v0.local.", "v5.local.", "v9.public.", "v4.Local.", "V4.local.", "v4.locals.", "v3.", "a.b."];
macro_rules! refused_under_other_headers {
  ($own:literal, $token:expr, |$t:ident| $parse:expr) => {
    for h in OTHER_HEADERS {
      if h == concat!($own, ".") {
        continue;
      }
      let relabelled = format!("{}{}", h, &$token[concat!($own, ".").len()..]);
      let $t: &str = relabelled.as_str();
      if $parse.is_ok() {
        fail(&format!(concat!($own, ": its own token was accepted under the header {:?}"), h));
      }
    }
  };
}

// ---------------------------------------------------------------- key helpers
macro_rules! local_keys {
  ($V:ident, $key:ident) => {
    let $key = PasetoSymmetricKey::<$V, Local>::from(ok!(Key::<32>::try_from(SYM), "sym key"));
  };
}
macro_rules! ed_keys {
  ($V:ident, $sk:ident, $pk:ident) => {
    let sk_bytes = ok!(Key::<64>::try_from(ED_SECRET), "ed secret");
    let pk_bytes = ok!(Key::<32>::try_from(ED_PUBLIC), "ed public");
    let $sk = PasetoAsymmetricPrivateKey::<$V, Public>::from(&sk_bytes);
    let $pk = PasetoAsymmetricPublicKey::<$V, Public>::from(&pk_bytes);
  };
}
macro_rules! p384_keys {
  ($sk:ident, $pk:ident) => {
    let sk_bytes = ok!(Key::<48>::try_from(P384_SECRET), "p384 secret");
    let pk_bytes = ok!(Key::<49>::try_from(P384_PUBLIC), "p384 public");
    let $sk = PasetoAsymmetricPrivateKey::<V3, Public>::from(&sk_bytes);
    let $pk = ok!(PasetoAsymmetricPublicKey::<V3, Public>::try_from(&pk_bytes), "p384 public key");
  };
}
macro_rules! rsa_keys {
  ($sk:ident, $pk:ident) => {
    let $sk = PasetoAsymmetricPrivateKey::<V1, Public>::from(RSA_PRIV);
    let $pk = PasetoAsymmetricPublicKey::<V1, Public>::from(RSA_PUB);
  };
}

// ---------------------------------------------------------------- core layer
#[cfg(feature = "core")]
mod core_layer {
  use super::*;
  use rusty_paseto::core::*;

  macro_rules! local_nist_or_v2 {
    ($name:ident, $feat:literal, $V:ident, $label:literal, $kat:ident) => {
      #[cfg(feature = $feat)]
      pub fn $name() {
        local_keys!($V, key);
        let n = ok!(Key::<32>::try_from(NONCE), "nonce");
        let nonce = PasetoNonce::<$V, Local>::from(&n);
        downstream_idioms!(key, n);
        {
          // freshly minted key and nonce
          let fk = PasetoSymmetricKey::<$V, Local>::from(ok!(Key::<32>::try_new_random(), "fresh symmetric key"));
          let fnb = ok!(Key::<32>::try_new_random(), "fresh nonce");
          let fnonce = PasetoNonce::<$V, Local>::from(&fnb);
          let t = ok!(Paseto::<$V, Local>::builder().set_payload(Payload::from(MSG)).try_encrypt(&fk, &fnonce), concat!($label, " core encrypt with a fresh key"));
          let back = ok!(Paseto::<$V, Local>::try_decrypt(&t, &fk, None), concat!($label, " core decrypt with a fresh key"));
          if back != MSG {
            fail(concat!($label, " core round trip with a fresh key mismatch"));
          }
        }
        let token = ok!(
          Paseto::<$V, Local>::builder().set_payload(Payload::from(MSG)).set_footer(Footer::from(FOOT)).try_encrypt(&key, &nonce),
          concat!($label, " core encrypt")
        );
        let back = ok!(Paseto::<$V, Local>::try_decrypt(&token, &key, Footer::from(FOOT)), concat!($label, " core decrypt"));
        if back != MSG || !token.starts_with(concat!($label, ".")) {
          fail(concat!($label, " core round trip mismatch"));
        }
        if token != $kat {
          fail(&format!(concat!($label, " core: token differs from the specification's known answer: {}"), token));
        }
        let back = ok!(Paseto::<$V, Local>::try_decrypt($kat, &key, Footer::from(FOOT)), concat!($label, " core decrypt of the known answer"));
        if back != MSG {
          fail(concat!($label, " core: known-answer token decrypts to something else"));
        }
        refused_under_other_headers!($label, token, |t| Paseto::<$V, Local>::try_decrypt(t, &key, Footer::from(FOOT)));
        say(concat!("OK ", $label, " core"));
      }
    };
  }
  macro_rules! local_modern {
    ($name:ident, $feat:literal, $V:ident, $label:literal, $kat:ident) => {
      #[cfg(feature = $feat)]
      pub fn $name() {
        local_keys!($V, key);
        let n = ok!(Key::<32>::try_from(NONCE), "nonce");
        let nonce = PasetoNonce::<$V, Local>::from(&n);
        downstream_idioms!(key, n);
        errors_are_ordinary::<PasetoError>();
        {
          // freshly minted key and nonce
          let fk = PasetoSymmetricKey::<$V, Local>::from(ok!(Key::<32>::try_new_random(), "fresh symmetric key"));
          let fnb = ok!(Key::<32>::try_new_random(), "fresh nonce");
          let fnonce = PasetoNonce::<$V, Local>::from(&fnb);
          let t = ok!(Paseto::<$V, Local>::builder().set_payload(Payload::from(MSG)).try_encrypt(&fk, &fnonce), concat!($label, " core encrypt with a fresh key"));
          let back = ok!(Paseto::<$V, Local>::try_decrypt(&t, &fk, None, None), concat!($label, " core decrypt with a fresh key"));
          if back != MSG {
            fail(concat!($label, " core round trip with a fresh key mismatch"));
          }
        }
        {
          // one core builder asked twice with the same inputs: the same token twice
          let mut b = Paseto::<$V, Local>::builder();
          b.set_payload(Payload::from(MSG)).set_footer(Footer::from(FOOT)).set_implicit_assertion(ImplicitAssertion::from(ASSERT));
          let first = ok!(b.try_encrypt(&key, &nonce), concat!($label, " core encrypt (first of two)"));
          let second = ok!(b.try_encrypt(&key, &nonce), concat!($label, " core encrypt (second of two)"));
          if first != second {
            fail(concat!($label, " core: the second token of one builder differs from the first"));
          }
        }
        let token = ok!(
          Paseto::<$V, Local>::builder()
            .set_payload(Payload::from(MSG))
            .set_footer(Footer::from(FOOT))
            .set_implicit_assertion(ImplicitAssertion::from(ASSERT))
            .try_encrypt(&key, &nonce),
          concat!($label, " core encrypt")
        );
        let back = ok!(
          Paseto::<$V, Local>::try_decrypt(&token, &key, Footer::from(FOOT), ImplicitAssertion::from(ASSERT)),
          concat!($label, " core decrypt")
        );
        if back != MSG || !token.starts_with(concat!($label, ".")) {
          fail(concat!($label, " core round trip mismatch"));
        }
        if token != $kat {
          fail(&format!(concat!($label, " core: token differs from the specification's known answer: {}"), token));
        }
        let back = ok!(
          Paseto::<$V, Local>::try_decrypt($kat, &key, Footer::from(FOOT), ImplicitAssertion::from(ASSERT)),
          concat!($label, " core decrypt of the known answer")
        );
        if back != MSG {
          fail(concat!($label, " core: known-answer token decrypts to something else"));
        }
        refused_under_other_headers!($label, token, |t| Paseto::<$V, Local>::try_decrypt(t, &key, Footer::from(FOOT), ImplicitAssertion::from(ASSERT)));
        say(concat!("OK ", $label, " core"));
      }
    };
  }
  local_nist_or_v2!(v1_local, "use_v1_local", V1, "v1.local", KAT_V1_LOCAL);
  local_nist_or_v2!(v2_local, "use_v2_local", V2, "v2.local", KAT_V2_LOCAL);
  local_modern!(v3_local, "use_v3_local", V3, "v3.local", KAT_V3_LOCAL);
  local_modern!(v4_local, "use_v4_local", V4, "v4.local", KAT_V4_LOCAL);

  #[cfg(feature = "use_v1_public")]
  pub fn v1_public() {
    rsa_keys!(sk, pk);
    let token = ok!(
      Paseto::<V1, Public>::builder().set_payload(Payload::from(MSG)).set_footer(Footer::from(FOOT)).try_sign(&sk),
      "v1.public core sign"
    );
    let back = ok!(Paseto::<V1, Public>::try_verify(&token, &pk, Footer::from(FOOT)), "v1.public core verify");
    if back != MSG || !token.starts_with("v1.public.") {
      fail("v1.public core round trip mismatch");
    }
    refused_under_other_headers!("v1.public", token, |t| Paseto::<V1, Public>::try_verify(t, &pk, Footer::from(FOOT)));
    say("OK v1.public core");
  }
  #[cfg(feature = "use_v2_public")]
  pub fn v2_public() {
    ed_keys!(V2, sk, pk);
    let token = ok!(
      Paseto::<V2, Public>::builder().set_payload(Payload::from(MSG)).set_footer(Footer::from(FOOT)).try_sign(&sk),
      "v2.public core sign"
    );
    let back = ok!(Paseto::<V2, Public>::try_verify(&token, &pk, Footer::from(FOOT)), "v2.public core verify");
    if back != MSG || !token.starts_with("v2.public.") {
      fail("v2.public core round trip mismatch");
    }
    if token != KAT_V2_PUBLIC {
      fail(&format!("v2.public core: token differs from the specification's known answer (Ed25519 signatures are deterministic): {}", token));
    }
    refused_under_other_headers!("v2.public", token, |t| Paseto::<V2, Public>::try_verify(t, &pk, Footer::from(FOOT)));
    say("OK v2.public core");
  }
  #[cfg(feature = "use_v3_public")]
  pub fn v3_public() {
    p384_keys!(sk, pk);
    let token = ok!(
      Paseto::<V3, Public>::builder()
        .set_payload(Payload::from(MSG))
        .set_footer(Footer::from(FOOT))
        .set_implicit_assertion(ImplicitAssertion::from(ASSERT))
        .try_sign(&sk),
      "v3.public core sign"
    );
    let back = ok!(
      Paseto::<V3, Public>::try_verify(&token, &pk, Footer::from(FOOT), ImplicitAssertion::from(ASSERT)),
      "v3.public core verify"
    );
    if back != MSG || !token.starts_with("v3.public.") {
      fail("v3.public core round trip mismatch");
    }
    {
      // a freshly minted secret key (48 random bytes are a P-384 scalar) signs
      let fresh = ok!(Key::<48>::try_new_random(), "fresh p384 secret");
      let fresh_sk = PasetoAsymmetricPrivateKey::<V3, Public>::from(&fresh);
      let t = ok!(Paseto::<V3, Public>::builder().set_payload(Payload::from(MSG)).try_sign(&fresh_sk), "v3.public core sign with a fresh secret key");
      if !t.starts_with("v3.public.") {
        fail("v3.public core: token signed with a fresh key has the wrong header");
      }
    }
    refused_under_other_headers!("v3.public", token, |t| Paseto::<V3, Public>::try_verify(t, &pk, Footer::from(FOOT), ImplicitAssertion::from(ASSERT)));
    say("OK v3.public core");
  }
  #[cfg(feature = "use_v4_public")]
  pub fn v4_public() {
    ed_keys!(V4, sk, pk);
    let token = ok!(
      Paseto::<V4, Public>::builder()
        .set_payload(Payload::from(MSG))
        .set_footer(Footer::from(FOOT))
        .set_implicit_assertion(ImplicitAssertion::from(ASSERT))
        .try_sign(&sk),
      "v4.public core sign"
    );
    let back = ok!(
      Paseto::<V4, Public>::try_verify(&token, &pk, Footer::from(FOOT), ImplicitAssertion::from(ASSERT)),
      "v4.public core verify"
    );
    if back != MSG || !token.starts_with("v4.public.") {
      fail("v4.public core round trip mismatch");
    }
    if token != KAT_V4_PUBLIC {
      fail(&format!("v4.public core: token differs from the specification's known answer (Ed25519 signatures are deterministic): {}", token));
    }
    refused_under_other_headers!("v4.public", token, |t| Paseto::<V4, Public>::try_verify(t, &pk, Footer::from(FOOT), ImplicitAssertion::from(ASSERT)));
    say("OK v4.public core");
  }
}

// ---------------------------------------------------------------- generic layer
#[cfg(feature = "generic")]
mod generic_layer {
  use super::*;
  use rusty_paseto::generic::*;

  macro_rules! body {
    ($V:ident, $P:ident, $label:literal, $build:ident, $sk:ident, $pk:ident, assertion = $with_assertion:tt) => {{
      let mut b = GenericBuilder::<$V, $P>::default();
      b.set_claim(SubjectClaim::from("smoke subject"))
        .set_claim(ok!(CustomClaim::try_from(("answer", 42)), "custom claim"))
        .set_footer(Footer::from(FOOT));
      body!(@assert_b b, $with_assertion);
      let token = ok!(b.$build(&$sk), concat!($label, " generic build"));
      let mut p = GenericParser::<$V, $P>::default();
      p.check_claim(SubjectClaim::from("smoke subject")).set_footer(Footer::from(FOOT));
      body!(@assert_p p, $with_assertion);
      let json = ok!(p.parse(&token, &$pk), concat!($label, " generic parse"));
      if json["sub"] != "smoke subject" || json["answer"] != 42 || !token.starts_with(concat!($label, ".")) {
        fail(concat!($label, " generic round trip mismatch"));
      }
      // the builder is asked again: the second token must serve like the first (same footer, same assertion)
      let again = ok!(b.$build(&$sk), concat!($label, " generic second build"));
      let mut p = GenericParser::<$V, $P>::default();
      p.check_claim(SubjectClaim::from("smoke subject")).set_footer(Footer::from(FOOT));
      body!(@assert_p p, $with_assertion);
      let json = ok!(p.parse(&again, &$pk), concat!($label, " generic parse of the second token of one builder"));
      if json["sub"] != "smoke subject" || json["answer"] != 42 {
        fail(concat!($label, " generic second token mismatch"));
      }
      // every combination of the optional settings, not only "footer and assertion together": neither, footer only,
      // assertion only (where the protocol has one) - built and read back with the same settings
      {
        let mut nb = GenericBuilder::<$V, $P>::default();
        nb.set_claim(SubjectClaim::from("smoke subject"));
        let t = ok!(nb.$build(&$sk), concat!($label, " generic build without footer or assertion"));
        let mut np = GenericParser::<$V, $P>::default();
        let json = ok!(np.parse(&t, &$pk), concat!($label, " generic parse without footer or assertion"));
        if json["sub"] != "smoke subject" || t.split('.').count() != 3 {
          fail(concat!($label, " generic round trip without footer or assertion mismatch"));
        }
        let mut fb = GenericBuilder::<$V, $P>::default();
        fb.set_claim(SubjectClaim::from("smoke subject")).set_footer(Footer::from(FOOT));
        let t = ok!(fb.$build(&$sk), concat!($label, " generic build with a footer only"));
        let mut fp = GenericParser::<$V, $P>::default();
        fp.set_footer(Footer::from(FOOT));
        let json = ok!(fp.parse(&t, &$pk), concat!($label, " generic parse with a footer only"));
        if json["sub"] != "smoke subject" {
          fail(concat!($label, " generic round trip with a footer only mismatch"));
        }
        body!(@assertion_only $V, $P, $label, $build, $sk, $pk, $with_assertion);
      }
      errors_are_ordinary::<GenericBuilderError>();
      errors_are_ordinary::<GenericParserError>();
      say(concat!("OK ", $label, " generic"));
    }};
    (@assertion_only $V:ident, $P:ident, $label:literal, $build:ident, $sk:ident, $pk:ident, true) => {{
      let mut ab = GenericBuilder::<$V, $P>::default();
      ab.set_claim(SubjectClaim::from("smoke subject")).set_implicit_assertion(ImplicitAssertion::from(ASSERT));
      let t = ok!(ab.$build(&$sk), concat!($label, " generic build with an implicit assertion only"));
      let mut ap = GenericParser::<$V, $P>::default();
      ap.set_implicit_assertion(ImplicitAssertion::from(ASSERT));
      let json = ok!(ap.parse(&t, &$pk), concat!($label, " generic parse with an implicit assertion only"));
      if json["sub"] != "smoke subject" {
        fail(concat!($label, " generic round trip with an implicit assertion only mismatch"));
      }
      // and the assertion is bound: without it the token is refused
      let mut np = GenericParser::<$V, $P>::default();
      if np.parse(&t, &$pk).is_ok() {
        fail(concat!($label, " generic: a token built with an implicit assertion was accepted without it"));
      }
    }};
    (@assertion_only $V:ident, $P:ident, $label:literal, $build:ident, $sk:ident, $pk:ident, false) => {};
    (@assert_b $b:ident, true) => { $b.set_implicit_assertion(ImplicitAssertion::from(ASSERT)); };
    (@assert_b $b:ident, false) => {};
    (@assert_p $p:ident, true) => { $p.set_implicit_assertion(ImplicitAssertion::from(ASSERT)); };
    (@assert_p $p:ident, false) => {};
  }

  #[cfg(feature = "use_v1_local")]
  pub fn v1_local() { local_keys!(V1, key); body!(V1, Local, "v1.local", try_encrypt, key, key, assertion = false) }
  #[cfg(feature = "use_v2_local")]
  pub fn v2_local() { local_keys!(V2, key); body!(V2, Local, "v2.local", try_encrypt, key, key, assertion = false) }
  #[cfg(feature = "use_v3_local")]
  pub fn v3_local() { local_keys!(V3, key); body!(V3, Local, "v3.local", try_encrypt, key, key, assertion = true) }
  #[cfg(feature = "use_v4_local")]
  pub fn v4_local() { local_keys!(V4, key); body!(V4, Local, "v4.local", try_encrypt, key, key, assertion = true) }
  #[cfg(feature = "use_v1_public")]
  pub fn v1_public() { rsa_keys!(sk, pk); body!(V1, Public, "v1.public", try_sign, sk, pk, assertion = false) }
  #[cfg(feature = "use_v2_public")]
  pub fn v2_public() { ed_keys!(V2, sk, pk); body!(V2, Public, "v2.public", try_sign, sk, pk, assertion = false) }
  #[cfg(feature = "use_v3_public")]
  pub fn v3_public() { p384_keys!(sk, pk); body!(V3, Public, "v3.public", try_sign, sk, pk, assertion = true) }
  #[cfg(feature = "use_v4_public")]
  pub fn v4_public() { ed_keys!(V4, sk, pk); body!(V4, Public, "v4.public", try_sign, sk, pk, assertion = true) }
}

// ---------------------------------------------------------------- batteries-included layer
#[cfg(feature = "batteries_included")]
mod prelude_layer {
  use super::*;
  use rusty_paseto::prelude::*;

  macro_rules! body {
    ($V:ident, $P:ident, $label:literal, $sk:ident, $pk:ident, assertion = $with_assertion:tt) => {{
      let mut b = PasetoBuilder::<$V, $P>::default();
      b.set_claim(AudienceClaim::from("smoke audience"))
        .set_claim(ok!(CustomClaim::try_from(("answer", 42)), "custom claim"))
        .set_footer(Footer::from(FOOT));
      body!(@assert b, $with_assertion);
      let token = ok!(b.build(&$sk), concat!($label, " prelude build"));
      // the default parser rejects now <= nbf; the builder stamped nbf = its creation time
      std::thread::sleep(std::time::Duration::from_millis(5));
      let mut p = PasetoParser::<$V, $P>::default();
      p.check_claim(AudienceClaim::from("smoke audience")).set_footer(Footer::from(FOOT));
      body!(@assert p, $with_assertion);
      let json = ok!(p.parse(&token, &$pk), concat!($label, " prelude parse"));
      if json["aud"] != "smoke audience" || json["answer"] != 42 || !json["exp"].is_string() || !token.starts_with(concat!($label, ".")) {
        fail(concat!($label, " prelude round trip mismatch"));
      }
      let again = ok!(b.build(&$sk), concat!($label, " prelude second build"));
      let mut p = PasetoParser::<$V, $P>::default();
      p.check_claim(AudienceClaim::from("smoke audience")).set_footer(Footer::from(FOOT));
      body!(@assert p, $with_assertion);
      let json = ok!(p.parse(&again, &$pk), concat!($label, " prelude parse of the second token of one builder"));
      if json["aud"] != "smoke audience" || json["answer"] != 42 {
        fail(concat!($label, " prelude second token mismatch"));
      }
      {
        // a token that never expires: the documented opt-out, read back without the default checks
        let mut nb = PasetoBuilder::<$V, $P>::default();
        nb.set_claim(SubjectClaim::from("smoke subject")).set_no_expiration_danger_acknowledged().set_footer(Footer::from(FOOT));
        body!(@assert nb, $with_assertion);
        let t = ok!(nb.build(&$sk), concat!($label, " prelude build of a non-expiring token"));
        let mut gp = GenericParser::<$V, $P>::default();
        gp.set_footer(Footer::from(FOOT));
        body!(@assert gp, $with_assertion);
        let json = ok!(gp.parse(&t, &$pk), concat!($label, " parse of a non-expiring token"));
        if json["sub"] != "smoke subject" || !json["exp"].is_null() {
          fail(concat!($label, " prelude: non-expiring token carries exp or lost its subject"));
        }
        // every registered claim through the batteries-included builder, checked and validated by its parser
        let mut fb = PasetoBuilder::<$V, $P>::default();
        fb.set_claim(IssuerClaim::from("smoke issuer"))
          .set_claim(TokenIdentifierClaim::from("smoke id"))
          .set_claim(ok!(ExpirationClaim::try_from("2099-01-01T00:00:00+00:00"), "exp claim"))
          .set_claim(ok!(NotBeforeClaim::try_from("2001-01-01T00:00:00+00:00"), "nbf claim"))
          .set_claim(ok!(IssuedAtClaim::try_from("2001-01-01T00:00:00+00:00"), "iat claim"));
        let t = ok!(fb.build(&$sk), concat!($label, " prelude build with every registered claim"));
        let mut fp = PasetoParser::<$V, $P>::default();
        fp.check_claim(IssuerClaim::from("smoke issuer"))
          .check_claim(TokenIdentifierClaim::from("smoke id"))
          .validate_claim(SubjectClaim::default(), &|_k, _v| Ok(()));
        // (no subject in this token: whether a validator registered for an absent claim refuses is not judged here)
        let _ = fp.parse(&t, &$pk);
        let mut fp = PasetoParser::<$V, $P>::default();
        fp.check_claim(IssuerClaim::from("smoke issuer")).validate_claim(TokenIdentifierClaim::default(), &|k, v| if *v == "smoke id" { Ok(()) } else { Err(PasetoClaimError::Unexpected(k.to_string())) });
        let json = ok!(fp.parse(&t, &$pk), concat!($label, " prelude parse with a check and a validator"));
        if json["iss"] != "smoke issuer" || json["exp"] != "2099-01-01T00:00:00+00:00" {
          fail(concat!($label, " prelude: registered claims mismatch"));
        }
      }
      {
        // the optional settings one at a time
        let mut nb = PasetoBuilder::<$V, $P>::default();
        nb.set_claim(SubjectClaim::from("smoke subject"));
        let t = ok!(nb.build(&$sk), concat!($label, " prelude build without footer or assertion"));
        std::thread::sleep(std::time::Duration::from_millis(2));
        let mut np = PasetoParser::<$V, $P>::default();
        let json = ok!(np.parse(&t, &$pk), concat!($label, " prelude parse without footer or assertion"));
        if json["sub"] != "smoke subject" {
          fail(concat!($label, " prelude round trip without footer or assertion mismatch"));
        }
        let mut fb = PasetoBuilder::<$V, $P>::default();
        fb.set_claim(SubjectClaim::from("smoke subject")).set_footer(Footer::from(FOOT));
        let t = ok!(fb.build(&$sk), concat!($label, " prelude build with a footer only"));
        std::thread::sleep(std::time::Duration::from_millis(2));
        let mut fp = PasetoParser::<$V, $P>::default();
        fp.set_footer(Footer::from(FOOT));
        let json = ok!(fp.parse(&t, &$pk), concat!($label, " prelude parse with a footer only"));
        if json["sub"] != "smoke subject" {
          fail(concat!($label, " prelude round trip with a footer only mismatch"));
        }
        body!(@assertion_only $V, $P, $label, $sk, $pk, $with_assertion);
      }
      errors_are_ordinary::<GenericBuilderError>();
      errors_are_ordinary::<GenericParserError>();
      say(concat!("OK ", $label, " prelude"));
    }};
    (@assertion_only $V:ident, $P:ident, $label:literal, $sk:ident, $pk:ident, true) => {{
      let mut ab = PasetoBuilder::<$V, $P>::default();
      ab.set_claim(SubjectClaim::from("smoke subject")).set_implicit_assertion(ImplicitAssertion::from(ASSERT));
      let t = ok!(ab.build(&$sk), concat!($label, " prelude build with an implicit assertion only"));
      std::thread::sleep(std::time::Duration::from_millis(2));
      let mut ap = PasetoParser::<$V, $P>::default();
      ap.set_implicit_assertion(ImplicitAssertion::from(ASSERT));
      let json = ok!(ap.parse(&t, &$pk), concat!($label, " prelude parse with an implicit assertion only"));
      if json["sub"] != "smoke subject" {
        fail(concat!($label, " prelude round trip with an implicit assertion only mismatch"));
      }
      let mut np = PasetoParser::<$V, $P>::default();
      if np.parse(&t, &$pk).is_ok() {
        fail(concat!($label, " prelude: a token built with an implicit assertion was accepted without it"));
      }
    }};
    (@assertion_only $V:ident, $P:ident, $label:literal, $sk:ident, $pk:ident, false) => {};
    (@assert $b:ident, true) => { $b.set_implicit_assertion(ImplicitAssertion::from(ASSERT)); };
    (@assert $b:ident, false) => {};
  }

  #[cfg(feature = "use_v1_local")]
  pub fn v1_local() { local_keys!(V1, key); body!(V1, Local, "v1.local", key, key, assertion = false) }
  #[cfg(feature = "use_v2_local")]
  pub fn v2_local() { local_keys!(V2, key); body!(V2, Local, "v2.local", key, key, assertion = false) }
  #[cfg(feature = "use_v3_local")]
  pub fn v3_local() { local_keys!(V3, key); body!(V3, Local, "v3.local", key, key, assertion = true) }
  #[cfg(feature = "use_v4_local")]
  pub fn v4_local() { local_keys!(V4, key); body!(V4, Local, "v4.local", key, key, assertion = true) }
  #[cfg(feature = "use_v1_public")]
  pub fn v1_public() { rsa_keys!(sk, pk); body!(V1, Public, "v1.public", sk, pk, assertion = false) }
  #[cfg(feature = "use_v2_public")]
  pub fn v2_public() { ed_keys!(V2, sk, pk); body!(V2, Public, "v2.public", sk, pk, assertion = false) }
  #[cfg(feature = "use_v3_public")]
  pub fn v3_public() { p384_keys!(sk, pk); body!(V3, Public, "v3.public", sk, pk, assertion = true) }
  #[cfg(feature = "use_v4_public")]
  pub fn v4_public() { ed_keys!(V4, sk, pk); body!(V4, Public, "v4.public", sk, pk, assertion = true) }
}

macro_rules! run_all {
  ($layer:ident, $layer_feat:literal) => {
    #[cfg(all(feature = $layer_feat, feature = "use_v1_local"))]
    $layer::v1_local();
    #[cfg(all(feature = $layer_feat, feature = "use_v2_local"))]
    $layer::v2_local();
    #[cfg(all(feature = $layer_feat, feature = "use_v3_local"))]
    $layer::v3_local();
    #[cfg(all(feature = $layer_feat, feature = "use_v4_local"))]
    $layer::v4_local();
    #[cfg(all(feature = $layer_feat, feature = "use_v1_public"))]
    $layer::v1_public();
    #[cfg(all(feature = $layer_feat, feature = "use_v2_public"))]
    $layer::v2_public();
    #[cfg(all(feature = $layer_feat, feature = "use_v3_public"))]
    $layer::v3_public();
    #[cfg(all(feature = $layer_feat, feature = "use_v4_public"))]
    $layer::v4_public();
  };
}

macro_rules! run_all_reversed {
  ($layer:ident, $layer_feat:literal) => {
    #[cfg(all(feature = $layer_feat, feature = "use_v4_public"))]
    $layer::v4_public();
    #[cfg(all(feature = $layer_feat, feature = "use_v3_public"))]
    $layer::v3_public();
    #[cfg(all(feature = $layer_feat, feature = "use_v2_public"))]
    $layer::v2_public();
    #[cfg(all(feature = $layer_feat, feature = "use_v1_public"))]
    $layer::v1_public();
    #[cfg(all(feature = $layer_feat, feature = "use_v4_local"))]
    $layer::v4_local();
    #[cfg(all(feature = $layer_feat, feature = "use_v3_local"))]
    $layer::v3_local();
    #[cfg(all(feature = $layer_feat, feature = "use_v2_local"))]
    $layer::v2_local();
    #[cfg(all(feature = $layer_feat, feature = "use_v1_local"))]
    $layer::v1_local();
  };
}

fn forward() {
  run_all!(core_layer, "core");
  run_all!(generic_layer, "generic");
  run_all!(prelude_layer, "batteries_included");
}
fn backward() {
  run_all_reversed!(prelude_layer, "batteries_included");
  run_all_reversed!(generic_layer, "generic");
  run_all_reversed!(core_layer, "core");
}

fn main() {
  fresh_key_material();
  forward();
  PASS.store(1, std::sync::atomic::Ordering::SeqCst);
  backward();
  PASS.store(2, std::sync::atomic::Ordering::SeqCst);
  forward();
  // a fresh thread that meets the protocols in the opposite order first
  PASS.store(3, std::sync::atomic::Ordering::SeqCst);
  let t = std::thread::spawn(|| {
    backward();
    forward();
  });
  if t.join().is_err() {
    fail("a round trip panicked on a second thread");
  }
  println!("DONE");
}
