#!/usr/bin/env python3
"""C19 - mixing versions or purposes is a compile-time error.

Generated inputs : the complete finite family of small Rust programs obtained from known-good templates by
                   replacing only the type parameters of the key / nonce / receiver (metamorphic construction):
                   (operation, token protocol X, key protocol Y), wrong-purpose method calls, implicit-assertion
                   setters and arities, key constructions.
System under test: rustc (via `cargo check --bins --keep-going --message-format=json`) against the crate built
                   from /repo's working tree with all features.
Oracle           : explicit accept/reject table derived from the property statement. A program that must be
                   rejected has to fail with type-level errors only (E0308, E0277, E0599, E0271, E0061, E0107,
                   E0282, E0283); a resolution or syntax error means the generator, not the type system,
                   rejected it -> inconclusive (exit 2), never a violation.
Shrinking        : programs are minimal by construction (one statement under test); the replay file carries the
                   program text, and `--replay` re-checks that single program.
Exit codes       : 0 held / 1 VIOLATION / 2 inconclusive.
"""
import hashlib
import json
import os
import shutil
import subprocess
import sys
import time

HERE = os.path.dirname(os.path.abspath(__file__))
VERIF = os.path.dirname(HERE)
REPO = os.environ.get("PV_REPO", "/repo")
WORK = os.environ.get("PV_WORK_C19", os.path.join(VERIF, ".work", "c19"))
PID = "C19"
PROTOS = [(v, p) for p in ("Local", "Public") for v in (1, 2, 3, 4)]
TYPE_LEVEL = {"E0308", "E0277", "E0599", "E0271", "E0061", "E0107", "E0282", "E0283", "E0284", "E0631", "E0053",
              # field of that name is private / does not exist (programs that try to reach an assertion slot without the setter)
              "E0616", "E0609", "E0451"}


def lab(x):
    return "v%d%s" % (x[0], x[1][0].lower())


def name(x):
    return "v%d.%s" % (x[0], x[1].lower())


def has_assertion(v):
    return v >= 3


# ---------------------------------------------------------------- known-good building blocks

def key_decl(y, side, var="k"):
    """Statements that construct the key of protocol y for the build ('build') or parse ('parse') side, bound to `var`."""
    v, p = y
    if p == "Local":
        return "let %s = PasetoSymmetricKey::<V%d, Local>::from(Key::<32>::from([7u8; 32]));" % (var, v)
    if v in (2, 4):
        if side == "build":
            return "let %s_bytes = Key::<64>::from([1u8; 64]); let %s = PasetoAsymmetricPrivateKey::<V%d, Public>::from(&%s_bytes);" % (var, var, v, var)
        return "let %s_bytes = Key::<32>::from([2u8; 32]); let %s = PasetoAsymmetricPublicKey::<V%d, Public>::from(&%s_bytes);" % (var, var, v, var)
    if v == 3:
        if side == "build":
            return "let %s_bytes = Key::<48>::from([1u8; 48]); let %s = PasetoAsymmetricPrivateKey::<V3, Public>::from(&%s_bytes);" % (var, var, var)
        return "let mut %s_raw = [2u8; 49]; %s_raw[0] = 2; let %s_bytes = Key::<49>::from(%s_raw); let %s = PasetoAsymmetricPublicKey::<V3, Public>::try_from(&%s_bytes).unwrap();" % (var, var, var, var, var, var)
    if side == "build":
        return "let %s_der: &[u8] = &[0u8; 16]; let %s = PasetoAsymmetricPrivateKey::<V1, Public>::from(%s_der);" % (var, var, var)
    return "let %s_der: &[u8] = &[0u8; 16]; let %s = PasetoAsymmetricPublicKey::<V1, Public>::from(%s_der);" % (var, var, var)


def nonce_decl(y, var="n"):
    v, _ = y
    return "let %s_bytes = Key::<32>::from([3u8; 32]); let %s = PasetoNonce::<V%d, Local>::from(&%s_bytes);" % (var, var, v, var)


PRELUDE = "#![allow(unused)]\nuse rusty_paseto::prelude::*;\nfn main() {\n"


def prog(body):
    return PRELUDE + "".join("    %s\n" % l for l in body) + "}\n"


def decrypt_args(v):
    return "None, None" if has_assertion(v) else "None"


class P:
    def __init__(self, ident, group, source, must_compile, what):
        self.ident = ident
        self.group = group
        self.source = source
        self.must_compile = must_compile
        self.what = what


def family(max_n=130):
    out = []
    # ---- (operation, token protocol X, key protocol Y)
    for x in PROTOS:
        vx, px = x
        for y in PROTOS:
            same = x == y
            if px == "Local":
                # core encrypt / decrypt, key of Y (build side / parse side)
                out.append(P("core_encrypt_%s_key_%s" % (lab(x), lab(y)), "key-of-other-protocol", prog([
                    key_decl(y, "build"), nonce_decl(x),
                    "let _ = Paseto::<V%d, Local>::builder().set_payload(Payload::from(\"m\")).try_encrypt(&k, &n);" % vx]), same,
                    "%s try_encrypt with a %s key" % (name(x), name(y))))
                out.append(P("core_decrypt_%s_key_%s" % (lab(x), lab(y)), "key-of-other-protocol", prog([
                    key_decl(y, "parse"),
                    "let _ = Paseto::<V%d, Local>::try_decrypt(\"t\", &k, %s);" % (vx, decrypt_args(vx))]), same,
                    "%s try_decrypt with a %s key" % (name(x), name(y))))
                if y[1] == "Local":
                    out.append(P("core_encrypt_%s_nonce_%s" % (lab(x), lab(y)), "nonce-of-other-version", prog([
                        key_decl(x, "build"), nonce_decl(y),
                        "let _ = Paseto::<V%d, Local>::builder().set_payload(Payload::from(\"m\")).try_encrypt(&k, &n);" % vx]), same,
                        "%s try_encrypt with a %s nonce" % (name(x), name(y))))
            else:
                out.append(P("core_sign_%s_key_%s" % (lab(x), lab(y)), "key-of-other-protocol", prog([
                    key_decl(y, "build"),
                    "let _ = Paseto::<V%d, Public>::builder().set_payload(Payload::from(\"m\")).try_sign(&k);" % vx]), same,
                    "%s try_sign with a %s key" % (name(x), name(y))))
                out.append(P("core_verify_%s_key_%s" % (lab(x), lab(y)), "key-of-other-protocol", prog([
                    key_decl(y, "parse"),
                    "let _ = Paseto::<V%d, Public>::try_verify(\"t\", &k, %s);" % (vx, decrypt_args(vx))]), same,
                    "%s try_verify with a %s key" % (name(x), name(y))))
            meth = "try_encrypt" if px == "Local" else "try_sign"
            out.append(P("generic_build_%s_key_%s" % (lab(x), lab(y)), "key-of-other-protocol", prog([
                key_decl(y, "build"),
                "let _ = GenericBuilder::<V%d, %s>::default().%s(&k);" % (vx, px, meth)]), same,
                "GenericBuilder<%s>::%s with a %s key" % (name(x), meth, name(y))))
            out.append(P("generic_parse_%s_key_%s" % (lab(x), lab(y)), "key-of-other-protocol", prog([
                key_decl(y, "parse"),
                "let _ = GenericParser::<V%d, %s>::default().parse(\"t\", &k);" % (vx, px)]), same,
                "GenericParser<%s>::parse with a %s key" % (name(x), name(y))))
            out.append(P("prelude_build_%s_key_%s" % (lab(x), lab(y)), "key-of-other-protocol", prog([
                key_decl(y, "build"),
                "let _ = PasetoBuilder::<V%d, %s>::default().build(&k);" % (vx, px)]), same,
                "PasetoBuilder<%s>::build with a %s key" % (name(x), name(y))))
            out.append(P("prelude_parse_%s_key_%s" % (lab(x), lab(y)), "key-of-other-protocol", prog([
                key_decl(y, "parse"),
                "let _ = PasetoParser::<V%d, %s>::default().parse(\"t\", &k);" % (vx, px)]), same,
                "PasetoParser<%s>::parse with a %s key" % (name(x), name(y))))
    # ---- methods of the other purpose (key and nonce are those the method would take)
    for v in (1, 2, 3, 4):
        loc, pub = (v, "Local"), (v, "Public")
        out.append(P("wrong_purpose_encrypt_on_public_v%d" % v, "method-of-other-purpose", prog([
            key_decl(loc, "build"), nonce_decl(loc),
            "let _ = Paseto::<V%d, Public>::builder().set_payload(Payload::from(\"m\")).try_encrypt(&k, &n);" % v]), False,
            "try_encrypt on Paseto<V%d, Public>" % v))
        out.append(P("wrong_purpose_decrypt_on_public_v%d" % v, "method-of-other-purpose", prog([
            key_decl(loc, "parse"),
            "let _ = Paseto::<V%d, Public>::try_decrypt(\"t\", &k, %s);" % (v, decrypt_args(v))]), False,
            "try_decrypt on Paseto<V%d, Public>" % v))
        out.append(P("wrong_purpose_sign_on_local_v%d" % v, "method-of-other-purpose", prog([
            key_decl(pub, "build"),
            "let _ = Paseto::<V%d, Local>::builder().set_payload(Payload::from(\"m\")).try_sign(&k);" % v]), False,
            "try_sign on Paseto<V%d, Local>" % v))
        out.append(P("wrong_purpose_verify_on_local_v%d" % v, "method-of-other-purpose", prog([
            key_decl(pub, "parse"),
            "let _ = Paseto::<V%d, Local>::try_verify(\"t\", &k, %s);" % (v, decrypt_args(v))]), False,
            "try_verify on Paseto<V%d, Local>" % v))
        out.append(P("wrong_purpose_generic_encrypt_on_public_v%d" % v, "method-of-other-purpose", prog([
            key_decl(loc, "build"),
            "let _ = GenericBuilder::<V%d, Public>::default().try_encrypt(&k);" % v]), False,
            "try_encrypt on GenericBuilder<V%d, Public>" % v))
        out.append(P("wrong_purpose_generic_sign_on_local_v%d" % v, "method-of-other-purpose", prog([
            key_decl(pub, "build"),
            "let _ = GenericBuilder::<V%d, Local>::default().try_sign(&k);" % v]), False,
            "try_sign on GenericBuilder<V%d, Local>" % v))
    # ---- implicit assertions: setters exist iff V in {3, 4}; decrypt/verify arity follows
    for x in PROTOS:
        v, p = x
        ok = has_assertion(v)
        a = "ImplicitAssertion::from(\"a\")"
        out.append(P("assertion_core_builder_%s" % lab(x), "implicit-assertion", prog([
            "let mut b = Paseto::<V%d, %s>::builder(); b.set_implicit_assertion(%s);" % (v, p, a)]), ok, "set_implicit_assertion on Paseto<%s>" % name(x)))
        out.append(P("assertion_generic_builder_%s" % lab(x), "implicit-assertion", prog([
            "let mut b = GenericBuilder::<V%d, %s>::default(); b.set_implicit_assertion(%s);" % (v, p, a)]), ok, "set_implicit_assertion on GenericBuilder<%s>" % name(x)))
        out.append(P("assertion_generic_parser_%s" % lab(x), "implicit-assertion", prog([
            "let mut b = GenericParser::<V%d, %s>::default(); b.set_implicit_assertion(%s);" % (v, p, a)]), ok, "set_implicit_assertion on GenericParser<%s>" % name(x)))
        out.append(P("assertion_prelude_builder_%s" % lab(x), "implicit-assertion", prog([
            "let mut b = PasetoBuilder::<V%d, %s>::default(); b.set_implicit_assertion(%s);" % (v, p, a)]), ok, "set_implicit_assertion on PasetoBuilder<%s>" % name(x)))
        out.append(P("assertion_prelude_parser_%s" % lab(x), "implicit-assertion", prog([
            "let mut b = PasetoParser::<V%d, %s>::default(); b.set_implicit_assertion(%s);" % (v, p, a)]), ok, "set_implicit_assertion on PasetoParser<%s>" % name(x)))
        meth = "try_decrypt" if p == "Local" else "try_verify"
        out.append(P("assertion_core_parse_arg_%s" % lab(x), "implicit-assertion", prog([
            key_decl(x, "parse"),
            "let _ = Paseto::<V%d, %s>::%s(\"t\", &k, None, %s);" % (v, p, meth, a)]), ok, "%s of %s with an implicit-assertion argument" % (meth, name(x))))
    # ---- key constructions
    for v in (1, 2, 3, 4):
        out.append(P("symkey_local_v%d" % v, "key-construction", prog([
            "let _ = PasetoSymmetricKey::<V%d, Local>::from(Key::<32>::from([0u8; 32]));" % v]), True, "PasetoSymmetricKey<V%d, Local> from Key<32>" % v))
        out.append(P("symkey_public_v%d" % v, "key-construction", prog([
            "let _ = PasetoSymmetricKey::<V%d, Public>::from(Key::<32>::from([0u8; 32]));" % v]), False, "PasetoSymmetricKey<V%d, Public>" % v))
        for n in (24, 48, 64):
            out.append(P("symkey_local_v%d_from_key%d" % (v, n), "key-construction", prog([
                "let _ = PasetoSymmetricKey::<V%d, Local>::from(Key::<%d>::from([0u8; %d]));" % (v, n, n)]), False, "PasetoSymmetricKey<V%d, Local> from Key<%d>" % (v, n)))
    # v1 keys are DER documents of variable size: no fixed-size key material is ever the right length for them
    for n in (32, 48, 49, 64):
        out.append(P("private_key_v1_from_key%d" % n, "key-construction", prog([
            "let kb = Key::<%d>::from([1u8; %d]); let _ = PasetoAsymmetricPrivateKey::<V1, Public>::from(&kb);" % (n, n)]), False,
            "PasetoAsymmetricPrivateKey<V1, Public> from &Key<%d>" % n))
        out.append(P("public_key_v1_from_key%d" % n, "key-construction", prog([
            "let kb = Key::<%d>::from([2u8; %d]); let _ = PasetoAsymmetricPublicKey::<V1, Public>::from(&kb);" % (n, n)]), False,
            "PasetoAsymmetricPublicKey<V1, Public> from &Key<%d>" % n))
    out.append(P("private_key_v1_from_der_slice", "key-construction", prog([
        "let der: &[u8] = &[0u8; 16]; let _ = PasetoAsymmetricPrivateKey::<V1, Public>::from(der); let _ = PasetoAsymmetricPublicKey::<V1, Public>::from(der);"]), True,
        "v1 keys from a DER byte slice"))
    for v in (2, 3, 4):
        for n in (32, 48, 49, 64):
            priv_ok = (v in (2, 4) and n == 64) or (v == 3 and n == 48)
            pub_ok = (v in (2, 4) and n == 32) or (v == 3 and n == 49)
            out.append(P("private_key_v%d_from_key%d" % (v, n), "key-construction", prog([
                "let kb = Key::<%d>::from([1u8; %d]); let _ = PasetoAsymmetricPrivateKey::<V%d, Public>::from(&kb);" % (n, n, v)]), priv_ok,
                "PasetoAsymmetricPrivateKey<V%d, Public> from &Key<%d>" % (v, n)))
            ctor = "try_from" if v == 3 else "from"
            out.append(P("public_key_v%d_from_key%d" % (v, n), "key-construction", prog([
                "let kb = Key::<%d>::from([2u8; %d]); let _ = PasetoAsymmetricPublicKey::<V%d, Public>::%s(&kb);" % (n, n, v, ctor)]), pub_ok,
                "PasetoAsymmetricPublicKey<V%d, Public> %s &Key<%d>" % (v, ctor, n)))
        n_priv = 48 if v == 3 else 64
        n_pub = 49 if v == 3 else 32
        out.append(P("private_key_v%d_local_purpose" % v, "key-construction", prog([
            "let kb = Key::<%d>::from([1u8; %d]); let _ = PasetoAsymmetricPrivateKey::<V%d, Local>::from(&kb);" % (n_priv, n_priv, v)]), False,
            "PasetoAsymmetricPrivateKey<V%d, Local>" % v))
        out.append(P("public_key_v%d_local_purpose" % v, "key-construction", prog([
            "let kb = Key::<%d>::from([2u8; %d]); let _ = PasetoAsymmetricPublicKey::<V%d, Local>::%s(&kb);" % (n_pub, n_pub, v, "try_from" if v == 3 else "from")]), False,
            "PasetoAsymmetricPublicKey<V%d, Local>" % v))
    # nonce typed for a public purpose handed to a local encrypt
    for v in (1, 3, 4):
        out.append(P("nonce_public_purpose_v%d" % v, "key-construction", prog([
            "let nb = Key::<32>::from([3u8; 32]); let _ = PasetoNonce::<V%d, Public>::from(&nb);" % v]), False, "PasetoNonce<V%d, Public> from &Key<32>" % v))
    # ---- conversions between key / nonce types of different protocols (no From/Into/TryFrom path may exist)
    for vx in (1, 2, 3, 4):
        for vy in (1, 2, 3, 4):
            if vx == vy:
                continue
            out.append(P("convert_symkey_v%d_into_v%d" % (vx, vy), "key-conversion", prog([
                key_decl((vx, "Local"), "build"),
                "let _k2: PasetoSymmetricKey<V%d, Local> = k.into();" % vy]), False, "PasetoSymmetricKey<V%d, Local> .into() PasetoSymmetricKey<V%d, Local>" % (vx, vy)))
            out.append(P("convert_symkey_ref_v%d_from_v%d" % (vy, vx), "key-conversion", prog([
                key_decl((vx, "Local"), "build"),
                "let _k2 = PasetoSymmetricKey::<V%d, Local>::from(&k);" % vy]), False, "PasetoSymmetricKey<V%d, Local>::from(&PasetoSymmetricKey<V%d, Local>)" % (vy, vx)))
            out.append(P("convert_private_v%d_into_v%d" % (vx, vy), "key-conversion", prog([
                key_decl((vx, "Public"), "build"),
                "let _k2: PasetoAsymmetricPrivateKey<V%d, Public> = k.into();" % vy]), False, "private key V%d .into() private key V%d" % (vx, vy)))
            out.append(P("convert_public_v%d_into_v%d" % (vx, vy), "key-conversion", prog([
                key_decl((vx, "Public"), "parse"),
                "let _k2: PasetoAsymmetricPublicKey<V%d, Public> = k.into();" % vy]), False, "public key V%d .into() public key V%d" % (vx, vy)))
            out.append(P("convert_nonce_v%d_into_v%d" % (vx, vy), "key-conversion", prog([
                nonce_decl((vx, "Local")),
                "let _n2: PasetoNonce<V%d, Local> = n.into();" % vy]), False, "PasetoNonce<V%d, Local> .into() PasetoNonce<V%d, Local>" % (vx, vy)))
    for v in (1, 2, 3, 4):
        out.append(P("symkey_public_default_v%d" % v, "key-conversion", prog([
            "let _k: PasetoSymmetricKey<V%d, Public> = Default::default();" % v]), False, "PasetoSymmetricKey<V%d, Public> from Default" % v))
        out.append(P("symkey_into_private_v%d" % v, "key-conversion", prog([
            key_decl((v, "Local"), "build"),
            "let _k2: PasetoAsymmetricPrivateKey<V%d, Public> = (&k).into();" % v]), False, "symmetric key V%d into private key" % v))
        # nonce material sizes: 32 bytes for every version, 24 additionally for v2 only
        out.append(P("nonce_v%d_from_key32" % v, "key-construction", prog([
            "let nb = Key::<32>::from([3u8; 32]); let _ = PasetoNonce::<V%d, Local>::from(&nb);" % v]), True, "PasetoNonce<V%d, Local> from &Key<32>" % v))
        out.append(P("nonce_v%d_from_key24" % v, "key-construction", prog([
            "let nb = Key::<24>::from([3u8; 24]); let _ = PasetoNonce::<V%d, Local>::from(&nb);" % v]), v == 2, "PasetoNonce<V%d, Local> from &Key<24>" % v))
        for n in (16, 48):
            out.append(P("nonce_v%d_from_key%d" % (v, n), "key-construction", prog([
                "let nb = Key::<%d>::from([3u8; %d]); let _ = PasetoNonce::<V%d, Local>::from(&nb);" % (n, n, v)]), False, "PasetoNonce<V%d, Local> from &Key<%d>" % (v, n)))
    # ---- raw byte arrays of the WRONG length as key material (no From<&[u8; N]> / From<[u8; N]> path may exist for them)
    for v in (1, 2, 3, 4):
        for n in (16, 31, 32, 33, 48, 49, 64, 65):
            if n != 32:
                out.append(P("symkey_v%d_from_array%d" % (v, n), "key-construction", prog([
                    "let _ = PasetoSymmetricKey::<V%d, Local>::from(&[1u8; %d]);" % (v, n)]), False, "PasetoSymmetricKey<V%d, Local> from &[u8; %d]" % (v, n)))
                out.append(P("symkey_v%d_from_owned_array%d" % (v, n), "key-construction", prog([
                    "let _ = PasetoSymmetricKey::<V%d, Local>::from([1u8; %d]);" % (v, n)]), False, "PasetoSymmetricKey<V%d, Local> from [u8; %d]" % (v, n)))
            if v == 1:
                continue
            if n != (48 if v == 3 else 64):
                out.append(P("private_key_v%d_from_array%d" % (v, n), "key-construction", prog([
                    "let _ = PasetoAsymmetricPrivateKey::<V%d, Public>::from(&[1u8; %d]);" % (v, n)]), False, "PasetoAsymmetricPrivateKey<V%d, Public> from &[u8; %d]" % (v, n)))
            if n != (49 if v == 3 else 32):
                out.append(P("public_key_v%d_from_array%d" % (v, n), "key-construction", prog([
                    "let _ = PasetoAsymmetricPublicKey::<V%d, Public>::%s(&[2u8; %d]);" % (v, "try_from" if v == 3 else "from", n)]), False, "PasetoAsymmetricPublicKey<V%d, Public> from &[u8; %d]" % (v, n)))
    # ---- a symmetric key typed for the Public purpose / an asymmetric key typed for the Local purpose through ANY conversion
    #      from text or bytes (no such path may exist, whatever it is called)
    text_and_bytes = [
        ("try_from_str", "try_from(\"707172737475767778797a7b7c7d7e7f808182838485868788898a8b8c8d8e8f\")"),
        ("try_from_string", "try_from(String::from(\"707172737475767778797a7b7c7d7e7f808182838485868788898a8b8c8d8e8f\"))"),
        ("from_str_lit", "from(\"707172737475767778797a7b7c7d7e7f808182838485868788898a8b8c8d8e8f\")"),
        ("from_slice", "from(&[7u8; 32][..])"),
        ("try_from_slice", "try_from(&[7u8; 32][..])"),
        ("from_vec", "from(vec![7u8; 32])"),
        ("try_from_vec", "try_from(vec![7u8; 32])"),
        ("from_array", "from([7u8; 32])"),
        ("try_from_array_ref", "try_from(&[7u8; 32])"),
    ]
    for v in (1, 2, 3, 4):
        for ident, expr in text_and_bytes:
            out.append(P("symkey_public_v%d_%s" % (v, ident), "key-construction", prog([
                "let _ = PasetoSymmetricKey::<V%d, Public>::%s;" % (v, expr)]), False, "PasetoSymmetricKey<V%d, Public>::%s" % (v, expr[:40])))
        out.append(P("symkey_public_v%d_parse" % v, "key-construction", prog([
            "let _ = \"707172737475767778797a7b7c7d7e7f808182838485868788898a8b8c8d8e8f\".parse::<PasetoSymmetricKey<V%d, Public>>();" % v]), False,
            "str::parse::<PasetoSymmetricKey<V%d, Public>>" % v))
        if v != 1:
            for ident, expr in text_and_bytes[:2] + text_and_bytes[4:7]:
                out.append(P("private_key_local_v%d_%s" % (v, ident), "key-construction", prog([
                    "let _ = PasetoAsymmetricPrivateKey::<V%d, Local>::%s;" % (v, expr)]), False, "PasetoAsymmetricPrivateKey<V%d, Local>::%s" % (v, expr[:40])))
                out.append(P("public_key_local_v%d_%s" % (v, ident), "key-construction", prog([
                    "let _ = PasetoAsymmetricPublicKey::<V%d, Local>::%s;" % (v, expr)]), False, "PasetoAsymmetricPublicKey<V%d, Local>::%s" % (v, expr[:40])))
    # ---- a public key made out of a private key of a version whose private key does not contain it (v1: a PKCS#8 document,
    #      v3: a 48-byte scalar): whatever the conversion is called, its result cannot be of the documented size
    for v in (1, 3):
        for ident, line in (("from_ref", "let _pk = PasetoAsymmetricPublicKey::<V%d, Public>::from(&k);" % v),
                            ("into", "let _pk: PasetoAsymmetricPublicKey<V%d, Public> = (&k).into();" % v),
                            ("try_from_ref", "let _pk = PasetoAsymmetricPublicKey::<V%d, Public>::try_from(&k);" % v)):
            out.append(P("public_from_private_v%d_%s" % (v, ident), "key-conversion", prog([
                key_decl((v, "Public"), "build"), line]), False, "public key V%d out of a reference to the private key (%s)" % (v, ident)))
    # ---- an implicit assertion placed on a v1 / v2 object without the setter (field access, struct update)
    for v in (1, 2):
        for purpose in ("Local", "Public"):
            out.append(P("assertion_field_core_builder_v%d_%s" % (v, purpose.lower()), "assertion", prog([
                "let mut b = Paseto::<V%d, %s>::builder();" % (v, purpose),
                "b.implicit_assertion = Some(ImplicitAssertion::from(\"ctx\"));", "let _ = b;"]), False,
                "field assignment of an implicit assertion on Paseto<V%d, %s>" % (v, purpose)))
            for ty in ("GenericBuilder", "PasetoBuilder", "GenericParser", "PasetoParser"):
                out.append(P("assertion_field_%s_v%d_%s" % (ty.lower(), v, purpose.lower()), "assertion", prog([
                    "let mut b = %s::<V%d, %s>::default();" % (ty, v, purpose),
                    "b.implicit_assertion = ImplicitAssertion::from(\"ctx\");", "let _ = b;"]), False,
                    "field assignment of an implicit assertion on %s<V%d, %s>" % (ty, v, purpose)))
    out.extend(conversion_table_programs(max_n))
    out.extend(assoc_programs(harvested_names()))
    ft = foreign_table_program()
    if ft is not None:
        out.append(ft)
    seen = set()
    for p in out:
        assert p.ident not in seen, p.ident
        seen.add(p.ident)
    return out


# ---- the conversion table: which From / TryFrom impls exist between key material and the typed keys, decided for every
#      row at compile time by trait probing (an inherent associated const that exists only when the bound holds shadows
#      the trait's default `false`); every row is one `const _: () = assert!(..)`, so rustc reports each wrong row
TABLE_MAX_N = 130

PROBE_HEAD = """#![allow(unused)]
use rusty_paseto::prelude::*;
use core::marker::PhantomData;
trait Absent { const HOLDS: bool = false; }
struct ViaFrom<T, U>(PhantomData<(T, U)>);
struct ViaTryFrom<T, U>(PhantomData<(T, U)>);
impl<T, U> Absent for ViaFrom<T, U> {}
impl<T, U> Absent for ViaTryFrom<T, U> {}
impl<T: From<U>, U> ViaFrom<T, U> { const HOLDS: bool = true; }
impl<T: TryFrom<U>, U> ViaTryFrom<T, U> { const HOLDS: bool = true; }
struct IsDefault<T>(PhantomData<T>);
struct IsFromStr<T>(PhantomData<T>);
struct IsDeserialize<T>(PhantomData<T>);
impl<T> Absent for IsDefault<T> {}
impl<T> Absent for IsFromStr<T> {}
impl<T> Absent for IsDeserialize<T> {}
impl<T: Default> IsDefault<T> { const HOLDS: bool = true; }
impl<T: core::str::FromStr> IsFromStr<T> { const HOLDS: bool = true; }
impl<T: serde::de::DeserializeOwned> IsDeserialize<T> { const HOLDS: bool = true; }
"""


def table_targets():
    t = []
    for v in (1, 2, 3, 4):
        for p in ("Local", "Public"):
            t.append(("sym", v, p, "PasetoSymmetricKey<V%d, %s>" % (v, p)))
            t.append(("priv", v, p, "PasetoAsymmetricPrivateKey<'static, V%d, %s>" % (v, p)))
            t.append(("pub", v, p, "PasetoAsymmetricPublicKey<'static, V%d, %s>" % (v, p)))
            t.append(("nonce", v, p, "PasetoNonce<'static, V%d, %s>" % (v, p)))
    return t


def right_sizes(kind, v, purpose):
    """fixed sizes of key material that are the right length for this target (none: nothing of fixed size is)"""
    if kind == "sym":
        return (32,) if purpose == "Local" else ()
    if kind == "nonce":
        if purpose != "Local":
            return ()
        return (24, 32) if v == 2 else (32,)
    if purpose != "Public" or v == 1:
        return ()
    if kind == "priv":
        return (48,) if v == 3 else (64,)
    return (49,) if v == 3 else (32,)


def table_expect(kind, v, purpose, trait, src):
    """True: the conversion must exist; False: it must not; None: the property says nothing about it.
    src = (shape, n) for fixed-size material, ('var', text) for variable-size material, ('key', text) for another typed key"""
    shape, n = src
    typed_ok = (kind in ("sym", "nonce") and purpose == "Local") or (kind in ("priv", "pub") and purpose == "Public")
    if shape == "key":
        return False  # no typed key or nonce converts into one of another type, version or purpose
    if not typed_ok:
        return False  # a symmetric key / nonce of purpose Public and an asymmetric key of purpose Local come from nowhere
    if shape == "var":
        if kind in ("priv", "pub") and v == 1 and n == "&'static [u8]":
            return True  # v1 keys are DER documents handed over as a slice
        return None
    if n not in right_sizes(kind, v, purpose):
        return False  # fixed-size key material of the wrong length
    documented = {"sym": "owned", "nonce": "ref", "priv": "ref", "pub": "ref"}[kind]
    if shape != documented:
        return None  # another spelling of the right length
    if kind == "pub" and v == 3 and trait == "From":
        return None  # a v3 public key is a point that is checked: TryFrom is the documented form
    return True


def table_sources(max_n):
    out = []
    for n in range(1, max_n + 1):
        out += [(("owned", n), "Key<%d>" % n), (("ref", n), "&'static Key<%d>" % n), (("mutref", n), "&'static mut Key<%d>" % n), (("array", n), "[u8; %d]" % n), (("arrayref", n), "&'static [u8; %d]" % n)]
    for t in ("&'static [u8]", "Vec<u8>", "&'static Vec<u8>", "&'static str", "String", "&'static String", "Box<[u8]>", "&'static mut [u8]"):
        out.append((("var", t), t))
    for _, _, _, ty in table_targets():
        out.append((("key", ty), ty))
        out.append((("key", "&" + ty), "&'static " + ty))
    return out


def table_row(ty, trait, text, expect):
    w = "ViaFrom" if trait == "From" else "ViaTryFrom"
    if expect:
        return 'const _: () = assert!(<%s<%s, %s>>::HOLDS, "ROW|%s|%s|%s|is missing");\n' % (w, ty, text, ty, trait, text)
    return 'const _: () = assert!(!<%s<%s, %s>>::HOLDS, "ROW|%s|%s|%s|exists");\n' % (w, ty, text, ty, trait, text)


def conversion_table_programs(max_n):
    out = []
    srcs = table_sources(max_n)
    for kind, v, purpose, ty in table_targets():
        rows, n_true, n_false = [], 0, 0
        for src, text in srcs:
            if text == ty:
                continue  # T: From<T> always holds and constructs nothing
            for trait in ("From", "TryFrom"):
                e = table_expect(kind, v, purpose, trait, src)
                if e is None:
                    continue
                rows.append(table_row(ty, trait, text, e))
                n_true += 1 if e else 0
                n_false += 0 if e else 1
        typed_ok = (kind in ("sym", "nonce") and purpose == "Local") or (kind in ("priv", "pub") and purpose == "Public")
        if not typed_ok:
            # a value of this type comes from nowhere: not from Default, from text (FromStr), or from a deserialiser either
            for w, what in (("IsDefault", "Default"), ("IsFromStr", "FromStr"), ("IsDeserialize", "serde::Deserialize")):
                rows.append('const _: () = assert!(!<%s<%s>>::HOLDS, "ROW|%s|%s||exists");\n' % (w, ty, ty, what))
                n_false += 1
        p = P("table_%s_v%d_%s" % (kind, v, purpose.lower()), "conversion-table", PROBE_HEAD + "".join(rows) + "fn main() {}\n", True,
              "conversion table of %s: %d rows that must not exist, %d that must (From / TryFrom from Key<N>, &Key<N>, &mut Key<N>, [u8; N], &[u8; N] for N = 1..%d, slices, vectors, text, every other typed key)" % (ty, n_false, n_true, max_n))
        p.rows = (n_true, n_false)
        out.append(p)
    return out


def table_violations(p, errs):
    """one minimal program per wrong row of a conversion-table program"""
    out = []
    for _, m in errs:
        if "ROW|" not in m:
            continue
        ty, trait, text, how = m.split("ROW|", 1)[1].split("|")[:4]
        how = how.strip().split("\n")[0]
        exists = how.startswith("exists")
        ident = "row_" + hashlib.sha256(("%s|%s|%s" % (ty, trait, text)).encode()).hexdigest()[:10]
        wrappers = {"Default": "IsDefault", "FromStr": "IsFromStr", "serde::Deserialize": "IsDeserialize"}
        if trait in wrappers:
            row = 'const _: () = assert!(!<%s<%s>>::HOLDS, "ROW|%s|%s||exists");\n' % (wrappers[trait], ty, ty, trait)
        else:
            row = table_row(ty, trait, text, not exists)
        q = P(ident, "conversion-table", PROBE_HEAD + row + "fn main() {}\n", True, "%s: %s<%s> %s" % (ty, trait, text, "exists but must not" if exists else "is missing"))
        q.sig = "%s:conversion-%s:%s:%s<%s>" % (PID, "exists" if exists else "missing", ty.replace("'static, ", "").replace(" ", ""), trait, text.replace("'static ", "").replace(" ", ""))
        out.append((q, "%s: %s<%s> %s" % (ty, trait, text, "compiles: a construction path the property rules out" if exists else "no longer exists: the program with matching types is rejected")))
    return out


# ---- associated functions of the types that must not be constructible: `let _ = <T>::name;` compiles iff an associated
#      function (inherent or through a trait in scope) of that name exists for T, whatever its signature. The names tried are
#      every function name that occurs in the library's own source (so a newly added function is always among them) plus
#      the conventional constructor names. A name beyond the ones every type has (as_ref, from, try_from ...) is then
#      called in 26 constructor forms; if one of them type-checks, a value of the forbidden type has been made.
CONVENTIONAL_NAMES = ["new", "try_new", "new_random", "try_new_random", "random", "generate", "try_generate", "from_bytes", "try_from_bytes", "from_slice",
                      "try_from_slice", "from_hex", "try_from_hex", "from_str", "parse", "default", "zeroed", "zero", "empty", "from_key", "try_from_key", "from_raw",
                      "from_array", "with_key", "create", "build", "builder", "of", "wrap", "from_seed", "from_secret", "from_public", "from_pem", "from_der",
                      "from_pkcs8", "from_base64", "decode", "deserialize", "load", "open", "unchecked", "new_unchecked", "from_unchecked", "clone_from", "to_owned"]
# names that resolve for every type (blanket impls, AsRef on the key types): not constructors of a forbidden type
UNIVERSAL_NAMES = {"as_ref", "from", "try_from", "into", "try_into", "borrow", "borrow_mut", "type_id"}


def harvested_names():
    import glob
    import re
    names = set(CONVENTIONAL_NAMES)
    for f in glob.glob(os.path.join(REPO, "src", "**", "*.rs"), recursive=True):
        try:
            text = open(f, errors="replace").read()
        except OSError:
            continue
        for m in re.finditer(r"\bfn\s+([a-z_][a-z0-9_]*)", text):
            names.add(m.group(1))
    return sorted(n for n in names if len(n) < 48 and not n.startswith("test_") and n != "main")


def forbidden_types():
    out = []
    for kind, v, purpose, ty in table_targets():
        typed_ok = (kind in ("sym", "nonce") and purpose == "Local") or (kind in ("priv", "pub") and purpose == "Public")
        if not typed_ok:
            out.append((kind, v, purpose, ty))
    return out


def assoc_programs(names):
    out = []
    for kind, v, purpose, ty in forbidden_types():
        body = "".join("fn p_%d() { let _ = <%s>::%s; }\n" % (i, ty, n) for i, n in enumerate(names))
        p = P("assoc_%s_v%d_%s" % (kind, v, purpose.lower()), "associated-functions", "#![allow(unused)]\nuse rusty_paseto::prelude::*;\n" + body + "fn main() {}\n", None,
              "associated functions of %s: %d names tried" % (ty, len(names)))
        p.ty = ty
        p.names = names
        out.append(p)
    return out


def assoc_existing(p):
    """names for which `<T>::name` resolved (no error on their line except 'type annotations needed')"""
    bad = {}
    for code, line in ERROR_LINES.get(p.ident, []):
        i = line - 3
        if 0 <= i < len(p.names):
            bad.setdefault(p.names[i], set()).add(code)
    return [n for n in p.names if not (bad.get(n, set()) - {"E0282", "E0283", "E0284"})]


# ---- source types that belong to a DEPENDENCY of the library (ed25519_dalek::VerifyingKey, p384::PublicKey, ring's key pairs ...):
#      harvested from the `impl From<..> / TryFrom<..> for <typed key>` headers of the library's own source, so that a
#      newly added conversion from such a type is always among the rows. A foreign key type holds key material of ONE
#      fixed size: it may convert into typed keys of one length class only, never into a v1 key (those are DER documents
#      of variable size), never into a type that must not be constructible.
def repo_dependencies():
    import tomllib
    try:
        with open(os.path.join(REPO, "Cargo.toml"), "rb") as f:
            deps = tomllib.load(f).get("dependencies", {})
    except (OSError, ValueError):
        return {}
    out = {}
    for name, spec in deps.items():
        ver = spec if isinstance(spec, str) else spec.get("version")
        if ver:
            out[name.replace("-", "_")] = (name, ver)
    return out


def foreign_sources():
    import glob
    import re
    deps = repo_dependencies()
    found = set()
    pat = re.compile(r"impl\s*(?:<[^{;]*?>)?\s*(?:Try)?From\s*<\s*(.+?)\s*>\s*for\s+Paseto(?:SymmetricKey|AsymmetricPrivateKey|AsymmetricPublicKey|Nonce)\b", re.S)
    for f in glob.glob(os.path.join(REPO, "src", "**", "*.rs"), recursive=True):
        try:
            text = open(f, errors="replace").read()
        except OSError:
            continue
        for m in pat.finditer(text):
            src = " ".join(m.group(1).split())
            root = re.sub(r"^(&\s*('\w+\s+)?(mut\s+)?)+", "", src).split("::")[0].strip()
            if root in deps and "::" in src:
                src = re.sub(r"'\w+", "'static", src)
                src = re.sub(r"&\s*(?!')", "&'static ", src)
                found.add((src, root))
    return sorted(found), deps


def foreign_table_program():
    sources, deps = foreign_sources()
    if not sources:
        return None
    rows = []
    for kind, v, purpose, ty in table_targets():
        for src, _ in sources:
            for trait, w in (("From", "ViaFrom"), ("TryFrom", "ViaTryFrom")):
                rows.append('const _: () = assert!(!<%s<%s, %s>>::HOLDS, "FOREIGN|%s|%d|%s|%s|%s|%s");\n' % (w, ty, src, kind, v, purpose, ty, trait, src))
    p = P("table_foreign_sources", "conversion-table", PROBE_HEAD + "".join(rows) + "fn main() {}\n", None,
          "conversions from %d source type(s) of dependency crates (%s) into the 32 typed key / nonce types" % (len(sources), ", ".join(s for s, _ in sources)))
    p.extra_deps = sorted(set((deps[root][0], deps[root][1]) for _, root in sources))
    p.sources = [s for s, _ in sources]
    return p


def foreign_violations(p, errs):
    """existing conversions from foreign key types, judged: forbidden targets, v1 keys, more than one length class"""
    exists = {}
    for _, m in errs:
        if "FOREIGN|" not in m:
            continue
        kind, v, purpose, ty, trait, src = m.split("FOREIGN|", 1)[1].split("|")[:6]
        src = src.strip().split("\n")[0]
        exists.setdefault(src, []).append((kind, int(v), purpose, ty, trait))
    out = []
    for src, rows in exists.items():
        lengths = {}
        for kind, v, purpose, ty, trait in rows:
            typed_ok = (kind in ("sym", "nonce") and purpose == "Local") or (kind in ("priv", "pub") and purpose == "Public")
            if not typed_ok:
                why = "a type that must not be constructible"
            elif kind in ("priv", "pub") and v == 1:
                why = "a v1 key (a DER document of variable size) from a fixed-size foreign key type"
            else:
                why = None
                size = {"sym": 32, "nonce": 32, "priv": 48 if v == 3 else 64, "pub": 49 if v == 3 else 32}[kind]
                lengths.setdefault((kind, size), []).append((v, ty, trait))
            if why:
                out.append((src, ty, trait, why))
        for kind in ("sym", "nonce", "priv", "pub"):
            sizes = sorted(sz for (k, sz) in lengths if k == kind)
            if len(sizes) > 1:
                # one foreign type cannot be the right length for both: the minority length class is the wrong one
                by_size = {sz: lengths[(kind, sz)] for sz in sizes}
                majority = max(sizes, key=lambda sz: len(by_size[sz]))
                for sz in sizes:
                    if sz != majority:
                        for v, ty, trait in by_size[sz]:
                            out.append((src, ty, trait, "keys of %d and of %d bytes both convert from this one foreign key type" % (majority, sz)))
    res = []
    for src, ty, trait, why in out:
        ident = "rowf_" + hashlib.sha256(("%s|%s|%s" % (ty, trait, src)).encode()).hexdigest()[:10]
        w = "ViaFrom" if trait == "From" else "ViaTryFrom"
        q = P(ident, "conversion-table", PROBE_HEAD + 'const _: () = assert!(!<%s<%s, %s>>::HOLDS, "FOREIGN|x|0|x|%s|%s|%s");\n' % (w, ty, src, ty, trait, src) + "fn main() {}\n", True,
              "%s: %s<%s> exists: %s" % (ty, trait, src, why))
        q.extra_deps = p.extra_deps
        q.sig = "%s:conversion-exists:%s:%s<%s>" % (PID, ty.replace("'static, ", "").replace(" ", ""), trait, src.replace("'static ", "").replace(" ", ""))
        res.append((q, "%s: %s<%s> compiles - %s" % (ty, trait, src, why)))
    return res


CONSTRUCTOR_ARGS = ["", "Key::<32>::from([0u8; 32])", "&Key::<32>::from([0u8; 32])", "Key::<64>::from([0u8; 64])", "&Key::<64>::from([0u8; 64])", "&Key::<48>::from([0u8; 48])",
                    "&Key::<49>::from([2u8; 49])", "[0u8; 32]", "&[0u8; 32]", "&[0u8; 32][..]", "vec![0u8; 32]", "\"00\"", "String::new()"]


def constructor_forms(ty, name):
    forms = []
    for a in CONSTRUCTOR_ARGS:
        forms.append("let _: %s = <%s>::%s(%s);" % (ty, ty, name, a))
        forms.append("let _: %s = <%s>::%s(%s).unwrap();" % (ty, ty, name, a))
    return forms


CARGO_TOML = """[package]
name = "pv_c19"
version = "0.0.0"
edition = "2021"
publish = false

[dependencies]
rusty_paseto = { path = "%s", default-features = false, features = ["default", "batteries_included", "v1_local", "v2_local", "v3_local", "v4_local", "v1_public", "v2_public", "v3_public", "v4_public"] }

serde = "1"

[workspace]
"""


ERROR_LINES = {}


def run_cargo(pkg, target, bins=None):
    env = dict(os.environ)
    env.update(CARGO_TARGET_DIR=target, CARGO_NET_OFFLINE="true", CARGO_TERM_COLOR="never")
    env.pop("RUSTC_WRAPPER", None)
    cmd = ["cargo", "check", "--offline", "--keep-going", "--message-format=json", "--manifest-path", os.path.join(pkg, "Cargo.toml")]
    if bins:
        for b in bins:
            cmd += ["--bin", b]
    else:
        cmd += ["--bins"]
    p = subprocess.run(cmd, env=env, stdout=subprocess.PIPE, stderr=subprocess.PIPE, text=True, errors="replace")
    compiled, errors = set(), {}
    lib_ok = False
    for line in p.stdout.splitlines():
        if not line.startswith("{"):
            continue
        try:
            m = json.loads(line)
        except ValueError:
            continue
        if m.get("reason") == "compiler-artifact":
            t = m["target"]
            if "bin" in t["kind"]:
                compiled.add(t["name"])
            if t["name"] == "rusty_paseto":
                lib_ok = True
        elif m.get("reason") == "compiler-message":
            msg = m["message"]
            if msg.get("level") != "error":
                continue
            t = m["target"]["name"]
            code = (msg.get("code") or {}).get("code")
            errors.setdefault(t, []).append((code, msg.get("message", "")))
            for sp in msg.get("spans", []):
                if sp.get("is_primary"):
                    ERROR_LINES.setdefault(t, []).append((code, sp.get("line_start", 0)))
    return compiled, errors, lib_ok, p.stderr


def load_known():
    try:
        with open(os.path.join(VERIF, "known_findings.json")) as f:
            j = json.load(f)
    except FileNotFoundError:
        return {}
    return {e["signature"]: e for e in j.get("open", []) if e.get("property") == PID}


def write_evidence(tier, seed, t0, cov, violations):
    os.makedirs(os.path.join(VERIF, "evidence"), exist_ok=True)
    ev = {"property_id": PID, "tier": tier, "seed": seed, "level": "exploration", "coverage": cov,
          "assumptions": ["decided for the rustc of this image", "the table covers the operations named in the property statement, not every conceivable misuse"],
          "wall_s": round(time.time() - t0, 2), "violations": violations}
    tmp = os.path.join(VERIF, "evidence", PID + ".json.tmp")
    with open(tmp, "w") as f:
        json.dump(ev, f, indent=1)
    os.replace(tmp, os.path.join(VERIF, "evidence", PID + ".json"))


def prepare(pkg, programs):
    shutil.rmtree(pkg, ignore_errors=True)
    os.makedirs(os.path.join(pkg, "src", "bin"))
    extra = sorted(set(d for p in programs for d in getattr(p, "extra_deps", [])))
    with open(os.path.join(pkg, "Cargo.toml"), "w") as f:
        toml = CARGO_TOML % REPO
        if extra:
            toml = toml.replace("\n[workspace]", "".join('%s = "%s"\n' % (n, v) for n, v in extra if n != "serde") + "\n[workspace]")
        f.write(toml)
    shutil.copy(os.path.join(HERE, "smoke", "Cargo.lock"), os.path.join(pkg, "Cargo.lock"))
    for p in programs:
        with open(os.path.join(pkg, "src", "bin", p.ident + ".rs"), "w") as f:
            f.write(p.source)


def judge(p, compiled, errors):
    """-> (status, detail). status: ok | violation | generator-error"""
    if p.must_compile is None:
        return "ok", ""  # associated-function tables: judged by stage 2 (see main)
    did = p.ident in compiled
    errs = errors.get(p.ident, [])
    if p.must_compile:
        if did and not errs:
            return "ok", ""
        codes = sorted(set(c or "syntax" for c, _ in errs))
        return "violation", "must compile but is rejected (%s): %s" % (",".join(codes), "; ".join(m for _, m in errs[:2]))
    if did:
        return "violation", "must be rejected but compiles"
    if not errs:
        return "generator-error", "neither compiled nor reported an error"
    bad = [(c, m) for c, m in errs if c not in TYPE_LEVEL and not (c is None and m.startswith("aborting due to"))]
    if bad:
        return "generator-error", "rejected by a non-type-level error %s: %s" % (bad[0][0], bad[0][1])
    return "ok", ",".join(sorted(set(c for c, _ in errs if c)))


def main():
    t0 = time.time()
    args = sys.argv[1:]
    seed = int(os.environ.get("VERIF_SEED", "0") or 0)
    pkg = os.path.join(WORK, "pkg")
    target = os.path.join(WORK, "target")
    fam = family()
    if args and args[0] == "--replay":
        with open(args[1]) as f:
            rep = json.load(f)
        one = P(rep["case"]["ident"], rep["case"]["group"], rep["case"]["source"], rep["case"]["must_compile"], rep["case"]["what"])
        one.extra_deps = [tuple(d) for d in rep["case"].get("extra_deps", [])]
        prepare(pkg, [one])
        compiled, errors, lib_ok, _ = run_cargo(pkg, target)
        if not lib_ok and not compiled and "rusty_paseto" in errors:
            print("INCONCLUSIVE: the library does not compile with all features")
            return 2
        st, detail = judge(one, compiled, errors)
        print("replay: %s: %s %s" % (one.ident, st, detail))
        if st == "violation":
            print("VIOLATION property=%s replay=%s" % (PID, os.path.abspath(args[1])))
            return 1
        return 0 if st == "ok" else 2
    tier = args[0] if args else os.environ.get("VERIF_TIER", "quick")
    if tier not in ("quick", "thorough"):
        print("usage: c19.py quick|thorough | --replay <file>")
        return 2
    if tier == "thorough":
        fam = family(520)
    prepare(pkg, fam)
    compiled, errors, lib_ok, stderr = run_cargo(pkg, target)
    if "rusty_paseto" in errors or (not compiled and not lib_ok):
        print("INCONCLUSIVE: the library does not compile with all features against /repo's working tree")
        print("\n".join(stderr.splitlines()[-15:]))
        return 2
    results = [(p,) + judge(p, compiled, errors) for p in fam]
    if tier == "thorough":
        # cross-check the JSON attribution: every program that must be rejected is compiled again on its own
        negatives = [p for p in fam if p.must_compile is False]
        for i in range(0, len(negatives), 40):
            chunk = negatives[i:i + 40]
            c2, e2, _, _ = run_cargo(pkg, target, bins=[p.ident for p in chunk])
            for p in chunk:
                st2, d2 = judge(p, c2, e2)
                for j, r in enumerate(results):
                    if r[0] is p and r[1] == "ok" and st2 != "ok":
                        results[j] = (p, st2, "isolated re-check: " + d2)
    # associated functions of the forbidden types: names beyond the universal ones are called in constructor forms
    assoc = [p for p in fam if p.group == "associated-functions"]
    stage2 = []
    extra_names = {}
    for p in assoc:
        for n in assoc_existing(p):
            if n not in UNIVERSAL_NAMES:
                extra_names.setdefault(p.ident, []).append(n)
                for k, form in enumerate(constructor_forms(p.ty, n)):
                    q = P("ctor_%s_%s_%02d" % (p.ident[6:], n, k), "associated-functions", prog([form]), False,
                          "%s constructed through the associated function `%s`: %s" % (p.ty, n, form))
                    stage2.append(q)
    if stage2:
        prepare(pkg, stage2)
        c3, e3, _, _ = run_cargo(pkg, target)
        for q in stage2:
            st, d = judge(q, c3, e3)
            if st == "violation":
                results.append((q, st, d))
    for p in fam:
        if p.ident == "table_foreign_sources":
            for q, d in foreign_violations(p, errors.get(p.ident, [])):
                results.append((q, "violation", d))
            by_group_extra = len(getattr(p, "sources", []))
    gen_errors = [(p, d) for p, st, d in results if st == "generator-error"]
    violations = []
    for p, st, d in results:
        if st != "violation":
            continue
        rows = table_violations(p, errors.get(p.ident, [])) if p.group == "conversion-table" else []
        if p.ident == "table_foreign_sources":
            rows = []
        violations.extend(rows[:6] if rows else [(p, d)])
    # sanity of the family itself: every positive template must compile, otherwise negatives mean nothing
    known = load_known()
    exit_code = 0
    nviol = 0
    os.makedirs(os.path.join(VERIF, "replays"), exist_ok=True)
    for p, d in violations:
        sig = getattr(p, "sig", None) or "%s:%s:%s" % (PID, "compiles" if not p.must_compile else "rejected", p.ident)
        if sig in known:
            print("KNOWN-FINDING: property=%s %s (%s)" % (PID, sig, known[sig].get("what", "")))
            continue
        h = hashlib.sha256(sig.encode()).hexdigest()[:12]
        path = os.path.join(VERIF, "replays", "%s-%s.json" % (PID, h))
        with open(path, "w") as f:
            json.dump({"property": PID, "signature": sig, "detail": d, "case": {"ident": p.ident, "group": p.group, "what": p.what, "must_compile": p.must_compile, "source": p.source, "extra_deps": [list(d) for d in getattr(p, "extra_deps", [])]}}, f, indent=1)
        print("violation: %s :: %s - %s" % (sig, p.what, d))
        print("VIOLATION property=%s replay=%s" % (PID, path))
        exit_code = 1
        nviol += 1
    by_group = {}
    codes = {}
    for p, st, d in results:
        k = "%s/%s" % (p.group, "must-compile" if p.must_compile else "must-be-rejected")
        by_group[k] = by_group.get(k, 0) + 1
        if st == "ok" and not p.must_compile:
            for c in d.split(","):
                codes[c] = codes.get(c, 0) + 1
    negatives = [p for p in fam if p.must_compile is False]
    samples = [{"program": p.ident, "what": p.what, "must_compile": p.must_compile, "observed": st + (" " + d if d else ""), "source": p.source} for p, st, d in (results[:2] + results[len(results) // 2:len(results) // 2 + 2] + results[-2:])]
    table_true = sum(getattr(p, "rows", (0, 0))[0] for p in fam)
    table_false = sum(getattr(p, "rows", (0, 0))[1] for p in fam)
    by_group["associated-functions/names-tried-per-type"] = len(assoc[0].names) if assoc else 0
    by_group["associated-functions/names-beyond-the-universal-ones"] = sum(len(v) for v in extra_names.values())
    by_group["conversion-table/rows-that-must-exist"] = table_true
    by_group["conversion-table/rows-that-must-not-exist"] = table_false
    cov = {
        "evaluations": len(results) + table_true + table_false,
        "distinct_nontrivial": len(set(hashlib.sha256(p.source.encode()).hexdigest() for p in negatives)) + table_false,
        "rule": "programs = known-good program for protocol X with only the type parameters of the key / nonce / receiver replaced: (operation in {core encrypt, decrypt, sign, verify, generic build, parse, batteries-included build, parse} x X x Y over all 8x8 protocol pairs, nonce of another version), "
                "methods of the other purpose, set_implicit_assertion on the five builder/parser types and the assertion argument of decrypt/verify for all 8 protocols, key constructions (symmetric key with Public purpose or from Key<24|48|64>, asymmetric keys from Key<32|48|49|64> per version and with Local purpose, nonce with Public purpose). "
                "Oracle: compiles iff X == Y and the operation belongs to X's purpose (assertions iff V in {3,4}; key constructors iff the documented size). "
                "Conversion table: for each of the 32 typed key / nonce types (4 kinds x 4 versions x 2 purposes), whether From<S> / TryFrom<S> exists for S in {Key<N>, &Key<N>, &mut Key<N>, [u8; N], &[u8; N] : N = 1..130 (thorough 520)}, byte slices, vectors, text, and every other typed key by value and by reference - each row decided by rustc through trait probing inside a const assertion; "
                "rows that must not exist: every source for a symmetric key or nonce of purpose Public and an asymmetric key of purpose Local, fixed-size material of a wrong length, any typed key into another; rows that must exist: the documented form of the right length; other spellings of the right length and variable-size material are not judged. "
                "Associated functions: for each of the 16 types that must not be constructible (symmetric key / nonce of purpose Public, asymmetric keys of purpose Local), `let _ = <T>::name;` for every function name occurring in the library's own source plus 45 conventional constructor names - it compiles iff an associated function of that name exists for T; a name beyond as_ref / from / try_from / into / try_into is then called in 26 constructor forms (no argument, key material of every size, arrays, slices, text; plain and .unwrap()): none may type-check. "
                "Non-trivial = programs / rows that must be rejected; distinct by source text.",
        "samples": samples,
        "exhaustive": True,
        "classes": {"by_group": by_group, "rejection_error_codes": codes},
        "generator_errors": len(gen_errors),
        "isolated_recheck_of_negatives": tier == "thorough",
    }
    write_evidence(tier, seed, t0, cov, nviol)
    if gen_errors:
        for p, d in gen_errors[:5]:
            print("generator problem: %s: %s" % (p.ident, d))
        if exit_code == 0:
            print("INCONCLUSIVE: %d generated programs were rejected for reasons other than the type system" % len(gen_errors))
            return 2
    print("C19 %s: %d programs (%d must be rejected), %d unlisted violation(s), %.1fs" % (tier, len(results), len(negatives), nviol, time.time() - t0))
    return exit_code


if __name__ == "__main__":
    sys.exit(main())
