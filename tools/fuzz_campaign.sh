#!/usr/bin/env bash
# tools/fuzz_campaign.sh <target> <runs-per-job> <jobs> <outdir>
# Builds the libFuzzer targets (cargo +nightly fuzz build), seeds a fresh corpus per job with authentic tokens
# produced by the current build (pv fuzz-seeds), runs <jobs> independent bounded campaigns in parallel and writes
# <outdir>/<target>/{artifacts/,stats.json}. Artifacts are judged later by `pv <id> thorough` (PV_FUZZ_DIR), never here.
# Exit 0 always unless the infrastructure is unusable (then 3, and the caller carries on without a campaign).
set -u
target="$1"; runs="$2"; jobs="$3"; out="$4"
cd "$(dirname "$0")/.."
seed="${VERIF_SEED:-0}"
export CARGO_NET_OFFLINE=true
if ! (cd harness && cargo +nightly fuzz build "$target" >"../.work/fuzz-build-$target.log" 2>&1); then
  echo "note: libFuzzer target $target could not be built (see .work/fuzz-build-$target.log); thorough tier continues without a campaign"
  exit 3
fi
bin="harness/fuzz/target/x86_64-unknown-linux-gnu/release/$target"
[ -x "$bin" ] || { echo "note: $bin missing"; exit 3; }
rm -rf "$out/$target"; mkdir -p "$out/$target/artifacts"
harness/target/release/pv fuzz-seeds "$out" >/dev/null || exit 3
cat > "$out/$target/dict" <<'EOD'
"v1.local."
"v2.local."
"v3.local."
"v4.local."
"v1.public."
"v2.public."
"v3.public."
"v4.public."
"."
".."
"="
"AAAA"
EOD
pids=()
for j in $(seq 1 "$jobs"); do
  c="$out/$target/corpus-$j"; mkdir -p "$c"; cp "$out/$target/seeds/"* "$c/" 2>/dev/null
  ( "$bin" "$c" -runs="$runs" -seed=$((seed * 1000 + j)) -artifact_prefix="$out/$target/artifacts/" -dict="$out/$target/dict" \
      -len_control=0 -max_len=1500 -timeout=20 -rss_limit_mb=3000 -print_final_stats=1 >"$out/$target/job-$j.log" 2>&1 ) &
  pids+=($!)
done
for p in "${pids[@]}"; do wait "$p"; done
python3 - "$out/$target" "$runs" "$jobs" <<'EOP'
import glob, json, os, re, sys
d, runs, jobs = sys.argv[1], int(sys.argv[2]), int(sys.argv[3])
execs = 0; crashed = 0; corpus = 0; cov = 0
for f in glob.glob(os.path.join(d, "job-*.log")):
    t = open(f, errors="replace").read()
    m = re.search(r"stat::number_of_executed_units:\s*(\d+)", t)
    if m: execs += int(m.group(1))
    if "ERROR: libFuzzer" in t or "ORACLE VIOLATION" in t or "panicked at" in t: crashed += 1
    m = re.findall(r"cov: (\d+)", t)
    if m: cov = max(cov, int(m[-1]))
for c in glob.glob(os.path.join(d, "corpus-*")):
    corpus += len(os.listdir(c))
arts = os.listdir(os.path.join(d, "artifacts"))
json.dump({"target": os.path.basename(d), "jobs": jobs, "runs_per_job": runs, "executions": execs, "jobs_stopped_by_a_crash": crashed,
           "final_corpus_files": corpus, "max_edge_coverage": cov, "artifacts": len(arts), "seeds": len(os.listdir(os.path.join(d, "seeds")))},
          open(os.path.join(d, "stats.json"), "w"), indent=1)
print("libFuzzer %s: %d executions in %d jobs, corpus %d files, %d artifact(s)" % (os.path.basename(d), execs, jobs, corpus, len(arts)))
EOP
# corpora are not needed any more
rm -rf "$out/$target"/corpus-* "$out/$target/seeds"
exit 0
