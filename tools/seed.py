#!/usr/bin/env python3
"""Seeded-change workflow.

  tools/seed.py confirm <worktree> <variant-dir>     in a scratch worktree of /repo: demo passes on the clean tree, patch applies,
                                                     crate compiles with all features, the existing suite passes, demo fails with the patch
  tools/seed.py keep <variant-dir> <id>              copy patch.diff, demo.rs, meta.json (+ confirmation) to /verif/seeded/<id>/
  tools/seed.py run <seeded-id|all> [--ids C01,C03] [--tier quick]
                                                     apply /verif/seeded/<id>/patch.diff to /repo, run the checks, undo it (git checkout -- .)
Nothing is ever committed in /repo.
"""
import json, os, shutil, subprocess, sys, time
V = os.path.dirname(os.path.dirname(os.path.abspath(__file__)))
REPO = os.environ.get("PV_REPO", "/repo")
ALLF = "batteries_included v1_local v2_local v3_local v4_local v1_public v2_public v3_public v4_public"
ALL_IDS = ["C%02d" % i for i in range(1, 21)]


def sh(cmd, cwd=None, env=None, timeout=3600):
    e = dict(os.environ)
    if env:
        e.update(env)
    p = subprocess.run(cmd, shell=True, cwd=cwd, env=e, stdout=subprocess.PIPE, stderr=subprocess.STDOUT, text=True, timeout=timeout)
    return p.returncode, p.stdout


def confirm(wt, vdir):
    env = {"CARGO_TARGET_DIR": os.path.join(wt, "target"), "CARGO_NET_OFFLINE": "true"}
    meta_p = os.path.join(vdir, "meta.json")
    meta = json.load(open(meta_p)) if os.path.exists(meta_p) else {}
    res = {}
    rc, out = sh("git status --porcelain -- src Cargo.toml tests", cwd=wt)
    assert out.strip() == "", "worktree not clean:\n" + out
    demo_name = "seeded_demo"
    kind = meta.get("demo_kind", "test")
    dc = meta.get("demo_command", "")
    feats = meta.get("demo_features")
    if feats is None:
        feats = ""
        if "--features" in dc:
            rest = dc.split("--features", 1)[1].strip()
            feats = rest.split('"')[1] if rest.startswith('"') or rest.startswith('\\"') else rest.split()[0]
            feats = feats.replace("\\", "")
        if "--all-features" in dc:
            feats = ALLF
    nodef = "--no-default-features " if "--no-default-features" in dc else ""
    if " --release" in dc:
        nodef = "--release " + nodef  # the demonstration only shows in an optimised build (no debug assertions)
    fopt = ('--features "%s"' % feats) if feats else ""
    if kind == "must_not_compile":
        demo_dst = os.path.join(wt, "examples", demo_name + ".rs")
        demo_cmd = "cargo check --offline %s%s --example %s" % (nodef, fopt, demo_name)
    elif kind == "feature_set_does_not_compile":
        demo_dst = os.path.join(wt, "tests", demo_name + ".rs")
        demo_cmd = "cargo check --offline %s%s" % (nodef, fopt)
    else:
        demo_dst = os.path.join(wt, "tests", demo_name + ".rs")
        demo_cmd = "cargo test --offline %s%s --test %s" % (nodef, fopt, demo_name)
    if kind != "feature_set_does_not_compile":
        shutil.copy(os.path.join(vdir, "demo.rs"), demo_dst)
    # what the demo must do on the clean / patched tree
    clean_ok = kind != "must_not_compile"       # test passes / feature set compiles on the clean tree; mixing program is rejected
    patched_ok = kind == "must_not_compile"     # mixing program compiles with the patch; test / feature set fails
    relaxed_all_features = meta.get("property") == "C20"
    try:
        rc, out = sh(demo_cmd, cwd=wt, env=env)
        res["demo_on_clean_tree"] = "pass" if (rc == 0) == clean_ok else "FAIL"
        res["demo_kind"] = kind
        clean_tail = out[-1500:]
        rc, out = sh("git apply %s" % os.path.join(vdir, "patch.diff"), cwd=wt)
        res["patch_applies"] = rc == 0
        if rc != 0:
            res["apply_output"] = out[-800:]
            return res
        rc, out = sh('cargo check --offline --no-default-features --features "%s"' % ALLF, cwd=wt, env=env)
        res["compiles_all_features"] = (rc == 0) or relaxed_all_features
        rc, out = sh("cargo check --offline", cwd=wt, env=env)
        res["compiles_default"] = rc == 0
        # the existing suite, unedited (the demo file is moved away for this step)
        if os.path.exists(demo_dst):
            os.rename(demo_dst, demo_dst + ".off")
        rc, out = sh("cargo test --workspace --no-fail-fast --offline", cwd=wt, env=env)
        passed = sum(int(l.split("ok.")[1].split("passed")[0]) for l in out.splitlines() if l.startswith("test result: ok."))
        res["existing_suite"] = "pass (%d tests incl. doctests)" % passed if rc == 0 else "FAIL"
        if rc != 0:
            res["suite_output"] = "\n".join(l for l in out.splitlines() if "FAILED" in l or "failed" in l or l.startswith("error"))[:1500]
        if os.path.exists(demo_dst + ".off"):
            os.rename(demo_dst + ".off", demo_dst)
        rc, out = sh(demo_cmd, cwd=wt, env=env)
        res["demo_with_patch"] = "fails (as required)" if (rc == 0) == patched_ok else "PASSES (demo does not show the breakage)"
        if kind == "must_not_compile":
            res["demo_with_patch"] = "compiles (as required: the mixing program must be rejected but is accepted)" if rc == 0 else "PASSES (still rejected)"
        if kind == "feature_set_does_not_compile":
            res["demo_with_patch"] = "fails (as required: feature set no longer compiles)" if rc != 0 else "PASSES (feature set still compiles)"
        res["demo_failure_excerpt"] = "\n".join(l for l in out.splitlines() if "panicked" in l or "assert" in l or "FAILED" in l)[:1200]
        res["demo_cmd"] = demo_cmd
        if res["demo_on_clean_tree"] != "pass":
            res["clean_output"] = clean_tail
    finally:
        sh("git checkout -- . && git clean -fdq tests src examples", cwd=wt)
        for p in (demo_dst, demo_dst + ".off"):
            if os.path.exists(p):
                os.remove(p)
    res["confirmed"] = (res.get("demo_on_clean_tree") == "pass" and res.get("patch_applies") and res.get("compiles_all_features") and res.get("compiles_default")
                        and str(res.get("existing_suite", "")).startswith("pass") and (str(res.get("demo_with_patch", "")).startswith("fails") or str(res.get("demo_with_patch", "")).startswith("compiles (as required")))
    res["confirmed_at"] = time.strftime("%Y-%m-%dT%H:%M:%SZ", time.gmtime())
    return res


def keep(vdir, sid, conf=None):
    dst = os.path.join(V, "seeded", sid)
    os.makedirs(dst, exist_ok=True)
    for f in ("patch.diff", "demo.rs"):
        shutil.copy(os.path.join(vdir, f), os.path.join(dst, f))
    meta = json.load(open(os.path.join(vdir, "meta.json"))) if os.path.exists(os.path.join(vdir, "meta.json")) else {}
    if conf:
        meta["confirmation"] = conf
    json.dump(meta, open(os.path.join(dst, "meta.json"), "w"), indent=1)
    print("kept", dst)


def run(sid, ids, tier):
    d = os.path.join(V, "seeded", sid)
    rc, out = sh("git status --porcelain -- src Cargo.toml", cwd=REPO)
    assert out.strip() == "", "/repo working tree is not clean"
    results = {}
    try:
        rc, out = sh("git apply %s" % os.path.join(d, "patch.diff"), cwd=REPO)
        if rc != 0:
            print(sid, "PATCH DOES NOT APPLY", out[-300:])
            return None
        for i in ids:
            t = time.time()
            rc, out = sh("./check %s %s" % (i, tier), cwd=V, timeout=7200)
            lines = [l for l in out.splitlines() if l.startswith("violation:")]
            results[i] = {"exit": rc, "wall_s": round(time.time() - t, 1), "first": (lines[0][:300] if lines else ""), "n_violation_lines": len([l for l in out.splitlines() if l.startswith("VIOLATION")])}
    finally:
        sh("git checkout -- . && git clean -fdq src", cwd=REPO)
    return results


def main():
    a = sys.argv[1:]
    if a[0] == "confirm":
        r = confirm(a[1], a[2])
        print(json.dumps(r, indent=1))
        json.dump(r, open(os.path.join(a[2], "confirmation.json"), "w"), indent=1)
    elif a[0] == "keep":
        conf_p = os.path.join(a[1], "confirmation.json")
        keep(a[1], a[2], json.load(open(conf_p)) if os.path.exists(conf_p) else None)
    elif a[0] == "run":
        ids = None
        tier = "quick"
        if "--ids" in a:
            ids = a[a.index("--ids") + 1].split(",")
        if "--tier" in a:
            tier = a[a.index("--tier") + 1]
        sids = sorted(d for d in os.listdir(os.path.join(V, "seeded")) if not d.startswith("_")) if a[1] == "all" else [a[1]]
        for sid in sids:
            meta = json.load(open(os.path.join(V, "seeded", sid, "meta.json")))
            target = ids or [meta.get("property", sid[:3])]
            r = run(sid, target, tier)
            if r is None:
                continue
            for i, x in r.items():
                status = "CAUGHT" if x["exit"] == 1 else ("missed" if x["exit"] == 0 else "exit%d" % x["exit"])
                print("%-12s %s %-7s %6.1fs %s" % (sid, i, status, x["wall_s"], x["first"][:160]))
            runs = meta.setdefault("check_runs", [])
            runs.append({"at": time.strftime("%Y-%m-%dT%H:%M:%SZ", time.gmtime()), "tier": tier, "verif_commit": sh("git rev-parse --short HEAD", cwd=V)[1].strip(), "results": r})
            json.dump(meta, open(os.path.join(V, "seeded", sid, "meta.json"), "w"), indent=1)
            sys.stdout.flush()
        if not os.environ.get("SEED_NO_REBUILD"):
            sh("./check build", cwd=V)


main()
