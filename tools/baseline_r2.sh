#!/usr/bin/env bash
# How many round-2 seeded changes did the machinery catch BEFORE it was strengthened with what they taught?
# Runs each r2 seed's target check (quick) with /verif as of commit $1 in a private copy under /tmp/mx.
set -u
commit="$1"; out="$2"
rm -rf /tmp/mx; mkdir -p /tmp/mx/verif
git clone -q /repo /tmp/mx/repo; cp /repo/Cargo.lock /tmp/mx/repo/ 2>/dev/null
git -C /verif archive "$commit" | tar -x -C /tmp/mx/verif
cp -a /verif/harness/target /tmp/mx/verif/harness/target 2>/dev/null
mkdir -p /tmp/mx/verif/seeded; cp -a /verif/seeded/*-r2v* /tmp/mx/verif/seeded/
cd /tmp/mx/verif
sed -i 's#path = "/repo"#path = "/tmp/mx/repo"#' harness/Cargo.toml cfg/smoke/Cargo.toml
export PV_REPO=/tmp/mx/repo PV_VERIF=/tmp/mx/verif
./check build || exit 2
: > "$out"
for d in seeded/*-r2v*; do
  sid=$(basename "$d"); id=${sid%%-*}
  git -C /tmp/mx/repo checkout -q -- . ; git -C /tmp/mx/repo clean -fdq src
  if ! git -C /tmp/mx/repo apply "/tmp/mx/verif/$d/patch.diff" 2>/dev/null; then echo "$sid does-not-apply" >> "$out"; continue; fi
  ./check "$id" quick > /tmp/mx/out.txt 2>&1; rc=$?
  echo "$sid $id exit=$rc $(grep -m1 '^violation:' /tmp/mx/out.txt | cut -c1-140)" >> "$out"
done
git -C /tmp/mx/repo checkout -q -- . ; git -C /tmp/mx/repo clean -fdq src
