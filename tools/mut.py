#!/usr/bin/env python3
"""Sensitivity trials: apply one mutant (a list of exact-text replacements) to /repo's working tree, run the
listed checks' quick tier, then restore the tree with `git checkout -- .`. Never commits anything in /repo.
usage: tools/mut.py <mutant-name|all> [--ids C01,C08] [--tier quick]
Mutants live in /verif/mutants/mutants.json: {name: {"breaks": [ids], "edits": [[file, old, new], ...], "note": ""}}"""
import json, subprocess, sys, os, time
V = os.path.dirname(os.path.dirname(os.path.abspath(__file__)))
REPO = os.environ.get("PV_REPO", "/repo")
M = json.load(open(os.path.join(V, "mutants", "mutants.json")))

def sh(cmd, **kw):
    return subprocess.run(cmd, shell=True, stdout=subprocess.PIPE, stderr=subprocess.STDOUT, text=True, **kw)

def clean():
    r = sh("git -C %s status --porcelain -- src Cargo.toml" % REPO)
    return r.stdout.strip() == ""

def run_one(name, ids, tier):
    m = M[name]
    assert clean(), "/repo working tree is not clean"
    try:
        for f, old, new in m["edits"]:
            p = os.path.join(REPO, f)
            s = open(p).read()
            assert s.count(old) >= 1, "mutant %s: text not found in %s: %r" % (name, f, old[:60])
            open(p, "w").write(s.replace(old, new, 1))
        res = {}
        for i in ids:
            t = time.time()
            r = sh("cd %s && ./check %s %s" % (V, i, tier))
            vio = [l for l in r.stdout.splitlines() if l.startswith("VIOLATION")]
            res[i] = (r.returncode, len(vio), round(time.time() - t, 1), [l for l in r.stdout.splitlines() if l.startswith("violation:")][:2])
        return res
    finally:
        sh("git -C %s checkout -- ." % REPO)

def main():
    args = sys.argv[1:]
    name = args[0]
    ids = None
    tier = "quick"
    if "--ids" in args:
        ids = args[args.index("--ids") + 1].split(",")
    if "--tier" in args:
        tier = args[args.index("--tier") + 1]
    names = list(M) if name == "all" else [name]
    for n in names:
        target = ids or M[n]["breaks"]
        res = run_one(n, target, tier)
        for i, (rc, nv, secs, lines) in res.items():
            status = "CAUGHT" if rc == 1 else ("missed" if rc == 0 else "exit%d" % rc)
            print("%-40s %s %-7s %5.1fs %s" % (n, i, status, secs, (lines[0][:150] if lines else "")))
        sys.stdout.flush()
    sh("cd %s && ./check build" % V)

main()
