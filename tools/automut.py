#!/usr/bin/env python3
"""Automatic mutation sweep (sensitivity measurement, not a registered check).

Generates first-order mutants of the library's non-test source with a few syntactic operators, keeps those that still
compile with all features AND pass the repository's own default-feature tests (lib + integration tests), and runs the
quick tier of the pv checks (C01-C18) and C19 against each survivor, in a private copy of /verif and /repo under /tmp/am
(so /repo itself is never touched). Results go to <out>.jsonl, one line per mutant.

usage: tools/automut.py <out.jsonl> [--max N] [--seed S] [--files glob,glob]
"""
import glob, json, os, random, re, subprocess, sys, time

OUT = sys.argv[1]
args = sys.argv[2:]
def opt(name, default):
    return args[args.index(name) + 1] if name in args else default
MAX = int(opt("--max", "100000"))
SEED = int(opt("--seed", "1"))
AM = "/tmp/am"
R, V = AM + "/repo", AM + "/verif"
ALLF = "batteries_included v1_local v2_local v3_local v4_local v1_public v2_public v3_public v4_public"
# cheapest / most often killing first: the sweep stops at the first check that reports the mutant
CHECKS = ["C01", "C02", "C08", "C05", "C06", "C03", "C14", "C13", "C15", "C16", "C11", "C12", "C17", "C18", "C04", "C07", "C09", "C10", "C19"]


def sh(cmd, cwd=None, timeout=3600, env=None):
    e = dict(os.environ)
    e.update(env or {})
    try:
        p = subprocess.run(cmd, shell=True, cwd=cwd, env=e, stdout=subprocess.PIPE, stderr=subprocess.STDOUT, text=True, timeout=timeout)
        return p.returncode, p.stdout
    except subprocess.TimeoutExpired:
        return 124, "TIMEOUT"


def setup():
    if os.path.exists(R) and os.path.exists(V):
        return
    sh("rm -rf %s && mkdir -p %s" % (AM, AM))
    sh("git clone -q /repo %s && cp /repo/Cargo.lock %s/" % (R, R))
    sh("cp -a /repo/target %s/target" % R)
    sh("rsync -a --exclude .git --exclude .work --exclude 'harness/fuzz/target' /verif/ %s/" % V)
    sh("sed -i 's#path = \"/repo\"#path = \"%s\"#' harness/Cargo.toml cfg/smoke/Cargo.toml" % R, cwd=V)


def code_lines(path):
    """(index, line) of mutable code lines: no comments, docs, attributes, tests, use/mod lines."""
    out = []
    lines = open(path).read().split("\n")
    in_block_comment = False
    for i, l in enumerate(lines):
        s = l.strip()
        if re.match(r"#\[cfg\((all\()?test", s) or s.startswith("mod tests") or s.startswith("mod unit_tests") or s.startswith("mod builders") and "test" in "".join(lines[max(0, i - 2):i]):
            break
        if "/*" in s:
            in_block_comment = True
        if in_block_comment:
            if "*/" in s:
                in_block_comment = False
            continue
        if not s or s.startswith("//") or s.startswith("#[") or s.startswith("#![") or s.startswith("use ") or s.startswith("pub use ") or s.startswith("mod ") or s.startswith("pub mod ") or s.startswith("pub(crate) use"):
            continue
        out.append((i, l))
    return lines, out


def split_code_and_strings(line):
    """yield (is_string, text) pieces so that operators on code never touch string literals"""
    pieces, cur, i, in_s = [], "", 0, False
    while i < len(line):
        c = line[i]
        if in_s:
            cur += c
            if c == "\\" and i + 1 < len(line):
                cur += line[i + 1]
                i += 1
            elif c == '"':
                pieces.append((True, cur))
                cur, in_s = "", False
        else:
            if c == '"':
                if cur:
                    pieces.append((False, cur))
                cur, in_s = '"', True
            elif line[i:i + 2] == "//":
                break
            else:
                cur += c
        i += 1
    if cur:
        pieces.append((in_s, cur))
    tail = line[i:] if line[i:i + 2] == "//" else ""
    return pieces, tail


def mutants_of_line(line):
    """list of (operator, new_line)"""
    res = []
    pieces, tail = split_code_and_strings(line)

    def rebuild(idx, new_piece):
        return "".join(new_piece if j == idx else p for j, (_, p) in enumerate(pieces)) + tail

    for idx, (is_s, p) in enumerate(pieces):
        if is_s:
            # string literal: change one character in the middle (domain separation strings, headers, claim keys)
            inner = p[1:-1]
            if 2 <= len(inner) <= 40 and "{" not in inner and "\\" not in inner and "expect(" not in line and "#[error" not in line and "panic!" not in line:
                k = len(inner) // 2
                ch = "x" if inner[k] != "x" else "y"
                res.append(("string-char", rebuild(idx, '"' + inner[:k] + ch + inner[k + 1:] + '"')))
            continue
        for m in re.finditer(r"(<=|>=|==|!=|&&|\|\|)", p):
            rep = {"<=": "<", ">=": ">", "==": "!=", "!=": "==", "&&": "||", "||": "&&"}[m.group(1)]
            res.append(("op:%s->%s" % (m.group(1), rep), rebuild(idx, p[:m.start()] + rep + p[m.end():])))
        for m in re.finditer(r"(?<![<>=!&\-])\s(<|>)\s(?![=])", p):
            rep = {"<": "<=", ">": ">="}[m.group(1)]
            res.append(("op:%s->%s" % (m.group(1), rep), rebuild(idx, p[:m.start(1)] + rep + p[m.end(1):])))
        for m in re.finditer(r"\b(true|false)\b", p):
            rep = "false" if m.group(1) == "true" else "true"
            res.append(("bool", rebuild(idx, p[:m.start()] + rep + p[m.end():])))
        # integer literals that are not const-generic arguments / array types / tuple fields
        for m in re.finditer(r"(?<![\w.:<\[;])(\d+)(?![\w>\]]|\s*\])", p):
            before = p[:m.start()]
            if before.rstrip().endswith("::<") or re.search(r"\.\s*$", before) or re.search(r"[uif](8|16|32|64|size)\s*;\s*$", before):
                continue
            n = int(m.group(1))
            if n > 4096:
                continue
            for d in (1, -1):
                if n + d < 0:
                    continue
                res.append(("const:%d->%d" % (n, n + d), rebuild(idx, p[:m.start()] + str(n + d) + p[m.end():])))
        # slice bounds [..N] / [N..]
        for m in re.finditer(r"\[\s*(\.\.)(\d+)\s*\]|\[\s*(\d+)(\.\.)\s*\]", p):
            if m.group(2):
                n = int(m.group(2))
                res.append(("slice-end", rebuild(idx, p[:m.start(2)] + str(max(0, n - 1)) + p[m.end(2):])))
            else:
                n = int(m.group(3))
                res.append(("slice-start", rebuild(idx, p[:m.start(3)] + str(n + 1) + p[m.end(3):])))
        # `!expr` -> `expr`
        for m in re.finditer(r"(?<![=!<>])!(?=[\w(])(?!\s*\()", p):
            if re.match(r"!\w+!", p[m.start():]):
                continue
            nxt = p[m.end():m.end() + 12]
            if re.match(r"\w+!", nxt):  # macro call such as !vec![..]
                continue
            res.append(("negation-removed", rebuild(idx, p[:m.start()] + p[m.end():])))
    s = line.strip()
    # statement deletion: a call statement on its own line
    if re.match(r"^[\w:.<>&\[\]]+\(.*\)\??;\s*$", s) and not s.startswith(("let ", "return", "Ok(", "Err(", "Some(", "assert")):
        res.append(("statement-deleted", re.sub(r"\S.*$", "", line)))
    # `expr?;` -> `let _ = expr;` (error ignored)
    m = re.match(r"^(\s*)([\w:.<>]+\(.*\))\?;\s*$", line)
    if m and not s.startswith("let "):
        res.append(("error-ignored", "%slet _ = %s;" % (m.group(1), m.group(2))))
    # swap two adjacent `&a, &b` items of a one-line slice literal
    m = re.search(r"&\[([^\]]+)\]", line)
    if m and line.count("&[") == 1:
        items = [x.strip() for x in m.group(1).split(",") if x.strip()]
        for k in range(len(items) - 1):
            if items[k] != items[k + 1]:
                sw = items[:]
                sw[k], sw[k + 1] = sw[k + 1], sw[k]
                res.append(("slice-items-swapped", line[:m.start(1)] + ", ".join(sw) + line[m.end(1):]))
    # multi-line PAE arrays: a line consisting of one `&item,` can be duplicated / dropped only with its neighbours -> handled by deletion of the line
    if re.match(r"^\s*&?[\w.:()<>\[\]]+(\.\w+\(\))*,\s*$", line) and "=>" not in line:
        res.append(("array-item-deleted", re.sub(r"\S.*$", "", line)))
    # de-duplicate
    seen, out = set(), []
    for op, nl in res:
        if nl != line and nl not in seen:
            seen.add(nl)
            out.append((op, nl))
    return out


def main():
    setup()
    rnd = random.Random(SEED)
    files = opt("--files", None)
    if files:
        paths = sorted(set(sum((glob.glob(os.path.join(R, g), recursive=True) for g in files.split(",")), [])))
    else:
        paths = sorted(glob.glob(os.path.join(R, "src/**/*.rs"), recursive=True))
    cands = []
    for path in paths:
        lines, code = code_lines(path)
        for i, l in code:
            for op, nl in mutants_of_line(l):
                cands.append((os.path.relpath(path, R), i, op, l, nl))
    rnd.shuffle(cands)
    done = set()
    if os.path.exists(OUT):
        for ln in open(OUT):
            try:
                j = json.loads(ln)
                done.add((j["file"], j["line"], j["new"]))
            except ValueError:
                pass
    print("candidates: %d (already done %d)" % (len(cands), len(done)), flush=True)
    env = {"CARGO_TARGET_DIR": R + "/target", "CARGO_NET_OFFLINE": "true", "PV_REPO": R, "PV_VERIF": V}
    # the checks build their own harness: they must not inherit the repository's target directory
    env_checks = {"CARGO_NET_OFFLINE": "true", "PV_REPO": R, "PV_VERIF": V}
    n = 0
    for f, i, op, old, new in cands:
        if n >= MAX:
            break
        if (f, i + 1, new.strip()) in done:
            continue
        path = os.path.join(R, f)
        sh("git checkout -q -- . && git clean -fdq src", cwd=R)
        lines = open(path).read().split("\n")
        if lines[i] != old:
            continue
        lines[i] = new
        open(path, "w").write("\n".join(lines))
        rec = {"file": f, "line": i + 1, "op": op, "old": old.strip(), "new": new.strip()}
        t0 = time.time()
        rc, out = sh('cargo check --offline --no-default-features --features "%s"' % ALLF, cwd=R, env=env)
        if rc != 0:
            rec["status"] = "does-not-compile"
        else:
            rc, out = sh("cargo test --offline --lib --tests", cwd=R, env=env, timeout=900)
            if rc != 0:
                rec["status"] = "killed-by-existing-tests"
            else:
                killed = []
                exit2 = []
                for c in CHECKS:
                    rc, out = sh("./check %s quick" % c, cwd=V, env=env_checks, timeout=1800)
                    if rc == 1:
                        killed.append(c)
                        break
                    elif rc != 0:
                        exit2.append(c)
                rec["status"] = "killed" if killed else "SURVIVED"
                rec["killed_by"] = killed
                if exit2:
                    rec["inconclusive"] = exit2
                n += 1
        rec["secs"] = round(time.time() - t0, 1)
        with open(OUT, "a") as fo:
            fo.write(json.dumps(rec) + "\n")
        print(rec["status"], f, i + 1, op, "|", rec["new"][:90], "|", ",".join(rec.get("killed_by", [])), flush=True)
    sh("git checkout -q -- . && git clean -fdq src", cwd=R)


main()
