#!/usr/bin/env bash
# runs every thorough tier once, sequentially, logging exit code and wall time
cd "$(dirname "$0")/.."
for i in C01 C02 C04 C05 C06 C08 C10 C11 C12 C13 C14 C15 C16 C17 C18 C19 C03 C07 C09 C20; do
  s=$(date +%s); out=$(./check $i thorough 2>&1); rc=$?; e=$(date +%s)
  echo "$i exit=$rc wall=$((e-s))s :: $(echo "$out" | tail -1)"
  echo "$out" | grep -E "^(VIOLATION|violation:|INCONCLUSIVE|KNOWN)" | head -5
done
