/* LD_PRELOAD shim: the operating system's random source fails after a while (fault injection for C10).
 *
 * PV_RNG_OK=<n>: the first n calls of getrandom() that ask for key-sized output (flags == 0, length >= 16) succeed,
 * every later one fails with EIO. Calls with other flags (the standard library seeding its hash maps) always succeed.
 * Both the libc wrapper and the raw syscall(SYS_getrandom, ...) entry are covered. */
#define _GNU_SOURCE
#include <dlfcn.h>
#include <errno.h>
#include <stdarg.h>
#include <stdlib.h>
#include <sys/syscall.h>
#include <sys/types.h>
#include <unistd.h>

static long budget = -2;
static long served = 0;

static int should_fail(size_t len, unsigned int flags) {
  if (budget == -2) {
    const char *e = getenv("PV_RNG_OK");
    budget = e ? atol(e) : -1;
  }
  if (budget < 0 || flags != 0 || len < 16) return 0;
  if (served >= budget) return 1;
  served++;
  return 0;
}

ssize_t getrandom(void *buf, size_t len, unsigned int flags) {
  static ssize_t (*real)(void *, size_t, unsigned int) = 0;
  if (!real) real = (ssize_t(*)(void *, size_t, unsigned int))dlsym(RTLD_NEXT, "getrandom");
  if (should_fail(len, flags)) {
    errno = EIO;
    return -1;
  }
  return real ? real(buf, len, flags) : (ssize_t)syscall(SYS_getrandom, buf, len, flags);
}

long syscall(long number, ...) {
  static long (*real)(long, ...) = 0;
  if (!real) real = (long (*)(long, ...))dlsym(RTLD_NEXT, "syscall");
  va_list ap;
  va_start(ap, number);
  long a = va_arg(ap, long), b = va_arg(ap, long), c = va_arg(ap, long), d = va_arg(ap, long), e = va_arg(ap, long), f = va_arg(ap, long);
  va_end(ap);
  if (number == SYS_getrandom && should_fail((size_t)b, (unsigned int)c)) {
    errno = EIO;
    return -1;
  }
  return real(number, a, b, c, d, e, f);
}
