/* LD_PRELOAD shim: the operating system's random source fails after a while (fault injection for C10).
 *
 * PV_RNG_OK=<n>: the first n calls of getrandom() that ask for key-sized output (flags == 0, length >= 16) succeed,
 * every later one fails with EIO. Calls with other flags (the standard library seeding its hash maps) always succeed.
 * PV_RNG_PATTERN=<k>: instead of failing, key-sized requests are SERVED with chosen bytes - unusual but perfectly legal
 * outputs of a random source, all different from each other (an 8-byte call counter sits in the middle):
 *   1 four leading zero bytes, 2 all 0xff around the counter, 3 four trailing zero bytes, 4 all zero around the counter.
 * Both the libc wrapper and the raw syscall(SYS_getrandom, ...) entry are covered. */
#define _GNU_SOURCE
#include <dlfcn.h>
#include <errno.h>
#include <stdarg.h>
#include <stdlib.h>
#include <sys/syscall.h>
#include <sys/types.h>
#include <unistd.h>

static long budget = -2;
static long served = 0;

static long pattern = -2;
static unsigned long long calls = 0;

/* 1 = served with a pattern */
static int serve_pattern(void *buf, size_t len, unsigned int flags) {
  if (pattern == -2) {
    const char *e = getenv("PV_RNG_PATTERN");
    pattern = e ? atol(e) : -1;
  }
  if (pattern <= 0 || flags != 0 || len < 16) return 0;
  unsigned char *b = (unsigned char *)buf;
  unsigned long long c = ++calls;
  for (size_t i = 0; i < len; i++) b[i] = (pattern == 2) ? 0xff : (pattern == 4 ? 0x00 : (unsigned char)(0xa5 ^ (i * 7)));
  for (int i = 0; i < 8; i++) b[len / 2 - 4 + i] = (unsigned char)(c >> (8 * i)) ^ (pattern == 2 ? 0xff : 0);
  if (pattern == 1) for (int i = 0; i < 4; i++) b[i] = 0;
  if (pattern == 3) for (int i = 0; i < 4; i++) b[len - 1 - i] = 0;
  return 1;
}

static int should_fail(size_t len, unsigned int flags) {
  if (budget == -2) {
    const char *e = getenv("PV_RNG_OK");
    budget = e ? atol(e) : -1;
  }
  if (budget < 0 || flags != 0 || len < 16) return 0;
  if (served >= budget) return 1;
  served++;
  return 0;
}

ssize_t getrandom(void *buf, size_t len, unsigned int flags) {
  static ssize_t (*real)(void *, size_t, unsigned int) = 0;
  if (!real) real = (ssize_t(*)(void *, size_t, unsigned int))dlsym(RTLD_NEXT, "getrandom");
  if (serve_pattern(buf, len, flags)) return (ssize_t)len;
  if (should_fail(len, flags)) {
    errno = EIO;
    return -1;
  }
  return real ? real(buf, len, flags) : (ssize_t)syscall(SYS_getrandom, buf, len, flags);
}

long syscall(long number, ...) {
  static long (*real)(long, ...) = 0;
  if (!real) real = (long (*)(long, ...))dlsym(RTLD_NEXT, "syscall");
  va_list ap;
  va_start(ap, number);
  long a = va_arg(ap, long), b = va_arg(ap, long), c = va_arg(ap, long), d = va_arg(ap, long), e = va_arg(ap, long), f = va_arg(ap, long);
  va_end(ap);
  if (number == SYS_getrandom && serve_pattern((void *)a, (size_t)b, (unsigned int)c)) return b;
  if (number == SYS_getrandom && should_fail((size_t)b, (unsigned int)c)) {
    errno = EIO;
    return -1;
  }
  return real(number, a, b, c, d, e, f);
}
