#!/usr/bin/env bash
# tools/matrix.sh <out.json> [ids...]: every seeded change and every own mutant against every listed check (quick tier), in a
# private copy of /verif and /repo under /tmp/mx so that /repo itself is not touched and other work can go on.
set -u
out="$1"; shift
ids="${*:-C01 C02 C03 C04 C05 C06 C07 C08 C09 C10 C11 C12 C13 C14 C15 C16 C17 C18}"
rm -rf /tmp/mx; mkdir -p /tmp/mx
git clone -q /repo /tmp/mx/repo
cp /repo/Cargo.lock /tmp/mx/repo/ 2>/dev/null
rsync -a --exclude .git --exclude .work --exclude 'harness/fuzz/target' /verif/ /tmp/mx/verif/
cd /tmp/mx/verif
sed -i 's#path = "/repo"#path = "/tmp/mx/repo"#' harness/Cargo.toml cfg/smoke/Cargo.toml
export PV_REPO=/tmp/mx/repo PV_VERIF=/tmp/mx/verif
./check build || exit 2
python3 - "$out" $ids <<'EOP'
import json, os, subprocess, sys, time
out = sys.argv[1]; ids = sys.argv[2:]
V = "/tmp/mx/verif"; R = "/tmp/mx/repo"
def sh(c, cwd=None):
    p = subprocess.run(c, shell=True, cwd=cwd, stdout=subprocess.PIPE, stderr=subprocess.STDOUT, text=True)
    return p.returncode, p.stdout
res = {}
changes = []
for sid in sorted(d for d in os.listdir(os.path.join(V, "seeded")) if not d.startswith("_")):
    changes.append(("seed:" + sid, ("patch", os.path.join(V, "seeded", sid, "patch.diff"))))
M = json.load(open(os.path.join(V, "mutants", "mutants.json")))
for name, m in M.items():
    changes.append(("mut:" + name, ("edits", m["edits"])))
for name, (kind, data) in changes:
    sh("git checkout -q -- . && git clean -fdq src", cwd=R)
    ok = True
    if kind == "patch":
        rc, o = sh("git apply %s" % data, cwd=R); ok = rc == 0
    else:
        for f, old, new in data:
            p = os.path.join(R, f); s = open(p).read()
            if old not in s: ok = False; break
            open(p, "w").write(s.replace(old, new, 1))
    if not ok:
        res[name] = "does-not-apply"; continue
    row = {}
    for i in ids:
        rc, o = sh("./check %s quick" % i, cwd=V)
        row[i] = {0: "-", 1: "CAUGHT", 2: "exit2"}.get(rc, "exit%d" % rc)
    res[name] = row
    json.dump(res, open(out, "w"), indent=1)
    print(name, " ".join("%s:%s" % (k, v) for k, v in row.items() if v != "-"), flush=True)
sh("git checkout -q -- . && git clean -fdq src", cwd=R)
EOP
