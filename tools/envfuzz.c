/* LD_PRELOAD shim: the process environment as an input.
 *
 * Every environment variable the process asks for that is neither really set nor on the pass-through list below
 * "exists" and has the value PV_ENV_VALUE. The names asked for are appended to the file PV_ENV_LOG (one per line),
 * so that the evidence can say which names the code under test reads. Rust's std::env::var goes through getenv(). */
#define _GNU_SOURCE
#include <dlfcn.h>
#include <stdio.h>
#include <stdlib.h>
#include <string.h>

/* entries ending in '_' are prefixes, the others are exact names (system, toolchain and harness variables) */
static const char *PASS[] = {"PV_", "VERIF_", "RUST_", "RUSTC", "RUSTFLAGS", "RUSTDOC", "RUSTDOCFLAGS", "RUSTUP_", "CARGO", "CARGO_", "PROPTEST_", "LD_", "LC_", "LANG", "LANGUAGE", "TZ", "TZDIR", "HOME", "PATH",
                             "PWD", "OLDPWD", "TMP", "TMPDIR", "TEMP", "TERM", "NO_COLOR", "CLICOLOR", "CLICOLOR_FORCE", "COLORTERM", "USER", "LOGNAME", "SHELL", "HOSTNAME", "MALLOC_", "GLIBC_", "GCONV_PATH",
                             "NLSPATH", "LOCPATH", "HOSTALIASES", "RES_OPTIONS", "LOCALDOMAIN", "POSIXLY_CORRECT", "OPENSSL_", "SSL_", "XDG_", "COLUMNS", "LINES", "BOLERO_", "LLVM_", "ASAN_", "UBSAN_",
                             "TSAN_", "MSAN_", 0};

static char *(*real_getenv)(const char *) = 0;

static char *lookup(const char *name) {
  if (!real_getenv) real_getenv = (char *(*)(const char *))dlsym(RTLD_NEXT, "getenv");
  char *v = real_getenv ? real_getenv(name) : 0;
  if (v || !name) return v;
  for (int i = 0; PASS[i]; i++) {
    size_t n = strlen(PASS[i]);
    if (PASS[i][n - 1] == '_' ? strncmp(name, PASS[i], n) == 0 : strcmp(name, PASS[i]) == 0) return 0;
  }
  char *fake = real_getenv("PV_ENV_VALUE");
  char *log = real_getenv("PV_ENV_LOG");
  if (log) {
    FILE *f = fopen(log, "a");
    if (f) {
      fprintf(f, "%s\n", name);
      fclose(f);
    }
  }
  return fake;
}

char *getenv(const char *name) { return lookup(name); }
char *secure_getenv(const char *name) { return lookup(name); }
