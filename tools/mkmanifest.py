#!/usr/bin/env python3
"""Regenerates /verif/MANIFEST.json from the table below (kept valid against the schema at all times)."""
import json, os, sys
V = os.path.dirname(os.path.dirname(os.path.abspath(__file__)))
props = [json.loads(l) for l in open(os.path.join(V, "properties.jsonl"))]

PV_NOTE = "trusts rustc/cargo, proptest's generators and shrinker, and the harness's own oracle code; verdict = held on the generated cases only; a tenth of the cases is repeated in child processes (build profile without debug assertions; every unset environment variable reading as a generated value via an LD_PRELOAD getenv shim) and ~20 saved cases per property are replayed first"
CLAIMED = {
 # id: (engine, technique, level text, level note)
 "C01": ("pv", "round-trip property (inverse oracle) over generated inputs with proptest + exhaustive boundary-length sweep, 4 versions x 3 layers",
         "parse(build(x)) == x on a deterministic sweep of all singled-out message lengths (0..100000 bytes) and on generated keys, nonces, Unicode messages, footers and assertions, for every local version at the core, generic and batteries-included layers.", PV_NOTE),
 "C02": ("pv", "round-trip property (inverse oracle) over generated inputs and generated key pairs with proptest, 4 versions x 3 layers",
         "verify(sign(m)) == m with a fresh Ed25519/P-384 key pair per case (RSA from a pool of 7) over the same message/footer/assertion space as C01, at all three layers.", PV_NOTE + "; RSA keys from a fixed pool"),
 "C03": ("pv", "mutation of authentic tokens: exhaustive single-edit neighbourhoods (bit flips, character substitutions, prefixes, insert/delete, non-canonical base64) + proptest-generated multi-edits and splices, with an accept/reject oracle on the error class",
         "For fixed tokens per protocol x layer every single-bit flip, every single-character substitution (70 symbols), every prefix, byte insertion/deletion at every offset and every non-canonical base64 variant is enumerated; random edits, multi-edit scripts and 8 splice kinds are generated. Rejections must be format/authentication errors with 0 validator calls; acceptance only in the two tolerated classes.", PV_NOTE),
 "C04": ("pv", "metamorphic key substitution: exhaustive single-bit neighbours of the key + generated other keys (proptest), control parse under the right key",
         "parse_{K'}(build_K(m)) must fail for all single-bit neighbours, all-zero/all-one, negated/degenerate points, permuted / two-bit / hex-respelled keys, keys built from material of another length, other generated keys and other RSA pool keys, at all three layers; judged through a parser that has just accepted the token under K, and with the key object overwritten in place.", PV_NOTE),
 "C05": ("pv", "metamorphic footer relations (related footers built by construction, token-side footer-segment edits) with an iff-oracle; proptest",
         "accept iff norm(F') == norm(F) checked in both directions, footer-segment edits rejected under both the original and the edited value, produced footer segment equals base64url(F) iff F non-empty; 8 protocols x 3 layers.", PV_NOTE),
 "C06": ("pv", "metamorphic assertion relations with an iff-oracle, not-stored and length-independence checks, footer/assertion re-split; proptest",
         "accept iff norm(A') == norm(A); token length independent of A; A (raw, base64url, hex) absent from token text, decoded payload and footer; same-concatenation/different-split rejected; v3/v4 x local/public x 3 layers.", PV_NOTE),
 "C07": ("pv", "exhaustive enumeration of the 56 ordered protocol pairs x 4 presentations x 3 layers + proptest-generated tokens; oracle: Y never accepts",
         "Every ordered pair (X,Y) is covered with verbatim, relabelled, relabelled+padded and relabelled+re-laid-out presentations, shared key bytes wherever both protocols take the same bytes; all 3 layers of Y must return Err.", PV_NOTE),
 "C08": ("pv", "differential testing against an independent executable transcription of the specification (specref) pinned to the 45 official vectors; generated inputs with proptest",
         "Byte-for-byte comparison of local tokens with the reference, cross-verification of public tokens in both directions, library decryption of reference tokens with arbitrary wire nonces, footer-segment structure; the reference re-derives every official vector before each run.",
         PV_NOTE + "; RSA-PSS (ring) and Poly1305 primitives are shared with the library"),
 "C09": ("pv", "exhaustive length/prefix/hex sweeps + generated arbitrary text under catch_unwind (proptest); thorough adds a libFuzzer target",
         "Every decoded payload length 0..=400 per header/layer, every prefix/suffix/deletion of authentic tokens and every hex-key length 0..=200 (valid hex to 1100 and around powers of two to 2^20) are enumerated completely; arbitrary token text, footer segments decoding to (unbalanced) JSON documents and authentic tokens with hostile claim values are generated (60k quick / 1.1M thorough). Any unwind is a violation keyed by panic location; inputs nested up to 10^6 levels deep are parsed in a helper process whose death (stack overflow) is a violation for the announced case.", PV_NOTE),
 "C10": ("pv", "history invariant over N generated builds per (version, builder, mode) - sequential, interleaved with other versions, concurrent on 8/16 threads, continued in a forked process: pairwise-distinct nonces/tokens + per-bit Hoeffding bound + per-byte variety",
         "24 histories of 20,000 (quick) / 100,000 (thorough) builds under one key with identical or varying claims and with one builder built repeatedly, plus large claims, generated interleavings with other versions, 8 concurrent histories (8/16 threads at the same time), 24 histories continued in a forked child and 24 during which getrandom() starts failing (fault injection), claims that look like nonce material; nonce fields must be pairwise distinct (no shared 8-byte window for v3/v4), every nonce bit within N/2 +- sqrt(30N), every byte position varied.",
         PV_NOTE + "; observes the OS RNG, unpredictability itself is not decidable by observation"),
 "C11": ("pv", "model-based: generated instants x renderings (offset, fraction, separator, zone) and non-timestamp values placed in exp of authentic tokens, accept/reject model with don't-care classes; proptest + deterministic offset grid",
         "PasetoParser::default() on authentic tokens of all 8 protocols whose exp is past/future (log-uniform distance from 2 s to 1971 / 60 s to year 9000) in every UTC offset and fraction form, or a non-timestamp JSON value; must reject past and malformed (21 near-miss formats), accept absent and strict future; members written twice and decoy members; claims handed back never show an expired exp; the same parser is kept across the instant its token expires; the whole rule set re-run in child processes whose wall clock is SET to 6 (thorough 14) calendar boundaries, one (three) of them FROZEN so that exp / nbf can sit on now to the nanosecond (exp == now must be refused).", PV_NOTE + "; reads the wall clock with >= 2 s / >= 60 s margins; the SET clock needs the system cc (skipped, and said so in the evidence, without it)"),
 "C12": ("pv", "model-based as C11 for nbf plus all (exp, nbf) class combinations; proptest + deterministic grid",
         "Same space as C11 with the direction reversed for nbf and the 25 (exp class x nbf class) combinations; accept iff exp in {absent, future} and nbf in {absent, past}; near-miss formats, members written twice, decoy members, clock crossing and SET-clock children as for C11.", PV_NOTE + "; reads the wall clock with margins"),
 "C13": ("pv", "stateful model-based testing of PasetoBuilder call histories: exhaustive to length 5/6 over a 9-operation alphabet + proptest-generated histories to length 30; payload read back through GenericParser",
         "Every token returned by any build of any history (incl. repeated builds) must satisfy the exp/acknowledgement rule, the creation-time defaults (iat = nbf = creation instant, exp = +3600 s exactly) and carry every supplied value; exhaustive short histories on v4.local, generated ones on all protocols (two interleaved builders, near-miss timestamp formats as supplied values, payloads beyond 64 KiB); builders that wait 3-6 s (thorough 31/61 s) before building; every history to length 4 re-run under a wall clock SET to calendar boundaries.", PV_NOTE + "; reads the wall clock around Default::default() with +-1 s slack"),
 "C14": ("pv", "stateful model-based testing of GenericBuilder set/remove/build histories against a reference map; generated JSON trees and native Rust values; proptest",
         "GenericParser must return exactly the model map at every build of every generated history (overwrite, removal, nested, non-ASCII, native-typed incl. f32/f64/128-bit, registered claims incl. XClaim::default(), documents with hundreds of containers, extend_claims), on all 8 protocols.", PV_NOTE + "; serde_json is the oracle's JSON library"),
 "C15": ("pv", "model-based: expectation sets related to the token's claim set by construction, sequences of 1-6 tokens through one parser, iff-oracle incl. error variant; proptest",
         "accept iff every expected claim is present, non-null and JSON-equal; Missing(k) for a single absent claim; outcome independent of parse history (expectations also registered between parses, through check_claim or extend_check_claims); ulp neighbours, same text / other type, respelled timestamps; GenericParser and PasetoParser on all 8 protocols.", PV_NOTE),
 "C16": ("pv", "model-based with instrumented 'static validator functions (thread-local call log) over authentic and unauthenticated tokens, sequences through one parser; proptest",
         "Validators run only for authenticated tokens, see exactly payload[key], run at most once, a rejecting verdict (any of six error variants) fails the parse with a claim error - also when expected claims are registered next to it and for non-object payloads -, success implies every validator ran once; validators registered late, through extend_validation_claims, with XClaim::default(), on exp/nbf of the batteries-included parser.", PV_NOTE),
 "C17": ("pv", "stateful model-based testing of PasetoBuilder call histories: exhaustive to length 4/5 over a 12-operation alphabet + proptest-generated histories to length 40",
         "At every build of every history: a repeated key => DuplicateTopLevelPayloadClaim naming a duplicated key and no token, now and later; no repeat => success with every supplied value; exp-after-acknowledgement latitude honoured; near-keys (case, one character, empty key), more than 32 distinct keys, 300-character keys.", PV_NOTE),
 "C18": ("pv", "exhaustive sweeps (69,905 keys of length <= 4 over a 16-symbol alphabet, 18,278 short lower-case keys, ~91,000 byte-truncation confusables of the reserved keys) x 13 constructor/value-type forms + generated decorated keys and RFC 3339 / non-date strings; every leap day of 0000-9999; proptest",
         "Reserved(k) iff key is exactly one of the seven, for every constructor form and value type; time-claim constructors accept every generated RFC 3339 date-time verbatim and reject the must-reject domain.", PV_NOTE),
 "C19": ("c19-driver", "exhaustive generation of a finite family of programs (metamorphic: known-good template with one type parameter replaced) with an explicit compile/reject oracle table, decided by rustc",
         "All 812 programs of the (operation, token protocol, key protocol) family, wrong-purpose methods, assertion setters/arities and key constructions are generated and type-checked against the working tree; the negative ones (incl. conversions between key types of different protocols, Default, nonce sizes) must be rejected with type-level errors only, the positive templates must compile. Thorough re-checks every negative program in isolation.",
         "decided for the rustc of this image; the table covers the operations named in the statement"),
 "C20": ("c20-driver", "exhaustive enumeration of generated feature configurations with an accept oracle (cargo check/run) and ddmin shrinking",
         "Every configuration of the stated lattice (quick: singletons, pairs, triples at core, full, full-minus-one, default, none x layers; thorough: all 255 x 3) is compiled and, for the run subset, executed with one round trip per enabled protocol and layer plus known answers (from the harness's independent spec transcription) for the four local and the two Ed25519 protocols; monotonicity pairs S<S' compiled. Exhaustive in thorough.",
         "trusts cargo/rustc of the image; the smoke program performs one round trip per protocol and layer and six known-answer comparisons"),
}
ENGINES = [
 {"name": "pv", "path": "harness", "serves_properties": sorted(k for k, v in CLAIMED.items() if v[0] == "pv"), "kind_free_text": "Rust binary: proptest TestRunner (fixed seed, shrinking, no persistence) + deterministic enumeration, explicit oracles per property, all-features build of /repo as a path dependency"},
 {"name": "c19-driver", "path": "cfg/c19.py", "serves_properties": ["C19"], "kind_free_text": "generator of Rust programs + cargo check --keep-going --message-format=json + accept/reject table"},
 {"name": "c20-driver", "path": "cfg/c20.py", "serves_properties": ["C20"], "kind_free_text": "exhaustive generation of cargo feature configurations, cargo check/run of a smoke program, ddmin shrinking"},
]
checks = []
for p in props:
    i = p["id"]
    if i not in CLAIMED:
        continue
    eng, tech, text, note = CLAIMED[i]
    checks.append({
        "property_id": i, "quick_cmd": "./check %s quick" % i, "thorough_cmd": "./check %s thorough" % i,
        "evidence_file": "/verif/evidence/%s.json" % i, "replay_cmd_template": "./check %s --replay {path}" % i, "engine": eng,
        "level_claimed": {"category": "exploration", "text": text, "design_ref": "DESIGN.md §5 %s" % i},
        "level_note": note, "technique": tech})
m = {
 "version": 1,
 "setup_cmd": "./check build || true",
 "hooks": {"guard": "rrrodzilla_rusty_paseto_verif", "enable": "no hooks are needed: every observation point is public API (checks build /repo as a path dependency with all features)",
           "baseline_off_cmd": "cd /repo && cargo test --workspace --no-fail-fast --offline", "source_commits": [], "add_only": True},
 "engines": ENGINES,
 "checks": checks,
 "not_applicable": [{"property_id": p["id"], "reason": "check not built yet (work in progress; see DESIGN.md §6 order of construction)"} for p in props if p["id"] not in CLAIMED],
 "notes": "all 20 properties claimed; DESIGN.md §5-§9 describe checks, sensitivity trials and false alarms",
}
json.dump(m, open(os.path.join(V, "MANIFEST.json"), "w"), indent=1)
print("claimed:", [c["property_id"] for c in checks])
