#!/usr/bin/env bash
# tools/seed_batch.sh C10 C05 ...  : confirm both variants of each finished sub-agent worktree, keep confirmed ones
cd "$(dirname "$0")/.."
for id in "$@"; do
  for v in v1 v2; do
    d=/tmp/wt/$id/SEEDED/$v
    [ -f "$d/patch.diff" ] || { echo "$id/$v: no patch"; continue; }
    python3 tools/seed.py confirm /tmp/wt/$id "$d" > /tmp/wt/$id/SEEDED/$v/confirm.log 2>&1
    ok=$(python3 -c "import json;print(json.load(open('$d/confirmation.json')).get('confirmed'))" 2>/dev/null)
    echo "$id/$v confirmed=$ok"
    if [ "$ok" = "True" ]; then python3 tools/seed.py keep "$d" "$id-${SEED_TAG:-}$v" >/dev/null; fi
  done
done
