/* LD_PRELOAD shim: the process sees a wall clock that was set to PV_CLOCK_SET (seconds since the epoch, optional
 * fraction "S.NNNNNNNNN") at its first reading and runs at normal speed from there. Only CLOCK_REALTIME moves;
 * monotonic clocks (sleep, timeouts) are untouched. Used by the C11/C12/C13 checks to put "now" on calendar
 * boundaries, which no amount of input generation can do.
 * With PV_CLOCK_FREEZE set the wall clock does not run at all: every reading returns exactly PV_CLOCK_SET, so that a
 * claim can be placed on "now" to the nanosecond. */
#define _GNU_SOURCE
#include <dlfcn.h>
#include <stdlib.h>
#include <string.h>
#include <time.h>
#include <sys/time.h>

static int (*real_clock_gettime)(clockid_t, struct timespec *);
static long long offset_ns;
static long long frozen_at = -1;
static int ready;

static void init(void) {
  if (ready) return;
  real_clock_gettime = dlsym(RTLD_NEXT, "clock_gettime");
  const char *e = getenv("PV_CLOCK_SET");
  if (e && real_clock_gettime) {
    char buf[64];
    strncpy(buf, e, sizeof buf - 1);
    buf[sizeof buf - 1] = 0;
    char *dot = strchr(buf, '.');
    long long ns = 0;
    if (dot) {
      *dot = 0;
      char frac[10] = "000000000";
      size_t n = strlen(dot + 1);
      memcpy(frac, dot + 1, n > 9 ? 9 : n);
      ns = atoll(frac);
    }
    long long target = atoll(buf) * 1000000000LL + ns;
    struct timespec now;
    real_clock_gettime(CLOCK_REALTIME, &now);
    offset_ns = target - ((long long)now.tv_sec * 1000000000LL + now.tv_nsec);
    if (getenv("PV_CLOCK_FREEZE")) frozen_at = target;
  }
  ready = 1;
}

int clock_gettime(clockid_t id, struct timespec *ts) {
  init();
  if (!real_clock_gettime) return -1;
  int r = real_clock_gettime(id, ts);
  if (r == 0 && id == CLOCK_REALTIME && frozen_at >= 0) {
    ts->tv_sec = frozen_at / 1000000000LL;
    ts->tv_nsec = frozen_at % 1000000000LL;
    return r;
  }
  if (r == 0 && id == CLOCK_REALTIME && offset_ns != 0) {
    long long t = (long long)ts->tv_sec * 1000000000LL + ts->tv_nsec + offset_ns;
    ts->tv_sec = t / 1000000000LL;
    ts->tv_nsec = t % 1000000000LL;
    if (ts->tv_nsec < 0) { ts->tv_nsec += 1000000000LL; ts->tv_sec -= 1; }
  }
  return r;
}

int gettimeofday(struct timeval *tv, void *tz) {
  (void)tz;
  struct timespec ts;
  if (clock_gettime(CLOCK_REALTIME, &ts) != 0) return -1;
  if (tv) { tv->tv_sec = ts.tv_sec; tv->tv_usec = ts.tv_nsec / 1000; }
  return 0;
}

time_t time(time_t *t) {
  struct timespec ts;
  clock_gettime(CLOCK_REALTIME, &ts);
  if (t) *t = ts.tv_sec;
  return ts.tv_sec;
}
