#!/usr/bin/env python3
"""Summary of an automatic mutation sweep (tools/automut.py): counts by status and operator, first-killing check, survivors."""
import json, sys, collections
rows = [json.loads(l) for l in open(sys.argv[1])]
st = collections.Counter(r["status"] for r in rows)
print("mutants generated: %d  | do not compile: %d | killed by the repository's own tests: %d | reach the checks: %d" % (len(rows), st["does-not-compile"], st["killed-by-existing-tests"], st["killed"] + st["SURVIVED"]))
print("killed by a quick check: %d | survived: %d" % (st["killed"], st["SURVIVED"]))
ops = collections.defaultdict(collections.Counter)
for r in rows:
    ops[r["op"].split(":")[0]][r["status"]] += 1
print("\nby operator (compile-fail / own tests / killed / survived):")
for o, c in sorted(ops.items()):
    print("  %-22s %3d %3d %3d %3d" % (o, c["does-not-compile"], c["killed-by-existing-tests"], c["killed"], c["SURVIVED"]))
k = collections.Counter(r["killed_by"][0] for r in rows if r.get("killed_by"))
print("\nfirst check that reported it (order C01 C02 C08 C05 C06 C03 C14 C13 C15 C16 C11 C12 C17 C18 C04 C07 C09 C10 C19):")
print("  " + ", ".join("%s %d" % kv for kv in sorted(k.items())))
print("\nsurvivors:")
for r in rows:
    if r["status"] == "SURVIVED":
        print("  %s:%d %s | %s => %s" % (r["file"], r["line"], r["op"], r["old"][:70], r["new"][:80]))
