//! C14 – parsed claims equal the claims that were set (GenericBuilder histories against a map model).
use crate::engine::*;
use crate::gen;
use crate::keys;
use crate::proto::*;
use crate::rt::{layer_parse, LayerOut};
use proptest::collection::vec;
use proptest::prelude::*;
use serde::{Deserialize, Serialize};
use serde_json::Value;
use std::collections::BTreeMap;

#[derive(Clone, Debug, Serialize, Deserialize, PartialEq)]
pub enum COp {
  Set(ClaimSpec),
  Remove(String),
  /// `extend_claims` with raw (key, value) entries
  Extend(Vec<(String, Value)>),
  Build,
}

#[derive(Clone, Debug, Serialize, Deserialize)]
pub struct ClaimsCase {
  pub proto: Proto,
  #[serde(with = "gen::hexser")]
  pub seed: Vec<u8>,
  pub ops: Vec<COp>,
  pub footer: Option<String>,
}

pub struct ClaimsRoundTrip {
  pub proto: Proto,
}

fn depth(v: &Value) -> usize {
  match v {
    Value::Array(a) => 1 + a.iter().map(depth).max().unwrap_or(0),
    Value::Object(o) => 1 + o.values().map(depth).max().unwrap_or(0),
    _ => 0,
  }
}

impl Sub for ClaimsRoundTrip {
  type Case = ClaimsCase;
  fn name(&self) -> String {
    format!("C14/{}", self.proto.label())
  }
  fn check(&self, c: &ClaimsCase, cl: &mut Classes) -> Verdict {
    let p = c.proto;
    let km = keys::material(p, &gen::arr32(&c.seed));
    let lk = km.lib().expect("valid key");
    let mut ops = c.ops.clone();
    if !matches!(ops.last(), Some(COp::Build)) {
      ops.push(COp::Build);
    }
    let mut b = new_builder(p, Layer::Generic);
    if let Some(f) = c.footer.as_deref() {
      b.footer(f);
    }
    let mut model: BTreeMap<String, Value> = BTreeMap::new();
    let (mut overwrites, mut removals, mut nested, mut non_ascii, mut native, mut builds) = (0, 0, 0, 0, 0, 0);
    let hist = |upto: usize| -> String { ops[..=upto].iter().map(|o| match o { COp::Set(s) => format!("set({:?}={})", s.key(), s.expected()), COp::Remove(k) => format!("remove({:?})", k), COp::Extend(e) => format!("extend_claims({:?})", e), COp::Build => "build".into() }).collect::<Vec<_>>().join("; ") };
    for (i, op) in ops.iter().enumerate() {
      match op {
        COp::Set(spec) => {
          if spec.key().is_empty() {
            continue; // outside the domain (keys are non-empty)
          }
          if b.set(spec).is_ok() {
            let v = spec.expected();
            if model.insert(spec.key().to_string(), v.clone()).is_some() {
              overwrites += 1;
            }
            if depth(&v) >= 1 {
              nested += 1;
            }
            if !spec.key().is_ascii() || !v.to_string().is_ascii() {
              non_ascii += 1;
            }
            if matches!(spec, ClaimSpec::Native(..)) {
              native += 1;
            }
          }
        }
        COp::Remove(k) => {
          b.remove(k);
          if model.remove(k).is_some() {
            removals += 1;
          }
        }
        COp::Extend(entries) => {
          let entries: Vec<(String, Value)> = entries.iter().filter(|(k, _)| !k.is_empty()).cloned().collect();
          if b.extend(&entries) {
            for (k, v) in entries {
              if model.insert(k, v.clone()).is_some() {
                overwrites += 1;
              }
              if depth(&v) >= 1 {
                nested += 1;
              }
            }
            cl.tag("has:extend_claims");
          }
        }
        COp::Build => {
          builds += 1;
          let nth = if builds == 1 { "first" } else { "repeated" };
          let token = match b.build(&lk) {
            Ok(t) => t,
            Err(e) => vio!("C14:build-failed:{}:{}", p.label(), e.variant; "build failed: {} — history {}", e.text, hist(i)),
          };
          let got = match layer_parse(p, Layer::Generic, &lk, &token, c.footer.as_deref(), None) {
            Ok(LayerOut::Json(v)) => v,
            Ok(_) => unreachable!(),
            Err(e) => vio!("C14:parse-failed:{}:{}", p.label(), e.variant; "parser rejected the builder's token: {} — history {}", e.text, hist(i)),
          };
          let want = Value::Object(model.iter().map(|(k, v)| (k.clone(), v.clone())).collect());
          if got != want {
            // classify the difference
            let g = got.as_object().cloned().unwrap_or_default();
            let what = if let Some(k) = model.keys().find(|k| !g.contains_key(*k)) {
              format!("missing-member ({k:?})")
            } else if let Some(k) = g.keys().find(|k| !model.contains_key(*k)) {
              format!("extra-member ({k:?})")
            } else {
              let k = model.iter().find(|(k, v)| g.get(*k) != Some(v)).map(|(k, _)| k.clone()).unwrap_or_default();
              format!("value-differs ({k:?})")
            };
            let kind = what.split(' ').next().unwrap_or("differs").to_string();
            vio!("C14:{}:{}-build", kind, nth; "{}: parser returned {} but the claims set were {} — history {}", what, got, want, hist(i));
          }
          // "a parser": the same must come back from a parser that is configured - accepting validators for claims the
          // token does and does not carry, and (when the claims leave exp / nbf alone) the batteries-included default parser
          if builds % 2 == 1 {
            let accept: &'static rusty_paseto::prelude::ValidatorFn = &|_, _| Ok(());
            let absent_specs = [ClaimSpec::Custom("claim-the-token-lacks".into(), Value::Null), ClaimSpec::Iss("x".into()), ClaimSpec::Any("tenant".into(), Value::Null)];
            let mut gp = crate::proto::new_parser(p, Layer::Generic);
            if let Some(f) = c.footer.as_deref() {
              gp.footer(f);
            }
            for sp in &absent_specs {
              let _ = gp.validate(sp, accept);
            }
            if let Ok(v) = gp.parse(&token, &lk) {
              if v != want {
                let extra: Vec<&String> = v.as_object().map(|o| o.keys().filter(|k| !model.contains_key(*k)).collect()).unwrap_or_default();
                vio!("C14:configured-parser-returns-other-json:generic"; "a GenericParser with accepting validators (for claims present and absent) returned {} (members never set: {:?}) but the claims set were {} — history {}", v, extra, want, hist(i));
              }
              cl.tag("also-read-through-a-parser-with-validators");
            }
            if !model.contains_key("exp") && !model.contains_key("nbf") {
              let mut pp = crate::proto::new_parser(p, Layer::Prelude);
              if let Some(f) = c.footer.as_deref() {
                pp.footer(f);
              }
              match pp.parse(&token, &lk) {
                Ok(v) if v != want => {
                  let extra: Vec<&String> = v.as_object().map(|o| o.keys().filter(|k| !model.contains_key(*k)).collect()).unwrap_or_default();
                  vio!("C14:configured-parser-returns-other-json:prelude"; "PasetoParser::default() returned {} (members never set: {:?}) but the claims set were {} — history {}", v, extra, want, hist(i));
                }
                Ok(_) => cl.tag("also-read-through-the-default-parser"),
                Err(e) => vio!("C14:parse-failed:{}:prelude:{}", p.label(), e.variant; "the default parser rejected a token without exp / nbf: {} — history {}", e.text, hist(i)),
              }
            }
          }
        }
      }
    }
    cl.tag(format!("{}", p.label()));
    cl.tag(format!("ops={}", c.ops.len().min(12)));
    if overwrites > 0 { cl.tag("has:overwrite"); }
    if removals > 0 { cl.tag("has:removal-of-existing"); }
    if nested > 0 { cl.tag("has:nested"); }
    if non_ascii > 0 { cl.tag("has:non-ascii"); }
    if native > 0 { cl.tag("has:native-rust-value"); }
    if builds > 1 { cl.tag("has:repeated-build"); }
    cl.nontrivial(c.ops.len() >= 2 && (overwrites + removals + nested + non_ascii > 0));
    Verdict::Pass
  }
}

const POOL: [&str; 10] = ["a", "b", "data", "k", "é", "ключ", "a.b", "with space", "\u{1F511}", "quote\"key"];

fn key() -> BoxedStrategy<String> {
  prop_oneof![5 => any::<u16>().prop_map(|i| POOL[pick(i, POOL.len())].to_string()), 2 => gen::json_key(), 1 => Just("\0".to_string()), 1 => Just("iss".to_string()), 1 => Just("exp".to_string())].boxed()
}

/// decimal text with `digits` significant digits at most, magnitude 1e-4 .. 1e7, either sign
fn decimal(digits: u32) -> BoxedStrategy<String> {
  (1u64..10u64.pow(digits), 0u32..=digits + 3, any::<bool>()).prop_map(move |(m, scale, neg)| {
    let text = m.to_string();
    let s = if scale as usize >= text.len() { format!("0.{}{}", "0".repeat(scale as usize - text.len()), text) } else if scale == 0 { format!("{text}.0") } else { format!("{}.{}", &text[..text.len() - scale as usize], &text[text.len() - scale as usize..]) };
    if neg { format!("-{s}") } else { s }
  }).boxed()
}

fn native() -> BoxedStrategy<NativeVal> {
  let floats = prop_oneof![
    3 => decimal(6).prop_map(NativeVal::F32),
    1 => prop_oneof![Just("1.1"), Just("3.14"), Just("0.1"), Just("0.3"), Just("16777216.0"), Just("0.5"), Just("-2.7")].prop_map(|s| NativeVal::F32(s.to_string())),
    2 => decimal(15).prop_map(NativeVal::F64),
    2 => vec(decimal(6), 0..5).prop_map(NativeVal::VecF32),
    2 => (decimal(6), vec(decimal(5), 0..4), decimal(15)).prop_map(|(ratio, weights, scale)| NativeVal::Measure { ratio, weights, scale }),
    1 => any::<i64>().prop_map(NativeVal::I128),
    1 => any::<u64>().prop_map(NativeVal::U128),
  ];
  let leaf = prop_oneof![
    floats,
    floats_again(),
    any::<i8>().prop_map(NativeVal::I8),
    any::<i16>().prop_map(NativeVal::I16),
    any::<i32>().prop_map(NativeVal::I32),
    any::<i64>().prop_map(NativeVal::I64),
    any::<u8>().prop_map(NativeVal::U8),
    any::<u16>().prop_map(NativeVal::U16),
    any::<u32>().prop_map(NativeVal::U32),
    any::<u64>().prop_map(NativeVal::U64),
    any::<bool>().prop_map(NativeVal::Bool),
    gen::short_text().prop_map(|t| NativeVal::Str(t.render())),
    any::<char>().prop_map(NativeVal::Char),
    Just(NativeVal::Unit),
    any::<i64>().prop_map(NativeVal::OptSome),
    Just(NativeVal::OptNone),
    vec(any::<i32>(), 0..6).prop_map(NativeVal::VecI),
    vec(gen::unicode(5), 0..4).prop_map(NativeVal::VecS),
    (any::<i32>(), gen::unicode(6), any::<bool>()).prop_map(|(a, b, c)| NativeVal::Tuple(a, b, c)),
    vec((gen::json_key(), any::<i64>()), 0..4).prop_map(|kv| NativeVal::Map(kv.into_iter().collect())),
    any::<u8>().prop_map(NativeVal::UnitEnum),
    gen::unicode(6).prop_map(NativeVal::NewtypeEnum),
    (any::<i16>(), any::<i16>()).prop_map(|(x, y)| NativeVal::StructEnum { x, y }),
  ];
  leaf
    .prop_recursive(2, 8, 1, |inner| {
      (any::<u32>(), gen::unicode(6), vec(any::<bool>(), 0..4), proptest::option::of(inner)).prop_map(|(id, name, flags, nested)| NativeVal::Struct { id, name, flags, nested: nested.map(Box::new) })
    })
    .boxed()
}

fn floats_again() -> BoxedStrategy<NativeVal> {
  // second entry so that floating-point natives make up about a tenth of the native leaves
  prop_oneof![decimal(6).prop_map(NativeVal::F32), (decimal(6), vec(decimal(5), 0..4), decimal(15)).prop_map(|(ratio, weights, scale)| NativeVal::Measure { ratio, weights, scale })].boxed()
}

fn claim(depth: u32) -> BoxedStrategy<ClaimSpec> {
  prop_oneof![
    6 => (key(), gen::json_value(depth)).prop_map(|(k, v)| ClaimSpec::Custom(k, v)),
    1 => (key(), gen::json_doc_value()).prop_map(|(k, v)| ClaimSpec::Custom(k, v)),
    1 => (key(), gen::text()).prop_map(|(k, t)| ClaimSpec::Custom(k, Value::String(t.render()))),
    // the value is itself an object whose only (or first) member carries the claim's own key
    2 => (key(), gen::json_value(2), 0u8..4).prop_map(|(k, v, shape)| {
      let inner = match shape {
        0 => serde_json::json!({ k.clone(): v }),
        1 => serde_json::json!({ k.clone(): { k.clone(): v } }),
        2 => serde_json::json!({ k.clone(): v, "other": 1 }),
        _ => serde_json::json!([{ k.clone(): v }]),
      };
      if shape % 2 == 0 { ClaimSpec::Custom(k, inner) } else { ClaimSpec::Any(k, inner) }
    }),
    // whatever string a time-claim constructor accepts must come back verbatim (iso8601 ignores what follows the date-time)
    2 => (0u8..3, 0u8..8).prop_map(|(which, deco)| {
      let t = format!("2039-01-01T00:00:00+00:00{}", ["", "\n", " ", "\t", "\r\n", " trailing", "Z", "\u{a0}"][deco as usize]);
      match which { 0 => ClaimSpec::Exp(t), 1 => ClaimSpec::NbfOwned(t), _ => ClaimSpec::Iat(t) }
    }),
    1 => (gen::boundary(gen::BOUNDARY_LENS.len()), gen::json_leaf()).prop_filter("non-empty key", |(t, _)| !t.render().is_empty()).prop_map(|(t, v)| ClaimSpec::CustomOwned(t.render(), v)),
    3 => (key(), gen::json_value(depth)).prop_map(|(k, v)| ClaimSpec::CustomOwned(k, v)),
    1 => key().prop_map(ClaimSpec::CustomKeyOnly),
    4 => (key(), native()).prop_map(|(k, v)| ClaimSpec::Native(k, v)),
    2 => (key(), gen::json_value(depth)).prop_map(|(k, v)| ClaimSpec::Any(k, v)),
    1 => gen::short_text().prop_map(|t| ClaimSpec::Iss(t.render())),
    1 => (0u8..7).prop_map(ClaimSpec::DefaultOf),
    1 => (key(), 0u64..1_000_000).prop_map(|(k, n)| ClaimSpec::SharedCounter(k, n)),
    // a caller-defined claim type whose serialised form is an object with several members (one of them perhaps named like
    // the claim itself), a member under another name, no member, or no object at all: the whole serialised value is the claim
    2 => (key(), gen::json_value(2), gen::json_leaf(), 0u8..6).prop_map(|(k, v, w, shape)| {
      let value = match shape {
        0 => serde_json::json!({ k.clone(): v, "level": w, "scopes": ["read", "write"] }),
        1 => serde_json::json!({ "member-under-another-name": v }),
        2 => serde_json::json!({}),
        3 => serde_json::json!({ k.clone(): v }),
        4 => v,
        _ => serde_json::json!({ "a": v, "b": w }),
      };
      ClaimSpec::Shaped(k, value)
    }),
    1 => gen::short_text().prop_map(|t| ClaimSpec::Sub(t.render())),
    1 => gen::short_text().prop_map(|t| ClaimSpec::Aud(t.render())),
    1 => gen::short_text().prop_map(|t| ClaimSpec::Jti(t.render())),
    1 => Just(ClaimSpec::Exp("2999-01-01T00:00:00+00:00".into())),
    1 => Just(ClaimSpec::NbfOwned("2001-01-01T00:00:00.5Z".into())),
    1 => Just(ClaimSpec::Iat("2001-01-01T00:00:00-07:00".into())),
    1 => gen::jsonish(6).prop_map(ClaimSpec::Iat),
  ]
  .boxed()
}

fn case(proto: Proto, max_ops: usize, depth: u32) -> BoxedStrategy<ClaimsCase> {
  // occasionally a deep chain of nested single-member objects / arrays (serde_json's recursion limit is 128)
  let deep = (1usize..40, any::<bool>(), gen::json_leaf()).prop_map(|(d, arr, leaf)| {
    let mut v = leaf;
    for i in 0..d {
      v = if arr ^ (i % 3 == 0) { Value::Array(vec![v]) } else { serde_json::json!({ "n": v }) };
    }
    v
  });
  let op = prop_oneof![
    8 => claim(depth).prop_map(COp::Set),
    1 => (key(), deep).prop_map(|(k, v)| COp::Set(ClaimSpec::Custom(k, v))),
    3 => key().prop_map(COp::Remove),
    1 => vec((key(), gen::json_value(2)), 0..4).prop_map(COp::Extend),
    1 => Just(COp::Build)
  ];
  (gen::bytes32(), vec(op, 0..=max_ops), prop_oneof![Just(None), gen::jsonish(8).prop_map(Some)]).prop_map(move |(seed, ops, footer)| ClaimsCase { proto, seed, ops, footer }).boxed()
}

fn all_subs() -> Vec<ClaimsRoundTrip> {
  Proto::ALL.iter().map(|p| ClaimsRoundTrip { proto: *p }).collect()
}

pub fn subs() -> Vec<Box<dyn DynSub>> {
  all_subs().into_iter().map(|s| Box::new(s) as Box<dyn DynSub>).collect()
}

pub fn run(ctx: &Ctx) -> EvidenceMeta {
  let subs = all_subs();
  let mut jobs: Vec<Job> = vec![];
  let (max_ops, depth) = if ctx.quick() { (12, 4) } else { (40, 5) };
  for s in &subs {
    let n = match s.proto {
      Proto::V4L | Proto::V2L => ctx.n(15_000, 150_000),
      p if p.is_local() => ctx.n(5000, 50_000),
      Proto::V2P | Proto::V4P => ctx.n(3000, 30_000),
      Proto::V1P => ctx.n(800, 8000),
      _ => ctx.n(200, 2000),
    };
    jobs.push(Box::new(move || ctx.prop(s, case(s.proto, max_ops, depth), n)));
  }
  run_jobs(jobs);
  EvidenceMeta {
    rule: format!("histories of set_claim / remove_claim / build on GenericBuilder (every protocol, cheap ones weighted): keys from a small pool (to force overwrites and removals) or generated non-empty Unicode (escapes, non-BMP, NUL); \
           values = JSON trees to depth {depth} (strings with any Unicode, full-range integers, booleans, null, floats with an exact short decimal form), native Rust values through Serialize (integers of every width, Option, Vec, tuples, maps, nested structs, enums), \
           the seven registered claims through their typed constructors, reserved keys through a caller-defined PasetoClaim. Up to {max_ops} operations. \
           Oracle: reference model map (insert = last wins, remove); GenericParser::parse must return exactly the model as a JSON object at every build of the history - every key, JSON-equal value, no extra member. \
           Non-trivial = at least 2 operations and an overwrite, a removal of an existing key, a nested or a non-ASCII element; distinct by history."),
    assumptions: vec!["serde_json serves as the JSON library of the oracle; floats are restricted to the domain on which its default parser is exact".into()],
  }
}
