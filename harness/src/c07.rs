//! C07 – tokens are bound to their version and purpose (no algorithm confusion).
use crate::engine::*;
use crate::gen;
use crate::keys;
use crate::proto::*;
use crate::rt::{layer_build, layer_parse};
use proptest::collection::vec;
use proptest::prelude::*;
use serde::{Deserialize, Serialize};

#[derive(Clone, Debug, Serialize, Deserialize)]
pub struct CrossCase {
  pub x: Proto,
  pub y: Proto,
  pub layer: Layer,
  /// 0 verbatim, 1 header rewritten to Y's, 2 rewritten and re-framed to Y's minimum payload length,
  /// 3 rewritten and the fixed parts re-laid out (nonce/trailer lengths of Y)
  pub presentation: u8,
  #[serde(with = "gen::hexser")]
  pub seed: Vec<u8>,
  #[serde(with = "gen::hexser")]
  pub nonce: Vec<u8>,
  pub msg: String,
  pub footer: Option<String>,
  pub assertion: Option<String>,
  /// how many times X's own entry points (all three layers) accept the token before it is shown to Y
  /// (anything remembered about an accepted token must not leak across protocols)
  #[serde(default)]
  pub warmups: u8,
}

/// Key universe from one seed: the Ed25519 public key doubles as the symmetric key of every local protocol,
/// one Ed25519 pair serves v2.public and v4.public.
fn universe(p: Proto, seed: &[u8; 32]) -> KeyMaterial {
  let (ed_sk, ed_pk) = keys::ed_from_seed(seed);
  match p {
    q if q.is_local() => KeyMaterial::local(q, &ed_pk),
    Proto::V2P | Proto::V4P => KeyMaterial::new(p, Some(&ed_sk), &ed_pk).unwrap(),
    _ => keys::material(p, seed),
  }
}

pub struct Cross {
  pub x: Proto,
  pub y: Proto,
}

impl Sub for Cross {
  type Case = CrossCase;
  fn name(&self) -> String {
    format!("C07/{}->{}", self.x.label(), self.y.label())
  }
  fn check(&self, c: &CrossCase, cl: &mut Classes) -> Verdict {
    let (x, y) = (c.x, c.y);
    if x == y {
      return Verdict::Discard;
    }
    let seed = gen::arr32(&c.seed);
    let kx = universe(x, &seed);
    let lx = kx.lib().expect("valid key");
    let ax = if x.has_assertion() { c.assertion.as_deref() } else { None };
    let nonce: Vec<u8> = if x == Proto::V2L { c.nonce[..24].to_vec() } else { c.nonce.clone() };
    // the token of X is built at the core layer when it must carry an arbitrary message for Y's builder layers
    let t = match layer_build(x, c.layer, &lx, &nonce, &c.msg, c.footer.as_deref(), ax) {
      Ok(t) => t,
      Err(_) => return Verdict::Discard,
    };
    for _ in 0..c.warmups.min(4) {
      for layer in Layer::ALL {
        let _ = layer_parse(x, layer, &lx, &t, c.footer.as_deref(), ax);
      }
    }
    if c.warmups > 0 {
      cl.tag(format!("warmups={}", c.warmups.min(4)));
    }
    if c.warmups == 3 {
      // Y's parsers have been through an application whose callbacks panic
      let ky = universe(y, &seed);
      if let Ok(ly) = ky.lib() {
        let _ = callbacks_misbehave(y, &ly, 7);
        cl.tag("after-callbacks-that-panic");
      }
    }
    if c.msg.len() >= 65536 {
      cl.tag("message>=64KiB");
    }
    let (_, pseg, fseg) = split_token(&t).expect("well-formed");
    let payload = unb64(&pseg).expect("payload");
    let presented = match c.presentation % 6 {
      4 | 5 => {
        // the other direction: an authentic token OF Y whose header text names X (4) or an invented protocol (5),
        // presented to Y - "a token whose header names X is rejected by every entry point of any other protocol"
        let ky = universe(y, &seed);
        let ly = ky.lib().expect("valid key");
        let ay = if y.has_assertion() { c.assertion.as_deref() } else { None };
        let ny: Vec<u8> = if y == Proto::V2L { c.nonce[..24].to_vec() } else { c.nonce.clone() };
        let ty = match layer_build(y, c.layer, &ly, &ny, &c.msg, c.footer.as_deref(), ay) {
          Ok(t) => t,
          Err(_) => return Verdict::Discard,
        };
        let (_, ps, fs) = split_token(&ty).expect("well-formed");
        let body = unb64(&ps).expect("payload");
        if c.presentation % 6 == 4 {
          join_token(x.header(), &body, fs.as_deref())
        } else {
          // same purpose and an unknown version, or same version and a misspelt purpose
          let h = y.header();
          let invented = match c.warmups % 4 {
            0 => h.replacen(&h[1..2], "9", 1),
            1 => h.replacen(&h[1..2], "0", 1),
            2 => h.replacen("local", "locaI", 1).replacen("public", "pubIic", 1),
            _ => h.to_uppercase(),
          };
          join_token(&invented, &body, fs.as_deref())
        }
      }
      0 => t.clone(),
      1 => join_token(y.header(), &payload, fseg.as_deref()),
      2 => {
        let mut b = payload.clone();
        while b.len() < y.fixed_len() + 1 {
          b.push(0x41);
        }
        join_token(y.header(), &b, fseg.as_deref())
      }
      _ => {
        // keep X's message/ciphertext bytes, give the fixed parts Y's lengths
        let body = if payload.len() >= x.fixed_len() { payload[x.nonce_len()..payload.len() - x.trailer_len()].to_vec() } else { vec![] };
        let mut b = vec![];
        b.extend(payload.iter().cycle().take(y.nonce_len()).cloned());
        b.extend_from_slice(&body);
        b.extend(payload.iter().rev().cycle().take(y.trailer_len()).cloned());
        join_token(y.header(), &b, fseg.as_deref())
      }
    };
    cl.tag(format!("{}->{}", x.label(), y.label()));
    cl.tag(format!("presentation:{}", ["verbatim", "relabelled", "relabelled+padded", "relabelled+re-laid-out", "token-of-Y-named-X", "token-of-Y-with-invented-header"][(c.presentation % 6) as usize]));
    cl.tag(format!("layer:{}", c.layer.label()));
    cl.nontrivial(true);
    let ky = universe(y, &seed);
    let ly = ky.lib().expect("valid key");
    let ay = if y.has_assertion() { c.assertion.as_deref() } else { None };
    // a parser of Y that has been through a panicking application validator (contained) must still REFUSE, not unwind
    if c.warmups == 3 {
      let role = ClaimSpec::Custom("no-such-claim".into(), serde_json::Value::Null);
      let own_nonce: Vec<u8> = if y == Proto::V2L { c.nonce[..24].to_vec() } else { c.nonce.clone() };
      if let Ok(own) = layer_build(y, Layer::Core, &ly, &own_nonce, "{\"data\":\"own\"}", c.footer.as_deref(), ay) {
        for layer in [Layer::Generic, Layer::Prelude] {
          let outcome = crate::engine::catch(|| {
            let mut parser = new_parser(y, layer);
            if let Some(f) = c.footer.as_deref() {
              parser.footer(f);
            }
            if let Some(a) = ay {
              parser.assertion(a);
            }
            let _ = parser.validate(&role, VALIDATOR_PANICS_TEXT);
            let first = crate::engine::catch(|| parser.parse(&own, &ly).is_ok());
            (first.is_err(), parser.parse(&presented, &ly).map(|v| v.to_string()))
          });
          match outcome {
            Ok((_, Err(e))) => cl.tag(format!("rejected-after-validator-panic:{}", e.variant)),
            Ok((_, Ok(v))) => vio!("C07:accepted:{}->{}:{}", x.label(), y.label(), layer.label(); "{} {} parser (after a contained validator panic) accepted a {} token: {}", y.label(), layer.label(), x.label(), v),
            Err((loc, msg)) if !loc.starts_with("harness:") => vio!("C07:unwound-instead-of-refusing:{}", layer.label(); "after a contained validator panic the {} {} parser did not refuse the {} token but panicked at {}: {}", y.label(), layer.label(), x.label(), loc, msg),
            Err(_) => {}
          }
        }
      }
    }
    // every layer of Y must refuse it
    for layer in Layer::ALL {
      match layer_parse(y, layer, &ly, &presented, c.footer.as_deref(), ay) {
        Err(e) => cl.tag(format!("rejected:{}", e.variant)),
        Ok(o) => vio!("C07:accepted:{}->{}:{}", x.label(), y.label(), layer.label();
          "{} {} entry point accepted a {} token (presentation {}): returned {:?}; presented {}", y.label(), layer.label(), x.label(), c.presentation % 6, o.message(), presented),
      }
    }
    Verdict::Pass
  }
}

// ---------------------------------------------------------------- libFuzzer support

const FUZZ_SEED: [u8; 32] = [0x5a; 32];
const FUZZ_MSGS: [&str; 2] = ["{\"data\":\"cross-0\",\"exp\":\"2999-01-01T00:00:00Z\"}", "{\"data\":\"cross-1\",\"exp\":\"2999-01-01T00:00:00Z\"}"];

#[derive(Clone, Debug, Serialize, Deserialize)]
pub struct CrossFuzzCase {
  pub y: Proto,
  pub footer: Option<String>,
  pub text: String,
}

pub fn fuzz_decode(data: &[u8]) -> Option<CrossFuzzCase> {
  let (sel, rest) = data.split_first()?;
  Some(CrossFuzzCase { y: Proto::ALL[(sel & 7) as usize], footer: if sel & 8 != 0 { Some("kid".into()) } else { None }, text: std::str::from_utf8(rest).ok()?.to_string() })
}

/// every authentic token of the fuzz universe, labelled with the protocol it belongs to
fn fuzz_pool() -> Vec<(Proto, Option<&'static str>, String)> {
  let mut v = vec![];
  for p in Proto::ALL {
    let k = universe(p, &FUZZ_SEED);
    let lk = k.lib().expect("valid key");
    for (i, m) in FUZZ_MSGS.iter().enumerate() {
      let footer = if i == 1 { Some("kid") } else { None };
      if let Ok(t) = core_build(&lk, &[9u8; 32][..if p == Proto::V2L { 24 } else { 32 }], m, footer, None) {
        v.push((p, footer, t));
      }
    }
  }
  v
}

/// seeds: every token of protocol X presented to every other protocol Y, verbatim and relabelled
pub fn fuzz_seeds() -> Vec<Vec<u8>> {
  let mut out = vec![];
  for (x, footer, t) in fuzz_pool() {
    for (yi, y) in Proto::ALL.iter().enumerate() {
      if *y == x {
        continue;
      }
      let sel = (yi as u8) | if footer.is_some() { 8 } else { 0 };
      let mut a = vec![sel];
      a.extend_from_slice(t.as_bytes());
      out.push(a);
      let (_, pseg, fseg) = split_token(&t).unwrap();
      let mut b = vec![sel];
      b.extend_from_slice(match fseg { Some(f) => format!("{}{}.{}", y.header(), pseg, f), None => format!("{}{}", y.header(), pseg) }.as_bytes());
      out.push(b);
    }
  }
  out
}

pub struct CrossFuzz;
impl Sub for CrossFuzz {
  type Case = CrossFuzzCase;
  fn name(&self) -> String {
    "C07/libfuzzer".into()
  }
  fn check(&self, c: &CrossFuzzCase, cl: &mut Classes) -> Verdict {
    let y = c.y;
    let ky = universe(y, &FUZZ_SEED);
    let ly = ky.lib().expect("valid key");
    cl.tag(format!("->{}", y.label()));
    cl.nontrivial(c.text.starts_with(y.header()));
    for layer in Layer::ALL {
      if let Ok(o) = layer_parse(y, layer, &ly, &c.text, c.footer.as_deref(), None) {
        // acceptable only for content that was genuinely produced for Y in this universe
        let m = match &o {
          crate::rt::LayerOut::Text(t) => Some(t.clone()),
          crate::rt::LayerOut::Json(v) => Some(v.to_string()),
        };
        let genuine = FUZZ_MSGS.iter().any(|g| Some(g.to_string()) == m || serde_json::from_str::<serde_json::Value>(g).ok().map(|v| v.to_string()) == m);
        if !genuine {
          vio!("C07:fuzz-accepted:{}:{}", y.label(), layer.label(); "{} {} accepted {:?} and returned {:?}, which was never produced for that protocol", y.label(), layer.label(), c.text, m);
        }
      }
    }
    Verdict::Pass
  }
}

pub fn fuzz_one(data: &[u8]) -> Option<(String, String)> {
  let c = fuzz_decode(data)?;
  let mut cl = Classes::default();
  match CrossFuzz.check(&c, &mut cl) {
    Verdict::Violation { sig, detail } => Some((sig, detail)),
    _ => None,
  }
}

fn case(x: Proto, y: Proto) -> BoxedStrategy<CrossCase> {
  (
    any::<u16>(),
    0u8..6,
    gen::bytes32(),
    vec(any::<u8>(), 32),
    prop_oneof![12 => gen::jsonish(40), 1 => Just(format!("{{\"data\":\"{}\"}}", "x".repeat(70_000)))],
    prop_oneof![Just(None), gen::jsonish(12).prop_map(Some)],
    prop_oneof![Just(None), gen::jsonish(12).prop_map(Some)],
    prop_oneof![2 => Just(0u8), 1 => 1u8..=3],
  )
    .prop_map(move |(l, presentation, seed, nonce, msg, footer, assertion, warmups)| CrossCase { x, y, layer: Layer::ALL[pick(l, 3)], presentation, seed, nonce, msg, footer, assertion, warmups })
    .boxed()
}

fn all_subs() -> Vec<Cross> {
  let mut v = vec![];
  for x in Proto::ALL {
    for y in Proto::ALL {
      if x != y {
        v.push(Cross { x, y });
      }
    }
  }
  v
}

pub fn subs() -> Vec<Box<dyn DynSub>> {
  let mut v: Vec<Box<dyn DynSub>> = all_subs().into_iter().map(|s| Box::new(s) as Box<dyn DynSub>).collect();
  v.push(Box::new(CrossFuzz));
  v
}

pub fn run(ctx: &Ctx) -> EvidenceMeta {
  let subs = all_subs();
  let mut jobs: Vec<Job> = vec![];
  jobs.push(Box::new(move || ctx.fuzz_inputs(&CrossFuzz, "fz_cross", fuzz_decode)));
  for s in &subs {
    // fixed part: every presentation x build layer once, deterministically
    jobs.push(Box::new(move || {
      let mut cases = vec![];
      for presentation in 0..6u8 {
        for layer in Layer::ALL {
          for (i, footer) in [None, Some("{\"kid\":\"k\"}".to_string())].into_iter().enumerate() {
            cases.push(CrossCase {
              x: s.x,
              y: s.y,
              layer,
              presentation,
              seed: (0..32).map(|j| (j as u8).wrapping_mul(19).wrapping_add(3 + i as u8)).collect(),
              nonce: (0..32).map(|j| (j as u8).wrapping_mul(7).wrapping_add(1)).collect(),
              msg: "{\"data\":\"cross\"}".into(),
              footer,
              assertion: if i == 1 { Some("ctx".into()) } else { None },
              warmups: (presentation + i as u8) % 4,
            });
          }
        }
      }
      ctx.enumerate(s, cases.into_iter(), true);
    }));
    let cost = s.x.cost().max(s.y.cost()).min(20);
    let n = (ctx.n(2000, 30_000) / cost).max(60);
    jobs.push(Box::new(move || ctx.prop(s, case(s.x, s.y), n)));
  }
  run_jobs(jobs);
  EvidenceMeta {
    rule: "all 56 ordered pairs (X, Y), X != Y (exhaustive over pairs x 6 presentations (X's token verbatim / relabelled to Y / padded / re-laid-out; Y's own token relabelled to X or to an invented header) x 3 build layers x {no footer, footer+assertion}, plus generated messages/keys/footers): a token of X - built with key material reused wherever both sides take the same bytes \
           (one 32-byte string is the symmetric key of every local protocol and the Ed25519 public key; one Ed25519 pair for v2.public and v4.public) - is presented to every entry point (core, generic, batteries-included) of Y \
           verbatim, with its header rewritten to Y's, rewritten and padded to Y's minimum payload length, and rewritten with nonce/trailer re-laid out to Y's lengths. Oracle: Y returns Err (never Ok, never a panic). \
           Non-trivial = every case; distinct by case."
      .into(),
    assumptions: vec![],
  }
}
