//! C07 – tokens are bound to their version and purpose (no algorithm confusion).
use crate::engine::*;
use crate::gen;
use crate::keys;
use crate::proto::*;
use crate::rt::{layer_build, layer_parse};
use proptest::collection::vec;
use proptest::prelude::*;
use serde::{Deserialize, Serialize};

#[derive(Clone, Debug, Serialize, Deserialize)]
pub struct CrossCase {
  pub x: Proto,
  pub y: Proto,
  pub layer: Layer,
  /// 0 verbatim, 1 header rewritten to Y's, 2 rewritten and re-framed to Y's minimum payload length,
  /// 3 rewritten and the fixed parts re-laid out (nonce/trailer lengths of Y)
  pub presentation: u8,
  #[serde(with = "gen::hexser")]
  pub seed: Vec<u8>,
  #[serde(with = "gen::hexser")]
  pub nonce: Vec<u8>,
  pub msg: String,
  pub footer: Option<String>,
  pub assertion: Option<String>,
}

/// Key universe from one seed: the Ed25519 public key doubles as the symmetric key of every local protocol,
/// one Ed25519 pair serves v2.public and v4.public.
fn universe(p: Proto, seed: &[u8; 32]) -> KeyMaterial {
  let (ed_sk, ed_pk) = keys::ed_from_seed(seed);
  match p {
    q if q.is_local() => KeyMaterial::local(q, &ed_pk),
    Proto::V2P | Proto::V4P => KeyMaterial::new(p, Some(&ed_sk), &ed_pk).unwrap(),
    _ => keys::material(p, seed),
  }
}

pub struct Cross {
  pub x: Proto,
  pub y: Proto,
}

impl Sub for Cross {
  type Case = CrossCase;
  fn name(&self) -> String {
    format!("C07/{}->{}", self.x.label(), self.y.label())
  }
  fn check(&self, c: &CrossCase, cl: &mut Classes) -> Verdict {
    let (x, y) = (c.x, c.y);
    if x == y {
      return Verdict::Discard;
    }
    let seed = gen::arr32(&c.seed);
    let kx = universe(x, &seed);
    let lx = kx.lib().expect("valid key");
    let ax = if x.has_assertion() { c.assertion.as_deref() } else { None };
    let nonce: Vec<u8> = if x == Proto::V2L { c.nonce[..24].to_vec() } else { c.nonce.clone() };
    // the token of X is built at the core layer when it must carry an arbitrary message for Y's builder layers
    let t = match layer_build(x, c.layer, &lx, &nonce, &c.msg, c.footer.as_deref(), ax) {
      Ok(t) => t,
      Err(_) => return Verdict::Discard,
    };
    let (_, pseg, fseg) = split_token(&t).expect("well-formed");
    let payload = unb64(&pseg).expect("payload");
    let presented = match c.presentation % 4 {
      0 => t.clone(),
      1 => join_token(y.header(), &payload, fseg.as_deref()),
      2 => {
        let mut b = payload.clone();
        while b.len() < y.fixed_len() + 1 {
          b.push(0x41);
        }
        join_token(y.header(), &b, fseg.as_deref())
      }
      _ => {
        // keep X's message/ciphertext bytes, give the fixed parts Y's lengths
        let body = if payload.len() >= x.fixed_len() { payload[x.nonce_len()..payload.len() - x.trailer_len()].to_vec() } else { vec![] };
        let mut b = vec![];
        b.extend(payload.iter().cycle().take(y.nonce_len()).cloned());
        b.extend_from_slice(&body);
        b.extend(payload.iter().rev().cycle().take(y.trailer_len()).cloned());
        join_token(y.header(), &b, fseg.as_deref())
      }
    };
    cl.tag(format!("{}->{}", x.label(), y.label()));
    cl.tag(format!("presentation:{}", ["verbatim", "relabelled", "relabelled+padded", "relabelled+re-laid-out"][(c.presentation % 4) as usize]));
    cl.tag(format!("layer:{}", c.layer.label()));
    cl.nontrivial(true);
    let ky = universe(y, &seed);
    let ly = ky.lib().expect("valid key");
    let ay = if y.has_assertion() { c.assertion.as_deref() } else { None };
    // every layer of Y must refuse it
    for layer in Layer::ALL {
      match layer_parse(y, layer, &ly, &presented, c.footer.as_deref(), ay) {
        Err(e) => cl.tag(format!("rejected:{}", e.variant)),
        Ok(o) => vio!("C07:accepted:{}->{}:{}", x.label(), y.label(), layer.label();
          "{} {} entry point accepted a {} token (presentation {}): returned {:?}; presented {}", y.label(), layer.label(), x.label(), c.presentation % 4, o.message(), presented),
      }
    }
    Verdict::Pass
  }
}

fn case(x: Proto, y: Proto) -> BoxedStrategy<CrossCase> {
  (
    any::<u16>(),
    0u8..4,
    gen::bytes32(),
    vec(any::<u8>(), 32),
    gen::jsonish(40),
    prop_oneof![Just(None), gen::jsonish(12).prop_map(Some)],
    prop_oneof![Just(None), gen::jsonish(12).prop_map(Some)],
  )
    .prop_map(move |(l, presentation, seed, nonce, msg, footer, assertion)| CrossCase { x, y, layer: Layer::ALL[pick(l, 3)], presentation, seed, nonce, msg, footer, assertion })
    .boxed()
}

fn all_subs() -> Vec<Cross> {
  let mut v = vec![];
  for x in Proto::ALL {
    for y in Proto::ALL {
      if x != y {
        v.push(Cross { x, y });
      }
    }
  }
  v
}

pub fn subs() -> Vec<Box<dyn DynSub>> {
  all_subs().into_iter().map(|s| Box::new(s) as Box<dyn DynSub>).collect()
}

pub fn run(ctx: &Ctx) -> EvidenceMeta {
  let subs = all_subs();
  let mut jobs: Vec<Job> = vec![];
  for s in &subs {
    // fixed part: every presentation x build layer once, deterministically
    jobs.push(Box::new(move || {
      let mut cases = vec![];
      for presentation in 0..4u8 {
        for layer in Layer::ALL {
          for (i, footer) in [None, Some("{\"kid\":\"k\"}".to_string())].into_iter().enumerate() {
            cases.push(CrossCase {
              x: s.x,
              y: s.y,
              layer,
              presentation,
              seed: (0..32).map(|j| (j as u8).wrapping_mul(19).wrapping_add(3 + i as u8)).collect(),
              nonce: (0..32).map(|j| (j as u8).wrapping_mul(7).wrapping_add(1)).collect(),
              msg: "{\"data\":\"cross\"}".into(),
              footer,
              assertion: if i == 1 { Some("ctx".into()) } else { None },
            });
          }
        }
      }
      ctx.enumerate(s, cases.into_iter(), true);
    }));
    let cost = s.x.cost().max(s.y.cost()).min(20);
    let n = (ctx.n(240, 12_000) / cost).max(12);
    jobs.push(Box::new(move || ctx.prop(s, case(s.x, s.y), n)));
  }
  run_jobs(jobs);
  EvidenceMeta {
    rule: "all 56 ordered pairs (X, Y), X != Y (exhaustive over pairs x 4 presentations x 3 build layers x {no footer, footer+assertion}, plus generated messages/keys/footers): a token of X - built with key material reused wherever both sides take the same bytes \
           (one 32-byte string is the symmetric key of every local protocol and the Ed25519 public key; one Ed25519 pair for v2.public and v4.public) - is presented to every entry point (core, generic, batteries-included) of Y \
           verbatim, with its header rewritten to Y's, rewritten and padded to Y's minimum payload length, and rewritten with nonce/trailer re-laid out to Y's lengths. Oracle: Y returns Err (never Ok, never a panic). \
           Non-trivial = every case; distinct by case."
      .into(),
    assumptions: vec![],
  }
}
