//! C17 – a repeated top-level claim makes the batteries-included build fail.
use crate::c13::{interpret, odometer, BOp, HistCase};
use crate::engine::*;
use crate::gen;
use crate::proto::*;
use proptest::collection::vec;
use proptest::prelude::*;
use serde_json::{json, Value};

pub struct Duplicates {
  pub proto: Proto,
  pub kind: &'static str,
}

const KEYS: [&str; 9] = ["exp", "nbf", "iat", "iss", "sub", "aud", "jti", "a", "b"];

/// set_claim for key index k with a value that is distinct per occurrence n
pub fn set_op(k: usize, n: usize) -> BOp {
  BOp::Set(match k {
    0 => ClaimSpec::Exp(format!("20{}-01-01T00:00:00Z", 40 + n % 50)),
    1 => ClaimSpec::Nbf(format!("20{}-03-03T00:00:00Z", 10 + n % 10)),
    2 => ClaimSpec::IatOwned(format!("20{}-02-02T00:00:00+00:00", 10 + n % 10)),
    3 => ClaimSpec::Iss(format!("issuer-{n}")),
    4 => ClaimSpec::Sub(format!("subject-{n}")),
    5 => ClaimSpec::Aud(format!("audience-{n}")),
    6 => ClaimSpec::Jti(format!("id-{n}")),
    7 => ClaimSpec::Custom("a".into(), json!(n)),
    _ => ClaimSpec::CustomOwned("b".into(), json!(format!("v{n}"))),
  })
}

fn alphabet_op(letter: usize, n: usize) -> BOp {
  match letter {
    0..=8 => set_op(letter, n),
    9 => BOp::Ack,
    10 => BOp::Footer(format!("footer-{n}")),
    _ => BOp::Build,
  }
}

impl Sub for Duplicates {
  type Case = HistCase;
  fn name(&self) -> String {
    format!("C17/{}/{}", self.kind, self.proto.label())
  }
  fn check(&self, c: &HistCase, cl: &mut Classes) -> Verdict {
    let p = c.proto;
    let run = interpret(c);
    let hist: Vec<String> = c.ops.iter().enumerate().map(|(i, o)| if c.twin.get(i).copied().unwrap_or(false) { format!("B2.{}", o.short()) } else { o.short() }).collect();
    cl.tag(format!("{}", p.label()));
    cl.tag(format!("len={}", c.ops.len().min(8)));
    let mut any_dup = false;
    let mut build_after_claim = false;
    if let Some(e) = run.readback_error {
      vio!("C17:unreadable-token:{}", p.label(); "{} — history {:?}", e, hist);
    }
    for b in &run.builds {
      // a key counts as repeated when it was supplied twice; occurrences of exp AFTER the acknowledgement fall under the
      // property's one latitude (each may be refused as a duplicate or ignored), so exp is a certain duplicate only
      // when it was supplied twice before the acknowledgement
      let dups: Vec<&String> = b.supplied.iter().filter(|(k, (n, _))| if k.as_str() == "exp" && b.exp_after_ack { b.exp_before_ack >= 2 } else { *n >= 2 }).map(|(k, _)| k).collect();
      any_dup |= !dups.is_empty();
      build_after_claim |= !b.supplied.is_empty();
      let nth = if b.builds_before == 0 { "first" } else { "later" };
      if !dups.is_empty() {
        match &b.result {
          Err(e) if e.class == ErrClass::Duplicate => {
            let named = e.args.first().cloned().unwrap_or_default();
            let ok = dups.iter().any(|d| **d == named) || (b.exp_after_ack && named == "exp");
            if !ok {
              vio!("C17:duplicate-error-names-wrong-key:{}", nth; "error names {:?}, duplicated keys are {:?} — history {:?}", named, dups, hist);
            }
            cl.tag("duplicate-refused");
          }
          Err(e) => vio!("C17:duplicate-other-error:{}:{}", nth, e.variant; "keys {:?} were supplied more than once; build failed with {} instead of a duplicate-claim error — history {:?}", dups, e.text, hist),
          Ok(v) => vio!("C17:duplicate-built:{}-build", nth; "keys {:?} were supplied more than once yet build #{} returned a token with payload {} — history {:?}", dups, b.builds_before + 1, v, hist),
        }
        continue;
      }
      if b.unusable_key && b.result.is_err() {
        // no key was repeated and the private key cannot sign: the build fails for that reason, which is not judged here
        cl.tag("unusable-key:refused");
        continue;
      }
      if b.exp_after_ack {
        // latitude: refused as a duplicate of exp, or built without exp
        match &b.result {
          Err(e) if e.class == ErrClass::Duplicate && e.args.first().map(|s| s.as_str()) == Some("exp") => cl.tag("latitude:refused"),
          Ok(v) if v.get("exp").is_none() => cl.tag("latitude:ignored"),
          Err(e) => vio!("C17:latitude-other-error:{}", e.variant; "exp after acknowledgement: build failed with {} — history {:?}", e.text, hist),
          Ok(v) => vio!("C17:latitude-exp-kept"; "exp supplied after the acknowledgement is neither refused nor ignored: payload {} — history {:?}", v, hist),
        }
        continue;
      }
      match &b.result {
        Err(e) => vio!("C17:no-duplicate-but-failed:{}:{}", nth, e.variant; "no key was supplied twice, yet build #{} failed: {} — history {:?}", b.builds_before + 1, e.text, hist),
        Ok(v) => {
          for (k, (_, val)) in &b.supplied {
            if k == "exp" && b.ack {
              continue;
            }
            if k.is_empty() {
              continue; // GenericBuilder documents that a claim with an empty key is ignored: only its repetition is judged here
            }
            if v.get(k) != Some(val) {
              vio!("C17:supplied-value-not-in-token:{}-build", nth; "supplied {} = {} but build #{} produced payload {} — history {:?}", k, val, b.builds_before + 1, v, hist);
            }
          }
          cl.tag("built");
        }
      }
    }
    cl.nontrivial(any_dup || build_after_claim);
    Verdict::Pass
  }
}

/// custom keys that are distinct as strings but close to each other or to registered keys
const NEAR_KEYS: [&str; 27] = ["", " ", "\u{0}", "customer_id", "customer_name", "customer_id ", "A", "Exp", "SUB", "iss ", "é", "e\u{301}", "a\u{0}", "aa", "ab", "nbf2", "jti_",
  // look-alikes of "a", "b", "exp", "sub", "k1" for a comparison that normalises or folds case: all of them other keys
  "\u{430}", "\u{ff41}", "\u{ff45}xp", "e\u{ff58}p", "\u{17f}ub", "s\u{fe0f}ub", "\u{212a}1", "a\u{200d}", "\u{ff42}", "b\u{fe0f}"];

struct CustomReserved;
impl CustomReserved {
  fn is(k: &str) -> bool {
    ["iss", "sub", "aud", "exp", "nbf", "iat", "jti"].contains(&k)
  }
}

fn long_key(tail: u8) -> String {
  format!("{}{}", "k".repeat(300), tail)
}

fn random_op() -> BoxedStrategy<BOp> {
  prop_oneof![
    12 => (0usize..9, 0usize..1000).prop_map(|(k, n)| set_op(k, n)),
    // values at the edge of the JSON data model on the custom keys: null (None, unit), empty containers, huge numbers
    3 => (any::<bool>(), 0u8..6).prop_map(|(a, v)| BOp::Set(ClaimSpec::Custom(if a { "a" } else { "b" }.to_string(), [Value::Null, json!([]), json!({}), json!(u64::MAX), json!(-0.0), json!("")][v as usize].clone()))),
    1 => any::<bool>().prop_map(|a| BOp::Set(ClaimSpec::Native(if a { "a" } else { "b" }.to_string(), NativeVal::OptNone))),
    4 => (any::<u16>(), 0usize..1000).prop_map(|(i, n)| BOp::Set(ClaimSpec::Custom(NEAR_KEYS[pick(i, NEAR_KEYS.len())].to_string(), json!(n)))),
    1 => (0u8..3, 0usize..1000).prop_map(|(t, n)| BOp::Set(ClaimSpec::CustomOwned(long_key(t), json!(n)))),
    // keys made of two ordinary keys joined by a character that a flat list of seen keys might use as its separator, next to
    // their parts: "tenant\u{1f}role" is one key, neither "tenant" nor "role"
    3 => (any::<u16>(), any::<u16>(), any::<u16>(), 0u8..4, 0usize..1000).prop_map(|(x, y, sep, form, n)| {
      const PARTS: [&str; 8] = ["a", "b", "role", "tenant", "exp", "sub", "", "k1"];
      const SEPS: [&str; 18] = ["\u{1f}", "\u{1e}", "\u{0}", ",", ";", "|", " ", "\n", "\t", ":", "/", ".", "=", "&", "\"", "\\", "\u{2028}", "\u{feff}"];
      let (x, y, sep) = (PARTS[pick(x, 8)], PARTS[pick(y, 8)], SEPS[pick(sep, 18)]);
      let key = match form {
        0 => format!("{x}{sep}{y}"),
        1 => format!("{x}{sep}"),
        2 => format!("{sep}{y}"),
        _ => x.to_string(),
      };
      if CustomReserved::is(&key) { BOp::Build } else { BOp::Set(ClaimSpec::CustomOwned(key, json!(n))) }
    }),
    1 => (any::<bool>(), gen::json_doc_value()).prop_map(|(a, v)| BOp::Set(ClaimSpec::Custom(if a { "a" } else { "b" }.to_string(), v))),
    // a registered key through a caller-defined claim type (the trait is public) next to the library's own type for it
    3 => (0usize..7, 0usize..1000).prop_map(|(k, n)| BOp::Set(ClaimSpec::Any(KEYS[k].to_string(), if k <= 2 { json!(format!("20{}-05-05T00:00:00Z", 30 + n % 60)) } else { json!(format!("foreign-{n}")) }))),
    // a key that differs from an ordinary one only by characters that do not render
    2 => (any::<u16>(), any::<u16>(), 0u8..3, 0usize..1000).prop_map(|(k, z, place, n)| {
      const INVISIBLE: [char; 12] = ['\u{ad}', '\u{200b}', '\u{200c}', '\u{200d}', '\u{200e}', '\u{2060}', '\u{feff}', '\u{fe0f}', '\u{202a}', '\u{202c}', '\u{2066}', '\u{34f}'];
      let base = KEYS[pick(k, 9)];
      let z = INVISIBLE[pick(z, 12)];
      let key = match place { 0 => format!("{base}{z}"), 1 => format!("{z}{base}"), _ => { let mut c: Vec<char> = base.chars().collect(); c.insert(1.min(c.len()), z); c.into_iter().collect() } };
      BOp::Set(ClaimSpec::CustomOwned(key, json!(n)))
    }),
    2 => Just(BOp::Ack),
    1 => (0u8..3).prop_map(BOp::SetPanics),
    1 => Just(BOp::BuildWithUnusableKey),
    1 => Just(BOp::OtherBuildersFail),
    1 => gen::jsonish(6).prop_map(BOp::Footer),
    1 => gen::jsonish(6).prop_map(BOp::Assertion),
    4 => Just(BOp::Build),
  ]
  .boxed()
}

/// long histories over a pool of 200 numbered custom keys: dozens of distinct keys before a repeat
fn many_keys_op() -> BoxedStrategy<BOp> {
  prop_oneof![
    30 => (0usize..200, 0usize..1000).prop_map(|(k, n)| BOp::Set(ClaimSpec::Custom(format!("k{k}"), json!(n)))),
    3 => (0usize..9, 0usize..1000).prop_map(|(k, n)| set_op(k, n)),
    1 => Just(BOp::Ack),
    1 => gen::jsonish(6).prop_map(BOp::Footer),
    3 => Just(BOp::Build),
  ]
  .boxed()
}

// ---------------------------------------------------------------- keys no builder of the process has seen, met by several threads at once

static FRESH: std::sync::atomic::AtomicU64 = std::sync::atomic::AtomicU64::new(0);

/// `threads` threads, each with a builder of its own, are released together `rounds` times; in every round each thread's
/// NEW builder is given one custom key twice - a key name that no builder in this process has been given before - then
/// asked to build.
#[derive(Clone, Debug, serde::Serialize, serde::Deserialize)]
pub struct FreshKeyCase {
  pub proto: Proto,
  pub threads: u8,
  pub rounds: u32,
  pub stem: String,
  /// also supply a distinct, thread-private fresh key once before the repeated one
  pub private_first: bool,
}

pub struct FreshKeys;

impl Sub for FreshKeys {
  type Case = FreshKeyCase;
  fn name(&self) -> String {
    "C17/fresh-keys-on-many-threads".into()
  }
  fn check(&self, c: &FreshKeyCase, cl: &mut Classes) -> Verdict {
    use std::sync::atomic::{AtomicU32, Ordering};
    let p = c.proto;
    let threads = c.threads.clamp(2, 32) as usize;
    let rounds = c.rounds.min(5000);
    // a process-wide serial number keeps the names new when the same case runs again in this process
    let serial = FRESH.fetch_add(1, Ordering::Relaxed);
    let arrived = AtomicU32::new(0);
    let gate = AtomicU32::new(0);
    let km = crate::keys::material(p, &[17u8; 32]);
    let lk = match km.lib() {
      Ok(k) => k,
      Err(_) => return Verdict::Discard,
    };
    let lk = &lk;
    let (arrived, gate) = (&arrived, &gate);
    let outcomes: Vec<Option<(u32, String)>> = std::thread::scope(|sc| {
      let hs: Vec<_> = (0..threads)
        .map(|t| {
          sc.spawn(move || {
            for r in 0..rounds {
              let key = format!("{}-{}-{}", c.stem, serial, r);
              let mine = format!("{}-{}-{}-t{}", c.stem, serial, r, t);
              let specs = [ClaimSpec::CustomOwned(mine, json!(t)), ClaimSpec::CustomOwned(key.clone(), json!(1)), ClaimSpec::CustomOwned(key.clone(), json!(2))];
              let mut b = new_builder(p, Layer::Prelude);
              arrived.fetch_add(1, Ordering::AcqRel);
              while gate.load(Ordering::Acquire) <= r {
                std::hint::spin_loop();
              }
              if c.private_first {
                let _ = b.set(&specs[0]);
              }
              let _ = b.set(&specs[1]);
              let _ = b.set(&specs[2]);
              match b.build(lk) {
                Err(e) if e.class == ErrClass::Duplicate && e.args.first().map(|s| s.as_str()) == Some(key.as_str()) => {}
                Err(e) => return Some((r, format!("build failed with {} instead of a duplicate-claim error naming {:?}", e.text, key))),
                Ok(_) => return Some((r, format!("build returned a token although {:?} was supplied twice to this builder", key))),
              }
            }
            None
          })
        })
        .collect();
      // release the threads round by round once all of them stand at the gate
      for r in 0..rounds {
        let mut spins = 0u64;
        while arrived.load(Ordering::Acquire) < (threads as u32) * (r + 1) {
          std::hint::spin_loop();
          spins += 1;
          if spins > 2_000_000_000 || hs.iter().any(|h| h.is_finished()) {
            break; // a thread stopped early (it reports why): open every gate
          }
        }
        gate.store(r + 1, Ordering::Release);
      }
      gate.store(u32::MAX, Ordering::Release);
      hs.into_iter().map(|h| h.join().unwrap_or(Some((0, "a thread panicked".into())))).collect()
    });
    cl.tag(format!("{}:threads={}", p.label(), threads));
    cl.nontrivial(rounds >= 10);
    for (t, o) in outcomes.iter().enumerate() {
      if let Some((r, what)) = o {
        vio!("C17:duplicate-built:fresh-key-on-many-threads"; "thread {} of {}, round {}: {} ({} threads gave the same never-seen key name to their own builders at the same moment)", t, threads, r, what, threads);
      }
    }
    Verdict::Pass
  }
}

fn all_subs() -> Vec<Duplicates> {
  let mut v = vec![Duplicates { proto: Proto::V4L, kind: "exhaustive" }, Duplicates { proto: Proto::V4L, kind: "many-keys" }, Duplicates { proto: Proto::V2P, kind: "many-keys" }];
  for proto in Proto::ALL {
    v.push(Duplicates { proto, kind: "random" });
  }
  v
}

pub fn subs() -> Vec<Box<dyn DynSub>> {
  let mut v: Vec<Box<dyn DynSub>> = all_subs().into_iter().map(|s| Box::new(s) as Box<dyn DynSub>).collect();
  v.push(Box::new(FreshKeys));
  v
}

pub fn run(ctx: &Ctx) -> EvidenceMeta {
  let subs = all_subs();
  let max_len = ctx.n(4, 5) as usize;
  let mut jobs: Vec<Job> = vec![];
  for s in &subs {
    if s.kind == "exhaustive" {
      for first in 0..12usize {
        jobs.push(Box::new(move || {
          let cases = odometer(12, max_len).filter(move |w| w[0] == first).map(|w| HistCase {
            proto: Proto::V4L,
            seed: vec![13u8; 32],
            ops: w.iter().enumerate().map(|(i, l)| alphabet_op(*l, i)).collect(),
            twin: vec![],
          });
          ctx.enumerate(s, cases, true)
        }));
      }
    } else if s.kind == "many-keys" {
      let n = ctx.n(1500, 15_000) / s.proto.cost();
      jobs.push(Box::new(move || ctx.prop(s, (gen::bytes32(), vec(many_keys_op(), 20..=160)).prop_map(move |(seed, ops)| HistCase { proto: s.proto, seed, ops, twin: vec![] }), n)));
    } else {
      let n = (ctx.n(10_000, 100_000) / s.proto.cost().min(20)).max(300);
      jobs.push(Box::new(move || ctx.prop(s, (gen::bytes32(), vec(random_op(), 0..=40), prop_oneof![2 => Just(vec![]), 1 => vec(any::<bool>(), 0..=40)]).prop_map(move |(seed, ops, twin)| HistCase { proto: s.proto, seed, ops, twin }), n)));
    }
  }
  run_jobs(jobs);
  // alone on the machine (the threads spin at a gate): after the other jobs
  let fk = &FreshKeys;
  let rounds = ctx.n(400, 4000) as u32;
  let fresh: Vec<FreshKeyCase> = Proto::ALL.iter().enumerate().map(|(i, proto)| FreshKeyCase { proto: *proto, threads: if i % 2 == 0 { 12 } else { 4 }, rounds, stem: format!("fresh{i}"), private_first: i % 3 == 1 }).collect();
  run_jobs(vec![Box::new(move || ctx.enumerate(fk, fresh.into_iter(), true))]);
  EvidenceMeta {
    rule: format!("histories over PasetoBuilder::default(): set_claim(k, v) for k in {{exp,nbf,iat,iss,sub,aud,jti,custom a,custom b}} (values distinct per occurrence), acknowledge no-expiration, set_footer, build - every sequence up to length {max_len} on v4.local (exhaustive), generated sequences up to length 40 on all 8 protocols. \
           Oracle (model = multiset of supplied keys + position of the acknowledgement), at every build of the history: some key supplied twice (exp: twice before the acknowledgement) => Err(DuplicateTopLevelPayloadClaim(k)) with k duplicated (or exp after the acknowledgement), never a token, also on every later build; \
           exp supplied after the acknowledgement, any number of times => refused as duplicate or built without exp (latitude); otherwise => success and every supplied value is in the payload read back through GenericParser. \
           Fresh keys on many threads: 4 / 12 threads, each with builders of its own, released together by a spin gate {rounds} times per protocol; in every round each thread gives its new builder one key name no builder of the process has seen, twice, and builds => every thread gets the duplicate-claim error naming that key. \
           Non-trivial = a key is repeated or a build follows a supplied claim; distinct by history."),
    assumptions: vec![],
  }
}
