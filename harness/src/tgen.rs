//! Timestamps as data: an instant plus a rendering; civil-time arithmetic is the harness's own.
#![allow(dead_code)]

use proptest::prelude::*;
use serde::{Deserialize, Serialize};

/// days since 1970-01-01 for a proleptic Gregorian date
pub fn days_from_civil(y: i64, m: u32, d: u32) -> i64 {
  let y = if m <= 2 { y - 1 } else { y };
  let era = if y >= 0 { y } else { y - 399 } / 400;
  let yoe = y - era * 400;
  let mp = (m as i64 + 9) % 12;
  let doy = (153 * mp + 2) / 5 + d as i64 - 1;
  let doe = yoe * 365 + yoe / 4 - yoe / 100 + doy;
  era * 146097 + doe - 719468
}

pub fn civil_from_days(z: i64) -> (i64, u32, u32) {
  let z = z + 719468;
  let era = if z >= 0 { z } else { z - 146096 } / 146097;
  let doe = z - era * 146097;
  let yoe = (doe - doe / 1460 + doe / 36524 - doe / 146096) / 365;
  let y = yoe + era * 400;
  let doy = doe - (365 * yoe + yoe / 4 - yoe / 100);
  let mp = (5 * doy + 2) / 153;
  let d = (doy - (153 * mp + 2) / 5 + 1) as u32;
  let m = if mp < 10 { mp + 3 } else { mp - 9 } as u32;
  (if m <= 2 { y + 1 } else { y }, m, d)
}

#[derive(Clone, Debug, Serialize, Deserialize, PartialEq, Eq, Hash)]
pub struct Rendering {
  /// minutes east of UTC, -1439..=1439 (ignored when `zulu` != 0)
  pub offset_min: i16,
  /// number of fractional-second digits written, 0..=9 (the instant is truncated to that precision)
  pub digits: u8,
  /// 0 'T', 1 ' ', 2 't'
  pub sep: u8,
  /// 0 numeric offset, 1 'Z', 2 'z'
  pub zulu: u8,
}

impl Rendering {
  pub fn utc() -> Rendering {
    Rendering { offset_min: 0, digits: 0, sep: 0, zulu: 1 }
  }
  /// strict RFC 3339 with upper-case 'T' and 'Z' (or a numeric offset)
  pub fn strict(&self) -> bool {
    self.sep == 0 && self.zulu < 2
  }
  pub fn class(&self) -> String {
    format!(
      "offset:{} frac:{} sep:{} zone:{}",
      if self.zulu != 0 { "utc" } else if self.offset_min == 0 { "+00:00" } else if self.offset_min > 0 { "east" } else { "west" },
      self.digits,
      ["T", "space", "t"][(self.sep % 3) as usize],
      ["numeric", "Z", "z"][(self.zulu % 3) as usize]
    )
  }
}

/// RFC 3339 text of the instant (seconds since the epoch, nanoseconds) under the rendering
pub fn render(secs: i64, nanos: u32, r: &Rendering) -> String {
  let off = if r.zulu != 0 { 0 } else { r.offset_min as i64 };
  let local = secs + off * 60;
  let days = local.div_euclid(86400);
  let sod = local.rem_euclid(86400);
  let (y, m, d) = civil_from_days(days);
  let mut s = format!("{:04}-{:02}-{:02}{}{:02}:{:02}:{:02}", y, m, d, ["T", " ", "t"][(r.sep % 3) as usize], sod / 3600, (sod / 60) % 60, sod % 60);
  if r.digits > 0 {
    let frac = format!("{:09}", nanos);
    s.push('.');
    s.push_str(&frac[..(r.digits.min(9)) as usize]);
    // RFC 3339 puts no bound on the number of fraction digits: beyond the ninth they are below the clock's resolution
    for i in 9..r.digits.min(60) {
      s.push((b'0' + ((i as u32 * 7 + 3) % 10) as u8) as char);
    }
  }
  match r.zulu % 3 {
    1 => s.push('Z'),
    2 => s.push('z'),
    _ => {
      let a = off.abs();
      s.push(if off < 0 { '-' } else { '+' });
      s.push_str(&format!("{:02}:{:02}", a / 60, a % 60));
    }
  }
  s
}

/// own reader for the RFC 3339 strings the library writes: (seconds, nanoseconds) since the epoch
pub fn parse_rfc3339(s: &str) -> Option<(i64, u32)> {
  let b = s.as_bytes();
  if b.len() < 20 {
    return None;
  }
  let num = |r: std::ops::Range<usize>| -> Option<i64> { std::str::from_utf8(b.get(r)?).ok()?.parse::<i64>().ok() };
  if b[4] != b'-' || b[7] != b'-' || !(b[10] == b'T' || b[10] == b't' || b[10] == b' ') || b[13] != b':' || b[16] != b':' {
    return None;
  }
  let (y, mo, d, h, mi, se) = (num(0..4)?, num(5..7)?, num(8..10)?, num(11..13)?, num(14..16)?, num(17..19)?);
  let mut i = 19;
  let mut nanos: u32 = 0;
  if b.get(i) == Some(&b'.') {
    i += 1;
    let start = i;
    while i < b.len() && b[i].is_ascii_digit() {
      i += 1;
    }
    if i == start {
      return None;
    }
    let mut frac = s[start..i].to_string();
    frac.truncate(9);
    while frac.len() < 9 {
      frac.push('0');
    }
    nanos = frac.parse().ok()?;
  }
  let off_secs: i64 = match b.get(i)? {
    b'Z' | b'z' => {
      if i + 1 != b.len() {
        return None;
      }
      0
    }
    sign @ (b'+' | b'-') => {
      if i + 6 != b.len() || b[i + 3] != b':' {
        return None;
      }
      let v = num(i + 1..i + 3)? * 3600 + num(i + 4..i + 6)? * 60;
      if *sign == b'-' {
        -v
      } else {
        v
      }
    }
    _ => return None,
  };
  if !(1..=12).contains(&mo) || !(1..=31).contains(&d) || h > 23 || mi > 59 || se > 60 {
    return None;
  }
  Some((days_from_civil(y, mo as u32, d as u32) * 86400 + h * 3600 + mi * 60 + se - off_secs, nanos))
}

pub fn now() -> (i64, u32) {
  let d = std::time::SystemTime::now().duration_since(std::time::UNIX_EPOCH).expect("clock after 1970");
  (d.as_secs() as i64, d.subsec_nanos())
}

pub fn rendering() -> BoxedStrategy<Rendering> {
  (
    prop_oneof![3 => Just(0i16), 6 => -1439i16..=1439, 1 => Just(1439i16), 1 => Just(-1439i16), 2 => (-23i16..=23).prop_map(|h| h * 60)],
    prop_oneof![6 => Just(0u8), 8 => 1u8..=9, 2 => Just(9u8), 2 => Just(3u8), 2 => 10u8..=40, 1 => Just(10u8)],
    prop_oneof![8 => Just(0u8), 1 => Just(1u8), 1 => Just(2u8)],
    prop_oneof![5 => Just(0u8), 4 => Just(1u8), 1 => Just(2u8)],
  )
    .prop_map(|(offset_min, digits, sep, zulu)| Rendering { offset_min, digits, sep, zulu })
    .boxed()
}

/// seconds distance from "now", log-uniform in [lo, hi]
pub fn log_delta(lo: u64, hi: u64) -> BoxedStrategy<u64> {
  let (llo, lhi) = ((lo as f64).ln(), (hi as f64).ln());
  prop_oneof![
    8 => (0.0f64..1.0).prop_map(move |u| ((llo + u * (lhi - llo)).exp() as u64).clamp(lo, hi)),
    1 => Just(lo),
    1 => Just(hi),
  ]
  .boxed()
}

/// 1971-01-01T00:00:00Z and 9000-01-01T00:00:00Z as seconds since the epoch
pub const Y1971: i64 = 31_536_000;
pub fn y9000() -> i64 {
  days_from_civil(9000, 1, 1) * 86400
}


/// Wall-clock settings for the child processes of C11/C12/C13 (label, seconds since the epoch, nanoseconds): calendar
/// boundaries the real clock of a test run never sits on. All before 2101, so that "now + d" stays inside year 9000.
pub fn special_clocks(quick: bool) -> Vec<(&'static str, i64, u32)> {
  let at = |y: i64, m: u32, d: u32, h: i64, mi: i64, s: i64| days_from_civil(y, m, d) * 86400 + h * 3600 + mi * 60 + s;
  let mut v = vec![
    ("last-second-of-2026", at(2026, 12, 31, 23, 59, 59), 999_000_000),
    ("leap-day-2028-end", at(2028, 2, 29, 23, 59, 58), 500_000_000),
    ("feb-28-2027-end", at(2027, 2, 28, 23, 59, 57), 0),
    ("2038-rollover-minus", at(2038, 1, 19, 3, 14, 5), 250_000_000),
    ("zero-nanoseconds", at(2031, 7, 1, 12, 0, 0), 0),
    ("frozen-mid-second", at(2029, 5, 17, 8, 30, 15), 123_456_789),
  ];
  if !quick {
    v.extend([
      ("2038-rollover-plus", at(2038, 1, 19, 3, 14, 9), 1),
      ("end-of-2099", at(2099, 12, 31, 23, 59, 30), 123_456_789),
      ("feb-28-2100-not-leap", at(2100, 2, 28, 23, 59, 0), 999_999_999),
      ("year-2000-leap-day", at(2000, 2, 29, 12, 0, 0), 5),
      ("epoch-plus-2-years", at(1972, 2, 29, 23, 59, 59), 0),
      ("midnight-exactly", at(2030, 1, 1, 0, 0, 0), 0),
      ("month-end-30", at(2029, 4, 30, 23, 59, 59), 999_999_999),
      ("frozen-on-the-second", at(2033, 3, 3, 3, 3, 3), 0),
      ("frozen-at-last-nanosecond", at(2027, 12, 31, 23, 59, 59), 999_999_999),
    ]);
  }
  v
}
