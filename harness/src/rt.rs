//! Shared round-trip machinery: one "message" carried through any of the three layers.
#![allow(dead_code)]

use crate::engine::pick;
use crate::gen::{self, hexser, Text};
use crate::proto::*;
use proptest::collection::vec;
use proptest::prelude::*;
use serde::{Deserialize, Serialize};
use serde_json::Value;

pub const PAST_NBF: &str = "2000-01-01T00:00:00Z";

/// the message carried by a builder-layer payload (see `layer_build`)
pub fn message_of(v: &Value) -> Option<String> {
  match v.get("data") {
    Some(Value::Object(o)) => match (o.get("data").and_then(|d| d.as_str()), o.get("note").and_then(|n| n.as_u64())) {
      (Some(s), Some(n)) if o.len() == 2 && s.len() % 6 == 4 && n == s.len() as u64 => Some(s.to_string()),
      _ => None,
    },
    Some(Value::String(s)) if s.len() % 6 != 4 => Some(s.clone()),
    _ => None,
  }
}

pub enum LayerOut {
  Text(String),
  Json(Value),
}
impl LayerOut {
  /// the message carried by the token: the plaintext (core) or the "data" claim (builder layers)
  pub fn message(&self) -> Option<String> {
    match self {
      LayerOut::Text(s) => Some(s.clone()),
      // (a message whose length is 4 mod 6 travels inside a caller-defined claim type with two members, {"data": .., "note":
      // length}, and has to come back in exactly that shape; every other message is a plain string claim)
      LayerOut::Json(v) => message_of(v),
    }
  }
}

/// Build a token carrying `msg` at `layer`. Builder layers carry it as the custom claim "data";
/// the batteries-included builder additionally gets an nbf in the past so that the default parser's
/// `now <= nbf` rule cannot race the clock.
pub fn layer_build(proto: Proto, layer: Layer, keys: &LibKeys, nonce: &[u8], msg: &str, footer: Option<&str>, assertion: Option<&str>) -> Result<String, LibErr> {
  match layer {
    Layer::Core => core_build(keys, nonce, msg, footer, assertion),
    l => {
      // every sixth message travels in a caller-defined claim type that serialises to an object with two members
      let data = if msg.len() % 6 == 4 { ClaimSpec::Shaped("data".into(), serde_json::json!({ "data": msg, "note": msg.len() })) } else { ClaimSpec::Custom("data".into(), Value::String(msg.to_string())) };
      let nbf = ClaimSpec::Nbf(PAST_NBF.into());
      let mut b = new_builder(proto, l);
      let claims_last = msg.len() % 3 == 1; // the claims go in before or after footer and assertion
      if !claims_last {
        b.set(&data)?;
        if l == Layer::Prelude {
          b.set(&nbf)?;
        }
      }
      let reuse = msg.len() % 5 == 1; // setters called twice: the value set last counts
      if let Some(f) = footer {
        if reuse {
          b.footer("decoy-footer");
        }
        b.footer(f);
      }
      if let Some(a) = assertion {
        if reuse {
          b.assertion("decoy-assertion");
        }
        if !b.assertion(a) {
          return Err(LibErr::other("harness: v1/v2 take no implicit assertion"));
        }
      }
      if claims_last {
        b.set(&data)?;
        if l == Layer::Prelude {
          b.set(&nbf)?;
        }
      }
      // every fourth builder is asked twice; the second token is the one handed on (same claims, footer and assertion:
      // it must serve exactly like the first)
      if msg.len() % 4 == 2 {
        let _ = b.build(keys);
      }
      b.build(keys)
    }
  }
}

pub fn layer_parse<'a>(proto: Proto, layer: Layer, keys: &'a LibKeys<'a>, token: &'a str, footer: Option<&'a str>, assertion: Option<&'a str>) -> Result<LayerOut, LibErr> {
  match layer {
    Layer::Core => core_parse(keys, token, footer, assertion).map(LayerOut::Text),
    l => {
      let mut p = new_parser(proto, l);
      let reuse = token.len() % 5 == 1; // setters called twice: the value set last counts
      let assertion_first = token.len() % 3 == 2; // the two settings in either order
      if assertion_first {
        if let Some(a) = assertion {
          if !p.assertion(a) {
            return Err(LibErr::other("harness: v1/v2 take no implicit assertion"));
          }
        }
      }
      if let Some(f) = footer {
        if reuse {
          p.footer("decoy-footer");
        }
        p.footer(f);
      }
      if let (Some(a), false) = (assertion, assertion_first) {
        if reuse {
          p.assertion("decoy-assertion");
        }
        if !p.assertion(a) {
          return Err(LibErr::other("harness: v1/v2 take no implicit assertion"));
        }
      }
      p.parse(token, keys).map(LayerOut::Json)
    }
  }
}

/// Two parses through ONE parser object (state kept between calls is part of what is tested): first
/// (token1, keys1, footer1, assertion1), then (token2, keys2, footer2, assertion2). At the core layer these are two
/// independent calls of the associated functions.
#[allow(clippy::too_many_arguments)]
pub fn parse_twice<'a>(
  proto: Proto,
  layer: Layer,
  first: (&'a str, &'a LibKeys<'a>, Option<&'a str>, Option<&'a str>),
  second: (&'a str, &'a LibKeys<'a>, Option<&'a str>, Option<&'a str>),
) -> (Result<LayerOut, LibErr>, Result<LayerOut, LibErr>) {
  match layer {
    Layer::Core => (core_parse(first.1, first.0, first.2, first.3).map(LayerOut::Text), core_parse(second.1, second.0, second.2, second.3).map(LayerOut::Text)),
    l => {
      let mut p = new_parser(proto, l);
      if let Some(f) = first.2 {
        p.footer(f);
      }
      if let Some(a) = first.3 {
        p.assertion(a);
      }
      let r1 = p.parse(first.0, first.1).map(LayerOut::Json);
      // re-configure the same parser only where the expectation changes (an absent footer/assertion is the
      // empty one); leaving the setters alone otherwise keeps whatever the parser remembers from the first parse
      // (absent -> explicit empty counts as a change of the CALLS made, although both mean "none")
      if second.2 != first.2 {
        p.footer(second.2.unwrap_or(""));
      }
      if proto.has_assertion() && second.3 != first.3 {
        p.assertion(second.3.unwrap_or(""));
      }
      let r2 = p.parse(second.0, second.1).map(LayerOut::Json);
      (r1, r2)
    }
  }
}

/// keys expected in the payload object produced by `layer_build`
pub fn expected_members(layer: Layer) -> &'static [&'static str] {
  match layer {
    Layer::Core => &[],
    Layer::Generic => &["data"],
    Layer::Prelude => &["data", "exp", "iat", "nbf"],
  }
}

#[derive(Clone, Debug, Serialize, Deserialize)]
pub struct RtCase {
  pub proto: Proto,
  pub layer: Layer,
  #[serde(with = "hexser")]
  pub key_seed: Vec<u8>,
  /// nonce material handed to try_encrypt (core layer, local only): 32 bytes, or 24 for v2
  #[serde(with = "hexser")]
  pub nonce: Vec<u8>,
  pub msg: Text,
  pub footer: Option<Text>,
  pub assertion: Option<Text>,
  /// attempts that must fail, made on the same thread between building and the round-trip parse (bit set):
  /// 1 wrong key, 2 wrong footer, 4 wrong assertion, 8 tampered token, 16 garbage / truncated text,
  /// 32 application callbacks that panic (validators, Serialize impls), 64 twenty parses refused by a validator
  #[serde(default)]
  pub before: u8,
}

impl RtCase {
  pub fn seed(&self) -> [u8; 32] {
    gen::arr32(&self.key_seed)
  }
  pub fn tags(&self, cl: &mut crate::engine::Classes) {
    cl.tag(format!("{}:{}", self.proto.label(), self.layer.label()));
    cl.tag(format!("{}:{}", self.proto.label(), self.msg.len_bucket()));
    let m = self.msg.render();
    if !m.is_ascii() {
      cl.tag("msg:non-ascii");
    }
    if m.contains('\0') {
      cl.tag("msg:NUL");
    }
    if m.contains('.') {
      cl.tag("msg:dot");
    }
    cl.tag(match &self.footer {
      None => "footer:none",
      Some(t) if t.render().is_empty() => "footer:explicit-empty",
      Some(_) => "footer:some",
    });
    if self.proto.has_assertion() {
      cl.tag(match &self.assertion {
        None => "assertion:none",
        Some(t) if t.render().is_empty() => "assertion:explicit-empty",
        Some(_) => "assertion:some",
      });
    }
  }
}

fn nonce_for(proto: Proto) -> BoxedStrategy<Vec<u8>> {
  if proto == Proto::V2L {
    prop_oneof![vec(any::<u8>(), 24), vec(any::<u8>(), 32), Just(vec![0u8; 24])].boxed()
  } else {
    prop_oneof![8 => vec(any::<u8>(), 32), 1 => Just(vec![0u8; 32]), 1 => Just(vec![0xffu8; 32])].boxed()
  }
}

/// generated round-trip inputs for one (protocol, layer)
pub fn rt_case(proto: Proto, layer: Layer) -> BoxedStrategy<RtCase> {
  let msg = if proto.cost() > 4 { gen::short_text() } else { gen::text() };
  let assertion = if proto.has_assertion() { gen::opt_text() } else { Just(None).boxed() };
  (gen::bytes32(), nonce_for(proto), msg, gen::opt_text(), assertion, prop_oneof![3 => Just(0u8), 1 => 1u8..128])
    .prop_map(move |(key_seed, nonce, msg, footer, assertion, before)| RtCase { proto, layer, key_seed, nonce, msg, footer, assertion, before })
    .boxed()
}

/// any protocol of `protos`, any layer
pub fn rt_case_any(protos: &'static [Proto]) -> BoxedStrategy<RtCase> {
  (any::<u16>(), any::<u16>()).prop_flat_map(move |(p, l)| rt_case(protos[pick(p, protos.len())], Layer::ALL[pick(l, 3)])).boxed()
}

/// every message length 0..=max (exhaustive), with footer and assertion lengths cycling through 0..=40 independently
pub fn dense_sweep(proto: Proto, layer: Layer, max: u32) -> Vec<RtCase> {
  let mut out = vec![];
  for len in 0..=max {
    let i = len as usize;
    let key_seed: Vec<u8> = (0..32).map(|j| (j as u8).wrapping_mul(59).wrapping_add(len as u8).wrapping_add((len >> 8) as u8)).collect();
    let nonce: Vec<u8> = (0..if proto == Proto::V2L { 24 } else { 32 }).map(|j| (j as u8).wrapping_mul(23).wrapping_add((len * 7) as u8)).collect();
    out.push(RtCase {
      proto,
      layer,
      key_seed,
      nonce,
      msg: Text::Sized(len, (i % 4) as u8),
      footer: match i % 5 { 0 => None, 1 => Some(Text::Lit(String::new())), _ => Some(Text::Sized((i % 41) as u32, ((i / 5) % 4) as u8)) },
      assertion: if proto.has_assertion() { match i % 3 { 0 => None, _ => Some(Text::Sized(((i * 3) % 43) as u32, ((i / 3) % 4) as u8)) } } else { None },
      before: if i % 7 == 3 { (i % 31) as u8 + 1 } else { 0 },
    });
  }
  out
}

/// deterministic sweep: every boundary length x {no footer, footer} (x assertion for v3/v4) for one (protocol, layer)
pub fn boundary_sweep(proto: Proto, layer: Layer, max_len: u32) -> Vec<RtCase> {
  let mut out = vec![];
  for (i, len) in gen::BOUNDARY_LENS.iter().enumerate() {
    if *len > max_len {
      continue;
    }
    for with_footer in [false, true] {
      let flavour = (i % 4) as u8;
      let key_seed: Vec<u8> = (0..32).map(|j| (j as u8).wrapping_mul(31).wrapping_add(i as u8)).collect();
      let nonce: Vec<u8> = (0..if proto == Proto::V2L { 24 } else { 32 }).map(|j| (j as u8).wrapping_mul(17).wrapping_add(*len as u8)).collect();
      out.push(RtCase {
        proto,
        layer,
        key_seed,
        nonce,
        msg: Text::Sized(*len, flavour),
        footer: if with_footer { Some(Text::Sized(gen::BOUNDARY_LENS[(i * 7 + 3) % 20], 1)) } else { None },
        assertion: if proto.has_assertion() && (i % 2 == 0) == with_footer { Some(Text::Sized(gen::BOUNDARY_LENS[(i * 5 + 1) % 20], 3)) } else { None },
        before: if i % 3 == 1 { 31 } else { 0 },
      });
    }
  }
  out
}
