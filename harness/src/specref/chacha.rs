//! ChaCha20 (RFC 8439), HChaCha20 / XChaCha20 (draft-irtf-cfrg-xchacha), and the ChaCha20-Poly1305
//! AEAD construction of RFC 8439 §2.8 composed by hand over the `poly1305` crate.
use poly1305::universal_hash::{KeyInit, UniversalHash};

#[inline(always)]
fn qr(s: &mut [u32; 16], a: usize, b: usize, c: usize, d: usize) {
  s[a] = s[a].wrapping_add(s[b]);
  s[d] = (s[d] ^ s[a]).rotate_left(16);
  s[c] = s[c].wrapping_add(s[d]);
  s[b] = (s[b] ^ s[c]).rotate_left(12);
  s[a] = s[a].wrapping_add(s[b]);
  s[d] = (s[d] ^ s[a]).rotate_left(8);
  s[c] = s[c].wrapping_add(s[d]);
  s[b] = (s[b] ^ s[c]).rotate_left(7);
}

fn rounds(s: &mut [u32; 16]) {
  for _ in 0..10 {
    qr(s, 0, 4, 8, 12);
    qr(s, 1, 5, 9, 13);
    qr(s, 2, 6, 10, 14);
    qr(s, 3, 7, 11, 15);
    qr(s, 0, 5, 10, 15);
    qr(s, 1, 6, 11, 12);
    qr(s, 2, 7, 8, 13);
    qr(s, 3, 4, 9, 14);
  }
}

const SIGMA: [u32; 4] = [0x61707865, 0x3320646e, 0x79622d32, 0x6b206574];

fn le32(b: &[u8]) -> u32 {
  u32::from_le_bytes(b[..4].try_into().unwrap())
}

/// one 64-byte keystream block; 32-byte key, 32-bit counter, 12-byte nonce
pub fn chacha20_block(key: &[u8; 32], counter: u32, nonce: &[u8; 12]) -> [u8; 64] {
  let mut s = [0u32; 16];
  s[..4].copy_from_slice(&SIGMA);
  for i in 0..8 {
    s[4 + i] = le32(&key[i * 4..]);
  }
  s[12] = counter;
  for i in 0..3 {
    s[13 + i] = le32(&nonce[i * 4..]);
  }
  let init = s;
  rounds(&mut s);
  let mut out = [0u8; 64];
  for i in 0..16 {
    out[i * 4..i * 4 + 4].copy_from_slice(&s[i].wrapping_add(init[i]).to_le_bytes());
  }
  out
}

pub fn chacha20_xor(key: &[u8; 32], mut counter: u32, nonce: &[u8; 12], data: &[u8]) -> Vec<u8> {
  let mut out = Vec::with_capacity(data.len());
  for chunk in data.chunks(64) {
    let ks = chacha20_block(key, counter, nonce);
    counter = counter.wrapping_add(1);
    out.extend(chunk.iter().zip(ks.iter()).map(|(d, k)| d ^ k));
  }
  out
}

/// HChaCha20: 32-byte key, 16-byte nonce -> 32-byte subkey
pub fn hchacha20(key: &[u8; 32], nonce16: &[u8; 16]) -> [u8; 32] {
  let mut s = [0u32; 16];
  s[..4].copy_from_slice(&SIGMA);
  for i in 0..8 {
    s[4 + i] = le32(&key[i * 4..]);
  }
  for i in 0..4 {
    s[12 + i] = le32(&nonce16[i * 4..]);
  }
  rounds(&mut s);
  let mut out = [0u8; 32];
  for i in 0..4 {
    out[i * 4..i * 4 + 4].copy_from_slice(&s[i].to_le_bytes());
    out[16 + i * 4..16 + i * 4 + 4].copy_from_slice(&s[12 + i].to_le_bytes());
  }
  out
}

fn xsplit(key: &[u8; 32], nonce24: &[u8; 24]) -> ([u8; 32], [u8; 12]) {
  let sub = hchacha20(key, nonce24[..16].try_into().unwrap());
  let mut n = [0u8; 12];
  n[4..].copy_from_slice(&nonce24[16..]);
  (sub, n)
}

/// XChaCha20 stream cipher, block counter starting at 0
pub fn xchacha20_xor(key: &[u8; 32], nonce24: &[u8; 24], data: &[u8]) -> Vec<u8> {
  let (sub, n) = xsplit(key, nonce24);
  chacha20_xor(&sub, 0, &n, data)
}

fn poly_tag(otk: &[u8; 32], aad: &[u8], ct: &[u8]) -> [u8; 16] {
  let mut mac = poly1305::Poly1305::new(poly1305::Key::from_slice(otk));
  mac.update_padded(aad);
  mac.update_padded(ct);
  let mut lens = [0u8; 16];
  lens[..8].copy_from_slice(&(aad.len() as u64).to_le_bytes());
  lens[8..].copy_from_slice(&(ct.len() as u64).to_le_bytes());
  mac.update_padded(&lens);
  let tag = mac.finalize();
  let mut out = [0u8; 16];
  out.copy_from_slice(tag.as_slice());
  out
}

/// XChaCha20-Poly1305 encrypt: ciphertext || 16-byte tag
pub fn xchacha20poly1305_seal(key: &[u8; 32], nonce24: &[u8; 24], aad: &[u8], msg: &[u8]) -> Vec<u8> {
  let (sub, n) = xsplit(key, nonce24);
  let block0 = chacha20_block(&sub, 0, &n);
  let otk: [u8; 32] = block0[..32].try_into().unwrap();
  let mut ct = chacha20_xor(&sub, 1, &n, msg);
  let tag = poly_tag(&otk, aad, &ct);
  ct.extend_from_slice(&tag);
  ct
}

pub fn xchacha20poly1305_open(key: &[u8; 32], nonce24: &[u8; 24], aad: &[u8], ct_and_tag: &[u8]) -> Option<Vec<u8>> {
  if ct_and_tag.len() < 16 {
    return None;
  }
  let (ct, tag) = ct_and_tag.split_at(ct_and_tag.len() - 16);
  let (sub, n) = xsplit(key, nonce24);
  let block0 = chacha20_block(&sub, 0, &n);
  let otk: [u8; 32] = block0[..32].try_into().unwrap();
  let expect = poly_tag(&otk, aad, ct);
  let mut diff = 0u8;
  for (a, b) in expect.iter().zip(tag.iter()) {
    diff |= a ^ b;
  }
  if diff != 0 {
    return None;
  }
  Some(chacha20_xor(&sub, 1, &n, ct))
}
