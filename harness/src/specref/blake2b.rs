//! BLAKE2b (RFC 7693), keyed, variable output length. Written from the RFC; self-tested in `super::selftest`.
const IV: [u64; 8] = [
  0x6a09e667f3bcc908, 0xbb67ae8584caa73b, 0x3c6ef372fe94f82b, 0xa54ff53a5f1d36f1,
  0x510e527fade682d1, 0x9b05688c2b3e6c1f, 0x1f83d9abfb41bd6b, 0x5be0cd19137e2179,
];
const SIGMA: [[usize; 16]; 12] = [
  [0, 1, 2, 3, 4, 5, 6, 7, 8, 9, 10, 11, 12, 13, 14, 15],
  [14, 10, 4, 8, 9, 15, 13, 6, 1, 12, 0, 2, 11, 7, 5, 3],
  [11, 8, 12, 0, 5, 2, 15, 13, 10, 14, 3, 6, 7, 1, 9, 4],
  [7, 9, 3, 1, 13, 12, 11, 14, 2, 6, 5, 10, 4, 0, 15, 8],
  [9, 0, 5, 7, 2, 4, 10, 15, 14, 1, 11, 12, 6, 8, 3, 13],
  [2, 12, 6, 10, 0, 11, 8, 3, 4, 13, 7, 5, 15, 14, 1, 9],
  [12, 5, 1, 15, 14, 13, 4, 10, 0, 7, 6, 3, 9, 2, 8, 11],
  [13, 11, 7, 14, 12, 1, 3, 9, 5, 0, 15, 4, 8, 6, 2, 10],
  [6, 15, 14, 9, 11, 3, 0, 8, 12, 2, 13, 7, 1, 4, 10, 5],
  [10, 2, 8, 4, 7, 6, 1, 5, 15, 11, 9, 14, 3, 12, 13, 0],
  [0, 1, 2, 3, 4, 5, 6, 7, 8, 9, 10, 11, 12, 13, 14, 15],
  [14, 10, 4, 8, 9, 15, 13, 6, 1, 12, 0, 2, 11, 7, 5, 3],
];

#[inline(always)]
fn g(v: &mut [u64; 16], a: usize, b: usize, c: usize, d: usize, x: u64, y: u64) {
  v[a] = v[a].wrapping_add(v[b]).wrapping_add(x);
  v[d] = (v[d] ^ v[a]).rotate_right(32);
  v[c] = v[c].wrapping_add(v[d]);
  v[b] = (v[b] ^ v[c]).rotate_right(24);
  v[a] = v[a].wrapping_add(v[b]).wrapping_add(y);
  v[d] = (v[d] ^ v[a]).rotate_right(16);
  v[c] = v[c].wrapping_add(v[d]);
  v[b] = (v[b] ^ v[c]).rotate_right(63);
}

fn compress(h: &mut [u64; 8], block: &[u8; 128], t: u128, last: bool) {
  let mut m = [0u64; 16];
  for i in 0..16 {
    m[i] = u64::from_le_bytes(block[i * 8..i * 8 + 8].try_into().unwrap());
  }
  let mut v = [0u64; 16];
  v[..8].copy_from_slice(h);
  v[8..].copy_from_slice(&IV);
  v[12] ^= t as u64;
  v[13] ^= (t >> 64) as u64;
  if last {
    v[14] = !v[14];
  }
  for r in 0..12 {
    let s = &SIGMA[r];
    g(&mut v, 0, 4, 8, 12, m[s[0]], m[s[1]]);
    g(&mut v, 1, 5, 9, 13, m[s[2]], m[s[3]]);
    g(&mut v, 2, 6, 10, 14, m[s[4]], m[s[5]]);
    g(&mut v, 3, 7, 11, 15, m[s[6]], m[s[7]]);
    g(&mut v, 0, 5, 10, 15, m[s[8]], m[s[9]]);
    g(&mut v, 1, 6, 11, 12, m[s[10]], m[s[11]]);
    g(&mut v, 2, 7, 8, 13, m[s[12]], m[s[13]]);
    g(&mut v, 3, 4, 9, 14, m[s[14]], m[s[15]]);
  }
  for i in 0..8 {
    h[i] ^= v[i] ^ v[i + 8];
  }
}

/// BLAKE2b(key, data) with `outlen` output bytes (1..=64); `key` may be empty (0..=64 bytes).
pub fn blake2b(key: &[u8], data: &[u8], outlen: usize) -> Vec<u8> {
  assert!((1..=64).contains(&outlen) && key.len() <= 64);
  let mut h = IV;
  h[0] ^= 0x0101_0000 ^ ((key.len() as u64) << 8) ^ (outlen as u64);
  // the input stream: optional key block, then the data
  let mut stream: Vec<u8> = Vec::with_capacity(128 + data.len());
  if !key.is_empty() {
    stream.extend_from_slice(key);
    stream.resize(128, 0);
  }
  stream.extend_from_slice(data);
  let mut t: u128 = 0;
  let total = stream.len();
  if total == 0 {
    compress(&mut h, &[0u8; 128], 0, true);
  } else {
    let nblocks = (total + 127) / 128;
    for i in 0..nblocks {
      let start = i * 128;
      let end = (start + 128).min(total);
      let mut block = [0u8; 128];
      block[..end - start].copy_from_slice(&stream[start..end]);
      t += (end - start) as u128;
      compress(&mut h, &block, t, i == nblocks - 1);
    }
  }
  let mut out = Vec::with_capacity(64);
  for w in h {
    out.extend_from_slice(&w.to_le_bytes());
  }
  out.truncate(outlen);
  out
}
