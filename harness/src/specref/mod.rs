//! `specref` – executable transcription of the PASETO specification (Version1–4.md, Common.md).
//! Imports nothing from rusty_paseto. Primitives come from different implementations than the
//! library's wherever the cargo cache offers one (see DESIGN.md §3.4).
#![allow(dead_code)]

pub mod blake2b;
pub mod chacha;

use base64::prelude::*;
use ring::signature::KeyPair;

pub fn b64e(b: &[u8]) -> String {
  BASE64_URL_SAFE_NO_PAD.encode(b)
}
pub fn b64d(s: &str) -> Option<Vec<u8>> {
  BASE64_URL_SAFE_NO_PAD.decode(s).ok()
}

/// Common.md: LE64 clears the most significant bit
pub fn le64(n: u64) -> [u8; 8] {
  (n & 0x7fff_ffff_ffff_ffff).to_le_bytes()
}

/// Common.md: PAE
pub fn pae(pieces: &[&[u8]]) -> Vec<u8> {
  let mut out = Vec::new();
  out.extend_from_slice(&le64(pieces.len() as u64));
  for p in pieces {
    out.extend_from_slice(&le64(p.len() as u64));
    out.extend_from_slice(p);
  }
  out
}

pub fn header(version: u8, local: bool) -> String {
  format!("v{}.{}.", version, if local { "local" } else { "public" })
}

fn assemble(h: &str, payload: &[u8], footer: &[u8]) -> String {
  if footer.is_empty() {
    format!("{}{}", h, b64e(payload))
  } else {
    format!("{}{}.{}", h, b64e(payload), b64e(footer))
  }
}

// ---------------------------------------------------------------- primitives

fn hmac_sha384(key: &[u8], data: &[u8]) -> Vec<u8> {
  let k = ring::hmac::Key::new(ring::hmac::HMAC_SHA384, key);
  ring::hmac::sign(&k, data).as_ref().to_vec()
}

fn hkdf_sha384(ikm: &[u8], salt: Option<&[u8]>, info: &[u8], len: usize) -> Vec<u8> {
  let hk = hkdf::Hkdf::<sha2::Sha384>::new(salt, ikm);
  let mut okm = vec![0u8; len];
  hk.expand(info, &mut okm).expect("valid hkdf length");
  okm
}

fn aes256ctr(key: &[u8], iv: &[u8], data: &[u8]) -> Vec<u8> {
  use ctr09::cipher::{KeyIvInit, StreamCipher};
  type C = ctr09::Ctr128BE<aes08::Aes256>;
  let mut c = C::new_from_slices(key, iv).expect("32-byte key, 16-byte iv");
  let mut out = data.to_vec();
  c.apply_keystream(&mut out);
  out
}

fn ct_eq(a: &[u8], b: &[u8]) -> bool {
  if a.len() != b.len() {
    return false;
  }
  let mut d = 0u8;
  for (x, y) in a.iter().zip(b.iter()) {
    d |= x ^ y;
  }
  d == 0
}

// ---------------------------------------------------------------- local

/// The nonce that goes on the wire, from the caller-supplied nonce material `n` and the message.
/// v1: HMAC-SHA384(key = n, m)[0..32]; v2: BLAKE2b(key = n, m, 24 bytes); v3/v4: n itself.
pub fn wire_nonce(version: u8, n: &[u8], msg: &[u8]) -> Vec<u8> {
  match version {
    1 => hmac_sha384(n, msg)[..32].to_vec(),
    2 => blake2b::blake2b(n, msg, 24),
    _ => n.to_vec(),
  }
}

/// Encrypt with the given *wire* nonce (32 bytes; v2: 24 bytes).
pub fn local_encrypt_wire(version: u8, key: &[u8; 32], nonce: &[u8], msg: &[u8], footer: &[u8], assertion: &[u8]) -> String {
  let h = header(version, true);
  let payload: Vec<u8> = match version {
    1 => {
      let ek = hkdf_sha384(key, Some(&nonce[..16]), b"paseto-encryption-key", 32);
      let ak = hkdf_sha384(key, Some(&nonce[..16]), b"paseto-auth-key-for-aead", 32);
      let c = aes256ctr(&ek, &nonce[16..32], msg);
      let pre = pae(&[h.as_bytes(), nonce, &c, footer]);
      let t = hmac_sha384(&ak, &pre);
      [nonce, &c, &t].concat()
    }
    2 => {
      let pre = pae(&[h.as_bytes(), nonce, footer]);
      let c = chacha::xchacha20poly1305_seal(key, nonce.try_into().expect("24-byte nonce"), &pre, msg);
      [nonce, &c].concat()
    }
    3 => {
      let tmp = hkdf_sha384(key, None, &[b"paseto-encryption-key".as_slice(), nonce].concat(), 48);
      let ak = hkdf_sha384(key, None, &[b"paseto-auth-key-for-aead".as_slice(), nonce].concat(), 48);
      let c = aes256ctr(&tmp[..32], &tmp[32..48], msg);
      let pre = pae(&[h.as_bytes(), nonce, &c, footer, assertion]);
      let t = hmac_sha384(&ak, &pre);
      [nonce, &c, &t].concat()
    }
    4 => {
      let tmp = blake2b::blake2b(key, &[b"paseto-encryption-key".as_slice(), nonce].concat(), 56);
      let ak = blake2b::blake2b(key, &[b"paseto-auth-key-for-aead".as_slice(), nonce].concat(), 32);
      let c = chacha::xchacha20_xor(tmp[..32].try_into().unwrap(), tmp[32..56].try_into().unwrap(), msg);
      let pre = pae(&[h.as_bytes(), nonce, &c, footer, assertion]);
      let t = blake2b::blake2b(&ak, &pre, 32);
      [nonce, &c, &t].concat()
    }
    _ => panic!("version"),
  };
  assemble(&h, &payload, footer)
}

/// Encrypt as the specification's algorithm does when handed nonce material `n`
/// (for v1/v2 the wire nonce is derived from `n` and the message).
pub fn local_encrypt(version: u8, key: &[u8; 32], n: &[u8], msg: &[u8], footer: &[u8], assertion: &[u8]) -> String {
  let wn = wire_nonce(version, n, msg);
  local_encrypt_wire(version, key, &wn, msg, footer, assertion)
}

pub fn local_decrypt(version: u8, key: &[u8; 32], token: &str, footer: &[u8], assertion: &[u8]) -> Result<Vec<u8>, String> {
  let h = header(version, true);
  let rest = token.strip_prefix(h.as_str()).ok_or("header")?;
  let mut it = rest.split('.');
  let payload = b64d(it.next().ok_or("payload")?).ok_or("base64")?;
  let f = match it.next() {
    Some(s) => b64d(s).ok_or("footer base64")?,
    None => vec![],
  };
  if it.next().is_some() {
    return Err("segments".into());
  }
  if !ct_eq(&f, footer) {
    return Err("footer mismatch".into());
  }
  let (nl, tl) = match version {
    1 | 3 => (32, 48),
    2 => (24, 0),
    _ => (32, 32),
  };
  if payload.len() < nl + tl + if version == 2 { 16 } else { 0 } {
    return Err("short".into());
  }
  let nonce = &payload[..nl];
  match version {
    2 => {
      let pre = pae(&[h.as_bytes(), nonce, footer]);
      chacha::xchacha20poly1305_open(key, nonce.try_into().unwrap(), &pre, &payload[nl..]).ok_or_else(|| "aead".to_string())
    }
    _ => {
      let c = &payload[nl..payload.len() - tl];
      let t = &payload[payload.len() - tl..];
      // recompute the tag by re-encrypting the recovered plaintext candidate is unnecessary: derive keys, check tag
      let (ek, iv, ak): (Vec<u8>, Vec<u8>, Vec<u8>) = match version {
        1 => (
          hkdf_sha384(key, Some(&nonce[..16]), b"paseto-encryption-key", 32),
          nonce[16..32].to_vec(),
          hkdf_sha384(key, Some(&nonce[..16]), b"paseto-auth-key-for-aead", 32),
        ),
        3 => {
          let tmp = hkdf_sha384(key, None, &[b"paseto-encryption-key".as_slice(), nonce].concat(), 48);
          (tmp[..32].to_vec(), tmp[32..].to_vec(), hkdf_sha384(key, None, &[b"paseto-auth-key-for-aead".as_slice(), nonce].concat(), 48))
        }
        _ => {
          let tmp = blake2b::blake2b(key, &[b"paseto-encryption-key".as_slice(), nonce].concat(), 56);
          (tmp[..32].to_vec(), tmp[32..].to_vec(), blake2b::blake2b(key, &[b"paseto-auth-key-for-aead".as_slice(), nonce].concat(), 32))
        }
      };
      let pre = if version == 1 { pae(&[h.as_bytes(), nonce, c, footer]) } else { pae(&[h.as_bytes(), nonce, c, footer, assertion]) };
      let t2 = if version == 4 { blake2b::blake2b(&ak, &pre, 32) } else { hmac_sha384(&ak, &pre) };
      if !ct_eq(t, &t2) {
        return Err("tag".into());
      }
      Ok(if version == 4 {
        chacha::xchacha20_xor(ek[..].try_into().unwrap(), iv[..].try_into().unwrap(), c)
      } else {
        aes256ctr(&ek, &iv, c)
      })
    }
  }
}

// ---------------------------------------------------------------- public

/// Secret/public key bytes in "reference" shapes.
pub enum RefSecret<'a> {
  /// PKCS#8 DER
  Rsa(&'a [u8]),
  /// 32-byte seed + 32-byte public key
  Ed { seed: &'a [u8], public: &'a [u8] },
  /// 48-byte scalar + 97-byte uncompressed point + 49-byte compressed point
  P384 { scalar: &'a [u8], uncompressed: &'a [u8], compressed: &'a [u8] },
}
pub enum RefPublic<'a> {
  /// PKCS#1 RSAPublicKey DER
  Rsa(&'a [u8]),
  Ed(&'a [u8]),
  P384 { uncompressed: &'a [u8], compressed: &'a [u8] },
}

fn signing_input(version: u8, pk_compressed: Option<&[u8]>, msg: &[u8], footer: &[u8], assertion: &[u8]) -> Vec<u8> {
  let h = header(version, false);
  match version {
    1 | 2 => pae(&[h.as_bytes(), msg, footer]),
    3 => pae(&[pk_compressed.expect("v3 needs the public key"), h.as_bytes(), msg, footer, assertion]),
    _ => pae(&[h.as_bytes(), msg, footer, assertion]),
  }
}

pub fn public_sign(version: u8, key: &RefSecret, msg: &[u8], footer: &[u8], assertion: &[u8]) -> Result<String, String> {
  let rng = ring::rand::SystemRandom::new();
  let sig: Vec<u8> = match (version, key) {
    (1, RefSecret::Rsa(der)) => {
      let kp = ring::signature::RsaKeyPair::from_pkcs8(der).map_err(|e| format!("rsa key: {e}"))?;
      let m2 = signing_input(1, None, msg, footer, assertion);
      let mut s = vec![0u8; kp.public().modulus_len()];
      kp.sign(&ring::signature::RSA_PSS_SHA384, &rng, &m2, &mut s).map_err(|_| "rsa sign")?;
      s
    }
    (2 | 4, RefSecret::Ed { seed, public }) => {
      let kp = ring::signature::Ed25519KeyPair::from_seed_and_public_key(seed, public).map_err(|e| format!("ed key: {e}"))?;
      let m2 = signing_input(version, None, msg, footer, assertion);
      kp.sign(&m2).as_ref().to_vec()
    }
    (3, RefSecret::P384 { scalar, uncompressed, compressed }) => {
      let kp = ring::signature::EcdsaKeyPair::from_private_key_and_public_key(&ring::signature::ECDSA_P384_SHA384_FIXED_SIGNING, scalar, uncompressed, &rng)
        .map_err(|e| format!("p384 key: {e}"))?;
      let m2 = signing_input(3, Some(compressed), msg, footer, assertion);
      kp.sign(&rng, &m2).map_err(|_| "ecdsa sign")?.as_ref().to_vec()
    }
    _ => return Err("key type does not match version".into()),
  };
  Ok(assemble(&header(version, false), &[msg, &sig].concat(), footer))
}

pub fn public_verify(version: u8, key: &RefPublic, token: &str, footer: &[u8], assertion: &[u8]) -> Result<Vec<u8>, String> {
  let h = header(version, false);
  let rest = token.strip_prefix(h.as_str()).ok_or("header")?;
  let mut it = rest.split('.');
  let payload = b64d(it.next().ok_or("payload")?).ok_or("base64")?;
  let f = match it.next() {
    Some(s) => b64d(s).ok_or("footer base64")?,
    None => vec![],
  };
  if it.next().is_some() {
    return Err("segments".into());
  }
  if !ct_eq(&f, footer) {
    return Err("footer mismatch".into());
  }
  let sl = match version {
    1 => 256,
    3 => 96,
    _ => 64,
  };
  if payload.len() < sl {
    return Err("short".into());
  }
  let (msg, sig) = payload.split_at(payload.len() - sl);
  match (version, key) {
    (1, RefPublic::Rsa(der)) => {
      let m2 = signing_input(1, None, msg, footer, assertion);
      ring::signature::UnparsedPublicKey::new(&ring::signature::RSA_PSS_2048_8192_SHA384, der).verify(&m2, sig).map_err(|_| "rsa verify")?;
    }
    (2 | 4, RefPublic::Ed(pk)) => {
      let m2 = signing_input(version, None, msg, footer, assertion);
      ring::signature::UnparsedPublicKey::new(&ring::signature::ED25519, pk).verify(&m2, sig).map_err(|_| "ed25519 verify")?;
    }
    (3, RefPublic::P384 { uncompressed, compressed }) => {
      let m2 = signing_input(3, Some(compressed), msg, footer, assertion);
      ring::signature::UnparsedPublicKey::new(&ring::signature::ECDSA_P384_SHA384_FIXED, uncompressed).verify(&m2, sig).map_err(|_| "ecdsa verify")?;
    }
    _ => return Err("key type does not match version".into()),
  }
  Ok(msg.to_vec())
}

// ---------------------------------------------------------------- self-test (pins the reference)

const VECTORS: &str = include_str!(concat!(env!("CARGO_MANIFEST_DIR"), "/../fixtures/official_vectors.json"));

fn h2b(s: &str) -> Vec<u8> {
  hex::decode(s).expect("hex in fixtures")
}

/// Returns Err(description) if the reference disagrees with any pinned vector or primitive test.
pub fn selftest() -> Result<usize, String> {
  // RFC 7693 appendix A: BLAKE2b-512("abc")
  let abc = blake2b::blake2b(&[], b"abc", 64);
  if hex::encode(&abc)
    != "ba80a53f981c4d0d6a2797b69f12f6e94c212f14685ac4b74b12bb6fdbffa2d17d87c5392aab792dc252d5de4533cc9518d38aa8dbf1925ab92386edd4009923"
  {
    return Err("BLAKE2b RFC 7693 'abc' vector".into());
  }
  // differential against the blake2 crate on keyed inputs at the output sizes PASETO uses (and unkeyed, variable)
  {
    use blake2::digest::consts::{U24, U32, U56, U64};
    use blake2::digest::{FixedOutput, KeyInit, Update, VariableOutput};
    macro_rules! keyed {
      ($U:ty, $ol:expr, $kl:expr, $dl:expr) => {{
        let key: Vec<u8> = (0..$kl).map(|i| (i * 7 + 1) as u8).collect();
        let data: Vec<u8> = (0..$dl).map(|i| (i * 13 + 5) as u8).collect();
        let mut h = <blake2::Blake2bMac<$U> as KeyInit>::new_from_slice(&key).map_err(|_| "blake2 crate key")?;
        Update::update(&mut h, &data);
        let theirs = h.finalize_fixed().to_vec();
        if blake2b::blake2b(&key, &data, $ol) != theirs {
          return Err(format!("BLAKE2b differs from the blake2 crate for key {}, data {}, out {}", $kl, $dl, $ol));
        }
      }};
    }
    for dl in [0usize, 1, 53, 56, 127, 128, 129, 255, 256, 257, 1000] {
      keyed!(U24, 24, 24, dl);
      keyed!(U24, 24, 32, dl);
      keyed!(U32, 32, 32, dl);
      keyed!(U56, 56, 32, dl);
      keyed!(U64, 64, 64, dl);
      keyed!(U32, 32, 1, dl);
      for ol in [1usize, 24, 33, 64] {
        let data: Vec<u8> = (0..dl).map(|i| (i * 13 + 5) as u8).collect();
        let mut hh = blake2::Blake2bVar::new(ol).map_err(|_| "blake2 crate")?;
        hh.update(&data);
        let mut out = vec![0u8; ol];
        hh.finalize_variable(&mut out).map_err(|_| "blake2 crate")?;
        if blake2b::blake2b(&[], &data, ol) != out {
          return Err(format!("unkeyed BLAKE2b differs from the blake2 crate for data {dl}, out {ol}"));
        }
      }
    }
  }
  // RFC 8439 §2.3.2 ChaCha20 block function test vector
  {
    let key: [u8; 32] = core::array::from_fn(|i| i as u8);
    let nonce = [0, 0, 0, 9, 0, 0, 0, 0x4a, 0, 0, 0, 0];
    let b = chacha::chacha20_block(&key, 1, &nonce);
    if hex::encode(&b[..16]) != "10f1e7e4d13b5915500fdd1fa32071c4" {
      return Err("ChaCha20 block RFC 8439 2.3.2".into());
    }
    // draft-irtf-cfrg-xchacha §2.2.1 HChaCha20
    let n16 = h2b("000000090000004a0000000031415927");
    let sub = chacha::hchacha20(&key, n16[..].try_into().unwrap());
    if hex::encode(sub) != "82413b4227b27bfed30e42508a877d73a0f9e4d58a74a853c12ec41326d3ecdc" {
      return Err("HChaCha20 draft vector".into());
    }
  }
  let vectors: serde_json::Value = serde_json::from_str(VECTORS).map_err(|e| e.to_string())?;
  let mut n = 0;
  for v in vectors.as_array().ok_or("vectors")? {
    let name = v["name"].as_str().unwrap_or("?");
    let version = v["version"].as_u64().unwrap() as u8;
    let token = v["token"].as_str().unwrap();
    let msg = v["message"].as_str().unwrap().as_bytes();
    let footer = v["footer"].as_str().unwrap().as_bytes();
    let assertion = v["assertion"].as_str().unwrap().as_bytes();
    if v["purpose"] == "local" {
      let key: [u8; 32] = h2b(v["key"].as_str().unwrap())[..].try_into().unwrap();
      let nonce = h2b(v["nonce"].as_str().unwrap());
      let t = local_encrypt(version, &key, &nonce, msg, footer, assertion);
      if t != token {
        return Err(format!("{name}: reference encrypt differs from the official vector"));
      }
      let back = local_decrypt(version, &key, token, footer, assertion).map_err(|e| format!("{name}: reference decrypt failed: {e}"))?;
      if back != msg {
        return Err(format!("{name}: reference decrypt returned another message"));
      }
    } else {
      let sk = h2b(v["secret"].as_str().unwrap());
      let pk = h2b(v["public"].as_str().unwrap());
      match version {
        2 | 4 => {
          let back = public_verify(version, &RefPublic::Ed(&pk), token, footer, assertion).map_err(|e| format!("{name}: reference verify failed: {e}"))?;
          if back != msg {
            return Err(format!("{name}: reference verify returned another message"));
          }
          let t = public_sign(version, &RefSecret::Ed { seed: &sk[..32], public: &pk }, msg, footer, assertion)?;
          if t != token {
            return Err(format!("{name}: reference Ed25519 signature differs from the official vector"));
          }
        }
        _ => {
          use p384::elliptic_curve::sec1::ToEncodedPoint;
          let point = p384::PublicKey::from_sec1_bytes(&pk).map_err(|_| "p384 public")?;
          let unc = point.to_encoded_point(false);
          let back = public_verify(3, &RefPublic::P384 { uncompressed: unc.as_bytes(), compressed: &pk }, token, footer, assertion)
            .map_err(|e| format!("{name}: reference verify failed: {e}"))?;
          if back != msg {
            return Err(format!("{name}: reference verify returned another message"));
          }
          let t = public_sign(3, &RefSecret::P384 { scalar: &sk, uncompressed: unc.as_bytes(), compressed: &pk }, msg, footer, assertion)?;
          public_verify(3, &RefPublic::P384 { uncompressed: unc.as_bytes(), compressed: &pk }, &t, footer, assertion)
            .map_err(|e| format!("{name}: reference cannot verify its own signature: {e}"))?;
        }
      }
    }
    n += 1;
  }
  // RSA: sign/verify with a fixture key (no official token to compare: PSS is randomised)
  let (sk, pk) = crate::keys::RSA_POOL[6];
  let t = public_sign(1, &RefSecret::Rsa(sk), b"{\"data\":\"x\"}", b"f", b"")?;
  public_verify(1, &RefPublic::Rsa(pk), &t, b"f", b"").map_err(|e| format!("rsa self round trip: {e}"))?;
  Ok(n)
}
