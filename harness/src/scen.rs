//! Schedules as input. Self-checking miniature scenarios - one per property, a pure function of (thread, round) - driven
//! in two ways that no generated *value* reaches:
//!   * threads at a gate: N threads, released together round after round, each running its scenario on objects of its
//!     own (nothing is shared by the harness: whatever couples the threads is inside the library);
//!   * first use in a process: fresh helper processes whose very first library calls are those scenarios, on several
//!     threads released together (lazily initialised process-wide state is initialised once per process).
//! The oracle of each scenario is the property's own (round trip, refusal of the related-but-different input, model of
//! the builder defaults ...), in its simplest form; the main checks explore the values, these explore the schedule.
#![allow(dead_code)]

use crate::engine::*;
use crate::keys;
use crate::proto::*;
use crate::rt::{layer_build, layer_parse};
use rusty_paseto::prelude::{PasetoClaimError, ValidatorFn};
use serde::{Deserialize, Serialize};
use serde_json::{json, Value};
use std::sync::atomic::{AtomicU32, Ordering};

/// properties that have a scenario
pub const PROPS: [&str; 17] = ["C01", "C02", "C03", "C04", "C05", "C06", "C07", "C08", "C10", "C11", "C12", "C13", "C14", "C15", "C16", "C17", "C18"];

pub fn has(prop: &str) -> bool {
  PROPS.contains(&prop)
}

fn seed_for(t: usize, r: usize, salt: u8) -> [u8; 32] {
  let mut s = [salt; 32];
  s[0] = t as u8;
  s[1] = r as u8;
  s[2] = (r >> 8) as u8;
  s[5] = (t as u8).wrapping_mul(29).wrapping_add(r as u8);
  s
}

fn message(t: usize, r: usize) -> String {
  format!("m{}-{}-{}", t, r, "\u{e9}x.".repeat((t * 37 + r * 11) % 90))
}

fn scen_validator(_key: &str, v: &Value) -> Result<(), PasetoClaimError> {
  if v == &json!("reject-me") {
    Err(PasetoClaimError::CustomValidation("scenario".into()))
  } else {
    Ok(())
  }
}
const SCEN_VALIDATOR: &ValidatorFn = &scen_validator;
fn requires_fine(_key: &str, v: &Value) -> Result<(), PasetoClaimError> {
  if v.as_str() == Some("fine") {
    Ok(())
  } else {
    Err(PasetoClaimError::CustomValidation("scenario: not fine".into()))
  }
}
const REQUIRES_FINE: &ValidatorFn = &requires_fine;

fn err<T>(code: &str, detail: String) -> Result<T, String> {
  Err(format!("{code}: {detail}"))
}

/// protocols ordered so that the expensive ones (RSA, P-384) come up, but not in every round
fn proto_of(prop: &str, t: usize, r: usize, light: bool) -> Proto {
  let i = t + r;
  match prop {
    "C01" => Proto::LOCAL[i % 4],
    "C02" => {
      if light || i % 6 != 5 {
        [Proto::V4P, Proto::V2P][i % 2]
      } else {
        [Proto::V3P, Proto::V1P][(i / 6) % 2]
      }
    }
    "C06" => {
      if light {
        [Proto::V4L, Proto::V3L, Proto::V4P][i % 3]
      } else {
        [Proto::V4L, Proto::V3L, Proto::V4P, Proto::V3P][i % 4]
      }
    }
    "C10" => Proto::LOCAL[i % 4],
    _ => {
      if light || i % 5 != 4 {
        [Proto::V4L, Proto::V2L, Proto::V3L, Proto::V1L, Proto::V4P, Proto::V2P][i % 6]
      } else {
        [Proto::V3P, Proto::V1P][(i / 5) % 2]
      }
    }
  }
}

/// One scenario of `prop` for (thread t, round r). Ok(items) - the property held; `items` must be distinct from every other
/// item observed in the process (nonces, C10). Err("code: detail") - it did not.
///
/// `cp(k)` is called at three points of every scenario - 0: before anything of the library has run, 1: key objects exist,
/// nothing is built yet, 2: the token exists, nothing is parsed yet - so that the driver can line the threads up right
/// before any of the three phases (what races is whatever each phase does FIRST).
pub fn scenario(prop: &str, t: usize, r: usize, light: bool, cp: &dyn Fn(u8)) -> Result<Vec<String>, String> {
  cp(0);
  let p = proto_of(prop, t, r, light);
  let layer = Layer::ALL[(t / 2 + r) % 3];
  let km = keys::material(p, &seed_for(t, r, 7));
  let lk = km.lib().map_err(|e| format!("harness: {}", e.text))?;
  let msg = message(t, r);
  // (a JSON footer whose member names are claim names - what it says is not a claim: "exp" far in the future, "nbf" long
  // past, the seat the parser expects, a value validators accept)
  let footer = match r % 4 {
    0 => Some(format!("{{\"kid\":\"f{t}-{r}\"}}")),
    2 => Some(format!("{{\"kid\":\"f{t}\",\"exp\":\"2999-01-01T00:00:00Z\",\"nbf\":\"1999-01-01T00:00:00Z\",\"seat\":{},\"data\":\"footer\",\"absent\":\"fine\"}}", t * 1000 + r + 1)),
    _ => None,
  };
  let assertion = if p.has_assertion() && (t + r) % 3 != 0 { Some(format!("a{t}-{r}")) } else { None };
  let nonce: Vec<u8> = (0..32u8).map(|i| i.wrapping_mul(7).wrapping_add((t * 31 + r) as u8)).collect();
  let what = format!("{} {} thread {} round {}", p.label(), layer.label(), t, r);
  cp(1);
  let build = |layer: Layer| {
    let token = layer_build(p, layer, &lk, &nonce, &msg, footer.as_deref(), assertion.as_deref()).map_err(|e| format!("build-failed: {what}: {}", e.text));
    cp(2);
    token
  };
  match prop {
    "C01" | "C02" => {
      let token = build(layer)?;
      match layer_parse(p, layer, &lk, &token, footer.as_deref(), assertion.as_deref()) {
        Ok(out) if out.message().as_deref() == Some(msg.as_str()) => Ok(vec![]),
        Ok(out) => err("round-trip-differs", format!("{what}: put in {:?}, got back {:?}", msg, out.message())),
        Err(e) => err("parse-failed", format!("{what}: authentic token refused under the same key, footer and assertion: {}", e.text)),
      }
    }
    "C08" => {
      // a token made by the independent transcription of the specification is read by the library, at every layer
      let seed = seed_for(t, r, 7);
      let text = if layer == Layer::Core { msg.clone() } else { json!({ "data": msg }).to_string() };
      let token = crate::c09::reference_token(p, &seed, text.as_bytes(), footer.as_deref().unwrap_or("").as_bytes()).ok_or("harness: reference could not sign")?;
      cp(2);
      match layer_parse(p, if layer == Layer::Prelude { Layer::Generic } else { layer }, &lk, &token, footer.as_deref(), None) {
        Ok(out) if layer == Layer::Core && out.message().as_deref() == Some(msg.as_str()) => Ok(vec![]),
        Ok(crate::rt::LayerOut::Json(v)) if v.get("data") == Some(&json!(msg)) => Ok(vec![]),
        Ok(out) => err("ref-token-reads-differently", format!("{what}: the specification's token for {:?} was read as {:?}", msg, out.message())),
        Err(e) => err("ref-token-rejected", format!("{what}: a token built by the specification's algorithm was refused: {}", e.text)),
      }
    }
    "C03" => {
      let token = build(layer)?;
      let (header, body, foot) = split_token(&token).ok_or("harness: token does not split")?;
      let mut bytes = unb64(&body).ok_or("harness: payload is not base64url")?;
      let i = (t * 131 + r * 17) % bytes.len();
      bytes[i] ^= 1 << ((t + r) % 8);
      let forged = join_token(&header, &bytes, foot.as_deref());
      match layer_parse(p, layer, &lk, &forged, footer.as_deref(), assertion.as_deref()) {
        Err(_) => Ok(vec![]),
        Ok(_) => err("forged-accepted", format!("{what}: a token with bit {} of payload byte {} flipped was accepted", (t + r) % 8, i)),
      }
    }
    "C04" => {
      let token = build(layer)?;
      let other = keys::material(p, &seed_for(t + 1, r, 9));
      if keys::key_bytes(p, &seed_for(t + 1, r, 9)).1 == keys::key_bytes(p, &seed_for(t, r, 7)).1 {
        return Ok(vec![]); // the RSA pool handed out the same key pair
      }
      let ok = other.lib().map_err(|e| format!("harness: {}", e.text))?;
      match layer_parse(p, layer, &ok, &token, footer.as_deref(), assertion.as_deref()) {
        Err(_) => Ok(vec![]),
        Ok(_) => err("other-key-accepted", format!("{what}: the token was accepted under another key")),
      }
    }
    "C05" => {
      let token = build(layer)?;
      let wrong = format!("{}x", footer.clone().unwrap_or_default());
      match layer_parse(p, layer, &lk, &token, Some(&wrong), assertion.as_deref()) {
        Err(_) => Ok(vec![]),
        Ok(_) => err("other-footer-accepted", format!("{what}: built with footer {:?}, accepted with {:?}", footer, wrong)),
      }
    }
    "C06" => {
      let token = build(layer)?;
      let wrong = format!("{}x", assertion.clone().unwrap_or_default());
      match layer_parse(p, layer, &lk, &token, footer.as_deref(), Some(&wrong)) {
        Err(_) => Ok(vec![]),
        Ok(_) => err("other-assertion-accepted", format!("{what}: built with assertion {:?}, accepted with {:?}", assertion, wrong)),
      }
    }
    "C07" => {
      let token = build(layer)?;
      // the same text under the header of the sibling protocol (same purpose), judged by the sibling's parser with key
      // material made from the same seed
      let q = Proto::ALL.iter().copied().filter(|q| q.is_local() == p.is_local() && *q != p).nth((t + r) % 3).unwrap();
      let relabelled = format!("{}{}", q.header(), &token[p.header().len()..]);
      let qm = keys::material(q, &seed_for(t, r, 7));
      let qk = qm.lib().map_err(|e| format!("harness: {}", e.text))?;
      let a = if q.has_assertion() { assertion.as_deref() } else { None };
      for candidate in [&token, &relabelled] {
        if layer_parse(q, layer, &qk, candidate, footer.as_deref(), a).is_ok() {
          return err("other-protocol-accepted", format!("{what}: a {} token{} was accepted by {}", p.label(), if candidate == &token { "" } else { " (relabelled)" }, q.label()));
        }
      }
      Ok(vec![])
    }
    "C10" => {
      let l = if layer == Layer::Core { Layer::Generic } else { layer };
      let shared = keys::material(p, &[42u8; 32]);
      let sk = shared.lib().map_err(|e| format!("harness: {}", e.text))?;
      let mut items = vec![];
      for _ in 0..3 {
        let token = layer_build(p, l, &sk, &nonce, "same message", None, None).map_err(|e| format!("build-failed: {what}: {}", e.text))?;
        let (_, body, _) = split_token(&token).ok_or("harness: token does not split")?;
        let bytes = unb64(&body).ok_or("harness: payload is not base64url")?;
        items.push(format!("{}:{}", p.label(), hex::encode(&bytes[..24.min(bytes.len())])));
      }
      Ok(items)
    }
    "C11" | "C12" => {
      let bad = (t + r) % 2 == 0;
      let (exp, nbf) = match (prop, bad) {
        ("C11", true) => ("2001-01-01T00:00:00Z", "2000-01-01T00:00:00Z"),
        ("C12", true) => ("2999-01-01T00:00:00Z", "2998-01-01T00:00:00Z"),
        _ => ("2999-01-01T00:00:00Z", "2000-01-01T00:00:00Z"),
      };
      let specs = [ClaimSpec::Exp(exp.into()), ClaimSpec::Nbf(nbf.into()), ClaimSpec::Custom("data".into(), json!(msg))];
      // the parser also expects k further claims, all of them in the token (k around 64 and beyond: the time rules are two
      // of k + 2 rules)
      let lookalikes = [ClaimSpec::Custom("\u{ff4e}\u{ff42}\u{ff46}".into(), Value::Null), ClaimSpec::Custom("\u{ff45}\u{ff58}\u{ff50}".into(), Value::Null), ClaimSpec::Custom("nbf\u{200b}".into(), Value::Null), ClaimSpec::Custom("e\u{200d}xp".into(), Value::Null), ClaimSpec::Custom("exp\u{fe0f}".into(), Value::Null)];
      let k = [0usize, 1, 5, 62, 63, 64, 65, 200][(t / 2 + r) % 8];
      let extra: Vec<ClaimSpec> = (0..k).map(|j| ClaimSpec::CustomOwned(format!("x{j}"), json!(j))).collect();
      let token = {
        let mut b = new_builder(p, Layer::Generic);
        for s in specs.iter().chain(extra.iter()) {
          b.set(s).map_err(|e| format!("harness: {}", e.text))?;
        }
        if let Some(f) = &footer {
          b.footer(f);
        }
        b.build(&lk).map_err(|e| format!("build-failed: {what}: {}", e.text))?
      };
      cp(2);
      let mut parser = new_parser(p, Layer::Prelude);
      if let Some(f) = &footer {
        parser.footer(f);
      }
      for s in &extra {
        parser.check(s).map_err(|e| format!("harness: {}", e.text))?;
      }
      // accepting validators for claims whose names only LOOK like exp / nbf (full-width letters, zero-width characters):
      // claims of their own, absent from this token - the time rules stay what they are
      if (t + r) % 3 == 1 {
        for s in &lookalikes {
          let _ = parser.validate(s, VALIDATOR_ACCEPTS);
        }
      }
      match (parser.parse(&token, &lk), bad) {
        (Err(_), true) | (Ok(_), false) => Ok(vec![]),
        (Ok(_), true) => err("time-rule-not-applied", format!("{what}: a token with exp {exp} / nbf {nbf} was accepted by PasetoParser::default() (which also expected {k} other claims, all present; footer {:?})", footer)),
        (Err(e), false) => err("valid-token-refused", format!("{what}: a token with exp {exp} / nbf {nbf} was refused: {}", e.text)),
      }
    }
    "C13" => {
      use time::format_description::well_known::Rfc3339;
      let before = time::OffsetDateTime::now_utc();
      let token = {
        let mut b = new_builder(p, Layer::Prelude);
        b.build(&lk).map_err(|e| format!("build-failed: {what}: {}", e.text))?
      };
      let after = time::OffsetDateTime::now_utc();
      cp(2);
      let mut parser = new_parser(p, Layer::Generic);
      let v = parser.parse(&token, &lk).map_err(|e| format!("parse-failed: {what}: {}", e.text))?;
      let get = |k: &str| v.get(k).and_then(|x| x.as_str()).and_then(|s| time::OffsetDateTime::parse(s, &Rfc3339).ok());
      match (get("iat"), get("nbf"), get("exp")) {
        (Some(iat), Some(nbf), Some(exp)) => {
          if iat != nbf || exp - iat != time::Duration::hours(1) || iat < before - time::Duration::seconds(1) || iat > after + time::Duration::seconds(1) {
            return err("defaults-differ", format!("{what}: built between {before} and {after}: payload {v}"));
          }
          Ok(vec![])
        }
        _ => err("defaults-missing", format!("{what}: payload {v}")),
      }
    }
    "C14" => {
      let specs = [
        ClaimSpec::Custom("a".into(), json!(t)),
        ClaimSpec::CustomOwned(format!("k{r}"), json!({"t": t, "list": [r, msg.clone()], "deep": {"x": [[], {}]}})),
        ClaimSpec::Custom("data".into(), json!(msg)),
      ];
      let token = {
        let mut b = new_builder(p, Layer::Generic);
        for s in &specs {
          b.set(s).map_err(|e| format!("harness: {}", e.text))?;
        }
        b.build(&lk).map_err(|e| format!("build-failed: {what}: {}", e.text))?
      };
      cp(2);
      let mut parser = new_parser(p, Layer::Generic);
      let v = parser.parse(&token, &lk).map_err(|e| format!("parse-failed: {what}: {}", e.text))?;
      let want: serde_json::Map<String, Value> = specs.iter().map(|s| (s.key().to_string(), s.expected())).collect();
      if v != Value::Object(want.clone()) {
        return err("claims-differ", format!("{what}: set {} got {}", Value::Object(want), v));
      }
      Ok(vec![])
    }
    "C15" | "C16" => {
      let bad = (t + r) % 2 == 0;
      // C16, every fourth time: the token is fine but a second validator is registered for a claim the payload does not
      // have (the footer has a member of that name): it is handed null, which it rejects
      let absent_case = prop == "C16" && !bad && (t + r) % 4 == 1;
      let in_token = if prop == "C15" { json!(t * 1000 + r) } else if bad { json!("reject-me") } else { json!(format!("fine-{t}-{r}")) };
      let specs = [ClaimSpec::Custom("seat".into(), in_token.clone()), ClaimSpec::Custom("data".into(), json!(msg))];
      let expected = ClaimSpec::Custom("seat".into(), if bad { json!(t * 1000 + r + 1) } else { in_token.clone() });
      let absent = ClaimSpec::Custom("absent".into(), Value::Null);
      let token = {
        let mut b = new_builder(p, Layer::Generic);
        for s in &specs {
          b.set(s).map_err(|e| format!("harness: {}", e.text))?;
        }
        if let Some(f) = &footer {
          b.footer(f);
        }
        b.build(&lk).map_err(|e| format!("build-failed: {what}: {}", e.text))?
      };
      cp(2);
      let mut parser = new_parser(p, Layer::Generic);
      // the footer is set before or after the expectations (independent settings: the order is nobody's business)
      let footer_last = (t + r) % 3 == 0;
      if let (Some(f), false) = (&footer, footer_last) {
        parser.footer(f);
      }
      if prop == "C15" {
        parser.check(&expected).map_err(|e| format!("harness: {}", e.text))?;
      } else {
        parser.validate(&expected, SCEN_VALIDATOR).map_err(|e| format!("harness: {}", e.text))?;
        if absent_case {
          parser.validate(&absent, REQUIRES_FINE).map_err(|e| format!("harness: {}", e.text))?;
        }
      }
      if let (Some(f), true) = (&footer, footer_last) {
        parser.footer(f);
      }
      match (parser.parse(&token, &lk), bad || absent_case) {
        (Err(_), true) | (Ok(_), false) => Ok(vec![]),
        (Ok(_), true) if absent_case => err("absent-claim-validated", format!("{what}: the payload has no member \"absent\" (the footer {:?} has), the validator registered for it accepts only the text \"fine\"; accepted", footer)),
        (Ok(_), true) => err("mismatch-accepted", format!("{what}: token carries seat = {in_token} (footer {:?}), the parser {} and accepted", footer, if prop == "C15" { "expects another value" } else { "has a validator that rejects it" })),
        (Err(e), false) => err("match-refused", format!("{what}: token carries seat = {in_token}, which is what the parser expects / its validator accepts: {}", e.text)),
      }
    }
    "C17" => {
      let dup = (t + r) % 2 == 0;
      let k = format!("claim-{}-{}", t % 3, r % 5);
      let specs = [ClaimSpec::CustomOwned(k.clone(), json!(1)), ClaimSpec::CustomOwned(if dup { k.clone() } else { format!("{k}-other") }, json!(2)), ClaimSpec::Sub(format!("s{t}"))];
      let mut b = new_builder(p, Layer::Prelude);
      cp(2);
      for s in &specs {
        let _ = b.set(s);
      }
      match (b.build(&lk), dup) {
        (Err(e), true) if e.class == ErrClass::Duplicate => Ok(vec![]),
        (Ok(_), false) => Ok(vec![]),
        (Ok(_), true) => err("duplicate-built", format!("{what}: {k:?} was supplied twice and build returned a token")),
        (Err(e), _) => err("build-failed", format!("{what}: keys {:?}: {}", specs.iter().map(|s| s.key().to_string()).collect::<Vec<_>>(), e.text)),
      }
    }
    "C18" => {
      use rusty_paseto::prelude::CustomClaim;
      let name = ["iss", "sub", "aud", "exp", "nbf", "iat", "jti"][(t + r) % 7];
      let other = format!("{name}{t}");
      let refused = match t % 3 {
        0 => CustomClaim::try_from((name, 1)).is_err(),
        1 => CustomClaim::<&str>::try_from(name).is_err(),
        _ => CustomClaim::try_from((name.to_string(), "v")).is_err(),
      };
      if !refused {
        return err("reserved-key-accepted", format!("thread {t} round {r}: a custom claim named {name:?} was constructed"));
      }
      if CustomClaim::try_from((other.as_str(), 1)).is_err() {
        return err("unreserved-key-refused", format!("thread {t} round {r}: a custom claim named {other:?} was refused"));
      }
      Ok(vec![])
    }
    _ => Ok(vec![]),
  }
}

// ---------------------------------------------------------------- a validator that parses a token nested in the claim it validates

struct Nest {
  level: i64,
  salt: u8,
  light: bool,
  seen: Option<String>,
}
thread_local! {
  static NEST: std::cell::RefCell<Nest> = std::cell::RefCell::new(Nest { level: -1, salt: 0, light: true, seen: None });
}

fn level_proto(i: i64, light: bool) -> Proto {
  if light {
    [Proto::V4L, Proto::V2L][(i as usize) % 2]
  } else {
    [Proto::V4L, Proto::V2L, Proto::V3L, Proto::V4P, Proto::V1L, Proto::V2P, Proto::V3P][(i as usize) % 7]
  }
}
fn level_layer(i: i64) -> Layer {
  if i % 3 == 2 {
    Layer::Prelude
  } else {
    Layer::Generic
  }
}
fn level_seed(i: i64, salt: u8) -> [u8; 32] {
  let mut s = [salt; 32];
  s[3] = i as u8;
  s
}

/// validates the claim "inner": a token one level further in (or the empty string at the innermost level), parsed here -
/// inside the outer parser's validation - by a parser of its own that carries this validator again
fn nested_validator(_key: &str, v: &Value) -> Result<(), PasetoClaimError> {
  let token = match v.as_str() {
    Some(s) => s.to_string(),
    None => return Err(PasetoClaimError::CustomValidation(format!("the validator for \"inner\" was handed {v}"))),
  };
  if token.is_empty() {
    return Ok(());
  }
  let (level, salt, light) = NEST.with(|n| {
    let mut n = n.borrow_mut();
    n.level += 1;
    (n.level, n.salt, n.light)
  });
  let p = level_proto(level, light);
  let km = keys::material(p, &level_seed(level, salt));
  let lk = km.lib().map_err(|e| PasetoClaimError::CustomValidation(format!("harness: {}", e.text)))?;
  let inner = ClaimSpec::Custom("inner".into(), Value::Null);
  let mut parser = new_parser(p, level_layer(level));
  let _ = parser.validate(&inner, NESTED_VALIDATOR);
  match parser.parse(&token, &lk) {
    Ok(v) => {
      if v.get("level") != Some(&json!(level)) {
        return Err(PasetoClaimError::CustomValidation(format!("level {level}: the nested token's claims are {v}")));
      }
      if let Some(m) = v.get("msg").and_then(|m| m.as_str()) {
        NEST.with(|n| n.borrow_mut().seen = Some(m.to_string()));
      }
      Ok(())
    }
    Err(e) => Err(PasetoClaimError::CustomValidation(format!("level {level} ({} {}): authentic nested token refused: {}", p.label(), level_layer(level).label(), e.text))),
  }
}
const NESTED_VALIDATOR: &ValidatorFn = &nested_validator;

/// Tokens nested `depth` levels deep (each level another protocol / layer / key; the claim "inner" of level i carries the
/// token of level i+1), read from the outside in by validators that parse. Nothing in the properties limits where a parse
/// may be called from: every level is an authentic token under its own key and must be accepted (C01/C02), every
/// validator must see its claim (C16).
pub fn nested(t: usize, r: usize, light: bool) -> Result<Vec<String>, String> {
  let depth = 1 + ((t * 7 + r) % if light { 18 } else { 24 }) as i64;
  let salt = (t * 13 + r) as u8;
  let msg = message(t, r);
  let mut token = String::new();
  for level in (0..=depth).rev() {
    let p = level_proto(level, light);
    let km = keys::material(p, &level_seed(level, salt));
    let lk = km.lib().map_err(|e| format!("harness: {}", e.text))?;
    let mut specs = vec![ClaimSpec::Custom("level".into(), json!(level)), ClaimSpec::Custom("inner".into(), json!(token))];
    if level == depth {
      specs.push(ClaimSpec::Custom("msg".into(), json!(msg)));
    }
    if level_layer(level) == Layer::Prelude {
      specs.push(ClaimSpec::Nbf(crate::rt::PAST_NBF.into()));
    }
    let mut b = new_builder(p, level_layer(level));
    for s in &specs {
      b.set(s).map_err(|e| format!("harness: {}", e.text))?;
    }
    token = b.build(&lk).map_err(|e| format!("build-failed: nested level {level} {}: {}", p.label(), e.text))?;
  }
  for pass in 0..if light { 2 } else { 3 } {
    NEST.with(|n| *n.borrow_mut() = Nest { level: -1, salt, light, seen: None });
    if let Err(e) = nested_validator("inner", &json!(token)) {
      return err("nested-parse-failed", format!("tokens nested {depth} deep, read by validators that parse (thread {t}, round {r}, pass {pass}): {e:?}"));
    }
    let (level, seen) = NEST.with(|n| (n.borrow().level, n.borrow().seen.clone()));
    if level != depth || seen.as_deref() != Some(msg.as_str()) {
      return err("nested-parse-incomplete", format!("tokens nested {depth} deep (thread {t}, round {r}, pass {pass}): validators reached level {level} and saw {seen:?} instead of {msg:?}"));
    }
  }
  Ok(vec![])
}

/// runs a helper to its end, or kills it after `secs`
pub fn output_with_timeout(cmd: &mut std::process::Command, secs: u64) -> Option<(Option<std::process::ExitStatus>, String)> {
  use std::io::Read;
  let mut child = cmd.stdout(std::process::Stdio::piped()).stderr(std::process::Stdio::null()).stdin(std::process::Stdio::null()).spawn().ok()?;
  let mut out = child.stdout.take()?;
  let reader = std::thread::spawn(move || {
    let mut s = String::new();
    let _ = out.read_to_string(&mut s);
    s
  });
  let start = std::time::Instant::now();
  let status = loop {
    match child.try_wait() {
      Ok(Some(st)) => break Some(st),
      Ok(None) if start.elapsed().as_secs() >= secs => {
        let _ = child.kill();
        let _ = child.wait();
        break None;
      }
      Ok(None) => std::thread::sleep(std::time::Duration::from_millis(2)),
      Err(_) => break None,
    }
  };
  Some((status, reader.join().unwrap_or_default()))
}

fn code_of(e: &str) -> String {
  e.split(':').next().unwrap_or("?").trim().to_string()
}

// ---------------------------------------------------------------- threads at a gate (in this process)

#[derive(Clone, Debug, Serialize, Deserialize)]
pub struct GateCase {
  pub threads: u8,
  pub rounds: u32,
  /// added to the round number: another slice of the scenario space
  pub shift: u32,
}

pub struct Gate {
  pub prop: &'static str,
}

impl Sub for Gate {
  type Case = GateCase;
  fn name(&self) -> String {
    format!("{}/threads-at-a-gate", self.prop)
  }
  fn check(&self, c: &GateCase, cl: &mut Classes) -> Verdict {
    let threads = c.threads.clamp(2, 64) as usize;
    let rounds = c.rounds.min(100_000);
    let (arrived, gate) = (AtomicU32::new(0), AtomicU32::new(0));
    let (arrived, gate) = (&arrived, &gate);
    let prop = self.prop;
    let shift = c.shift as usize;
    let results: Vec<(Option<(u32, String)>, Vec<String>)> = std::thread::scope(|sc| {
      let hs: Vec<_> = (0..threads)
        .map(|t| {
          sc.spawn(move || {
            let mut items = vec![];
            for r in 0..rounds {
              // the threads line up before phase r % 3 of the scenario (start / build / parse)
              let passed = std::cell::Cell::new(false);
              let line_up = |k: u8| {
                if k as u32 == r % 3 && !passed.get() {
                  passed.set(true);
                  arrived.fetch_add(1, Ordering::AcqRel);
                  while gate.load(Ordering::Acquire) <= r {
                    std::hint::spin_loop();
                  }
                }
              };
              let outcome = catch(|| scenario(prop, t, r as usize + shift, false, &line_up));
              if !passed.get() {
                line_up((r % 3) as u8); // the scenario ended before its gate: keep in step with the others
              }
              match outcome {
                Ok(Ok(mut v)) => items.append(&mut v),
                Ok(Err(e)) => return (Some((r, e)), items),
                Err((loc, msg)) => return (Some((r, format!("panic: at {loc}: {msg}"))), items),
              }
            }
            (None, items)
          })
        })
        .collect();
      for r in 0..rounds {
        let mut spins = 0u64;
        while arrived.load(Ordering::Acquire) < (threads as u32) * (r + 1) {
          std::hint::spin_loop();
          spins += 1;
          if spins % 4096 == 0 && hs.iter().any(|h| h.is_finished()) {
            break; // a thread stopped early (it reports why): open every gate
          }
        }
        if hs.iter().any(|h| h.is_finished()) {
          break;
        }
        gate.store(r + 1, Ordering::Release);
      }
      gate.store(u32::MAX, Ordering::Release);
      hs.into_iter().map(|h| h.join().unwrap_or((Some((0, "panic: a thread died".into())), vec![]))).collect()
    });
    cl.tag(format!("threads={threads}"));
    cl.nontrivial(rounds >= 10);
    let mut seen = std::collections::HashSet::new();
    for (t, (bad, items)) in results.iter().enumerate() {
      if let Some((r, e)) = bad {
        if e.starts_with("harness:") {
          return Verdict::Discard;
        }
        vio!("{}:threads-at-a-gate:{}", prop, code_of(e); "thread {} of {}, round {}: {} ({} threads run this property's scenario on objects of their own, released together)", t, threads, r, e, threads);
      }
      for i in items {
        if !seen.insert(i.clone()) {
          vio!("{}:threads-at-a-gate:nonce-repeated", prop; "{} was used twice under one key ({} threads building at the same moment; second use by thread {})", i, threads, t);
        }
      }
    }
    Verdict::Pass
  }
}

// ---------------------------------------------------------------- first use in a process

#[derive(Clone, Debug, Serialize, Deserialize)]
pub struct FirstUseCase {
  pub runs: u32,
  pub threads: u8,
  pub shift: u32,
  /// use the unoptimised build of the helper (target/debug/pv) when it exists: nothing inlined, every window wider
  pub unoptimised: bool,
}

pub struct FirstUse {
  pub prop: &'static str,
}

/// Body of `pv first-use <prop> <threads> <shift>`: nothing of the library runs before the threads are released
pub fn first_use_child_main(args: &[String]) -> i32 {
  let prop: &'static str = match args.first().and_then(|a| PROPS.iter().find(|p| *p == a)) {
    Some(p) => p,
    None => return 2,
  };
  let threads: u32 = args.get(1).and_then(|a| a.parse().ok()).unwrap_or(12).clamp(1, 64);
  let shift: usize = args.get(2).and_then(|a| a.parse().ok()).unwrap_or(0);
  let gate_at: u8 = (shift % 3) as u8;
  let light = std::env::var_os("PV_HELPER_LIGHT").is_some();
  let arrived = AtomicU32::new(0);
  let lines: Vec<String> = std::thread::scope(|sc| {
    let hs: Vec<_> = (0..threads as usize)
      .map(|t| {
        let arrived = &arrived;
        sc.spawn(move || {
          // the threads line up before phase shift % 3 of the scenario; each thread's earlier phases have run by then, on
          // its own (when shift % 3 == 0 nothing of the library has run in the process)
          let passed = std::cell::Cell::new(false);
          let line_up = |k: u8| {
            if k == gate_at && !passed.get() {
              passed.set(true);
              arrived.fetch_add(1, Ordering::AcqRel);
              while arrived.load(Ordering::Acquire) < threads {
                std::hint::spin_loop();
              }
            }
          };
          let outcome = if (prop == "C01" || prop == "C16") && shift % 4 == 3 {
            line_up(gate_at);
            catch(|| nested(t, shift, light))
          } else {
            catch(|| scenario(prop, t, shift, light, &line_up))
          };
          if !passed.get() {
            arrived.fetch_add(1, Ordering::AcqRel);
          }
          match outcome {
            Ok(Ok(items)) => items.into_iter().map(|i| format!("ITEM {i}")).collect(),
            Ok(Err(e)) => vec![format!("BAD {}", e.replace('\n', " "))],
            Err((loc, msg)) => vec![format!("BAD panic: at {loc}: {}", msg.replace('\n', " "))],
          }
        })
      })
      .collect();
    hs.into_iter().flat_map(|h| h.join().unwrap_or_else(|_| vec!["BAD panic: a thread died".into()])).collect()
  });
  for l in &lines {
    println!("{l}");
  }
  println!("DONE");
  0
}

impl Sub for FirstUse {
  type Case = FirstUseCase;
  fn name(&self) -> String {
    format!("{}/first-use-in-a-process", self.prop)
  }
  fn check(&self, c: &FirstUseCase, cl: &mut Classes) -> Verdict {
    let exe = match std::env::current_exe() {
      Ok(e) => e,
      Err(_) => return Verdict::Discard,
    };
    let dev = exe.parent().and_then(|p| p.parent()).map(|p| p.join("debug").join("pv")).filter(|p| p.exists());
    let (exe, build) = match (c.unoptimised, dev) {
      (true, Some(d)) => (d, "unoptimised"),
      _ => (exe, "optimised"),
    };
    let mut done = 0;
    for run in 0..c.runs.min(10_000) {
      let mut cmd = std::process::Command::new(&exe);
      cmd.args(["first-use", self.prop, &c.threads.to_string(), &(c.shift + run).to_string()]).env_remove("LD_PRELOAD");
      if build == "unoptimised" {
        cmd.env("PV_HELPER_LIGHT", "1");
      }
      let (status, text) = match output_with_timeout(&mut cmd, 30) {
        Some(o) => o,
        None => continue,
      };
      if status.is_none() {
        // 30 s for milliseconds of work: tried once more before it counts
        if let Some((None, again)) = output_with_timeout(&mut cmd, 30) {
          vio!("{}:first-use-in-a-process:process-hung", self.prop; "process #{} of {} ({} build, {} threads, arguments first-use {} {} {}) did not finish within 30 s (milliseconds of work), twice; it had printed {:?}", run, c.runs, build, c.threads, self.prop, c.threads, c.shift + run, again.lines().last());
        }
        continue;
      }
      if let Some(l) = text.lines().find(|l| l.starts_with("BAD ") && !l.starts_with("BAD harness:")) {
        vio!("{}:first-use-in-a-process:{}", self.prop, code_of(&l[4..]); "process #{} of {} ({} build), {} threads whose first library calls are this property's scenario: {}", run, c.runs, build, c.threads, &l[4..]);
      }
      if !text.lines().any(|l| l == "DONE") {
        vio!("{}:first-use-in-a-process:process-died", self.prop; "process #{} of {} ({} build, {} threads) ended with {:?} before finishing", run, c.runs, build, c.threads, status);
      }
      let mut seen = std::collections::HashSet::new();
      for l in text.lines().filter(|l| l.starts_with("ITEM ")) {
        if !seen.insert(l.to_string()) {
          vio!("{}:first-use-in-a-process:nonce-repeated", self.prop; "process #{} of {} ({} build, {} threads): {} was used twice under one key", run, c.runs, build, c.threads, &l[5..]);
        }
      }
      done += 1;
    }
    cl.tag(format!("fresh processes ({} build): threads={}", build, c.threads));
    cl.nontrivial(done >= 10);
    Verdict::Pass
  }
}

// ---------------------------------------------------------------- one object, used very many times

thread_local! {
  static VALIDATOR_CALLS: std::cell::Cell<u64> = std::cell::Cell::new(0);
}
fn counting_validator(_key: &str, v: &Value) -> Result<(), PasetoClaimError> {
  VALIDATOR_CALLS.with(|c| c.set(c.get() + 1));
  if v == &json!("reject-me") {
    Err(PasetoClaimError::CustomValidation("scenario".into()))
  } else {
    Ok(())
  }
}
const COUNTING_VALIDATOR: &ValidatorFn = &counting_validator;

#[derive(Clone, Debug, Serialize, Deserialize)]
pub struct LongCase {
  pub proto: Proto,
  /// uses of the one object
  pub n: u32,
}

pub struct LongLived {
  pub prop: &'static str,
}

/// ONE builder produces n tokens (good and bad ones alternating by a fixed rule), then ONE parser - configured once - reads
/// them all: use number i must be judged like use number 1, also beyond 255, 65 535 and 1 000 000 uses, and a refusal must
/// not change what comes after it. For C14-C16 additionally objects holding 0..=300 claims / expectations / validators.
fn long_lived(prop: &str, p: Proto, n: usize) -> Result<(), String> {
  let km = keys::material(p, &[21u8; 32]);
  let lk = km.lib().map_err(|e| format!("harness: {}", e.text))?;
  let other_km = keys::material(p, &[22u8; 32]);
  let other = other_km.lib().map_err(|e| format!("harness: {}", e.text))?;
  // good and bad uses alternate at first; then come runs of 5, 17, 257 and (if n allows) 66 000 bad uses in a row, each
  // followed by good ones: a refusal - or any number of refusals in a row - changes nothing for the token after it
  let bad = |i: usize| match i {
    0..=99 => i % 2 == 1,
    100..=104 => true,
    105 => false,
    106..=122 => true,
    123 => false,
    124..=380 => true,
    381..=399 => false,
    _ if n >= 69_000 && i < 400 + 66_000 => true,
    _ if n >= 69_000 => false,
    _ => (i * 7 + i / 3) % 2 == 1,
  };
  let what = |i: usize| format!("{} use #{} of one object", p.label(), i + 1);
  match prop {
    "C13" | "C17" => {
      let k = n / 8;
      let specs = [ClaimSpec::Sub("s".into()), ClaimSpec::Custom("a".into(), json!(1)), ClaimSpec::Custom("a".into(), json!(2))];
      let mut b = new_builder(p, Layer::Prelude);
      let _ = b.set(&specs[0]);
      let _ = b.set(&specs[1]);
      let mut tokens = Vec::with_capacity(k);
      for i in 0..k {
        tokens.push(b.build(&lk).map_err(|e| format!("build-failed: {}: a builder without repeated keys: {}", what(i), e.text))?);
      }
      if prop == "C17" {
        // one key supplied 2 .. 70 000 times to one builder: refused whatever the count
        for reps in [2usize, 3, 255, 256, 257, 511, 512, 65_535, 65_536, 65_537].into_iter().filter(|r| *r <= n.max(600)) {
          let rep_specs: Vec<ClaimSpec> = (0..reps).map(|j| ClaimSpec::Custom("iss-like".into(), json!(j))).collect();
          let mut rb = new_builder(p, Layer::Prelude);
          for s in &rep_specs {
            let _ = rb.set(s);
          }
          match rb.build(&lk) {
            Err(e) if e.class == ErrClass::Duplicate => {}
            Err(e) => return err("duplicate-other-error", format!("{}: one key supplied {} times: {}", p.label(), reps, e.text)),
            Ok(_) => return err("duplicate-built", format!("{}: one key supplied {} times to one builder and build returned a token", p.label(), reps)),
          }
        }
        let _ = b.set(&specs[2]);
        for i in 0..k {
          match b.build(&lk) {
            Err(e) if e.class == ErrClass::Duplicate => {}
            Err(e) => return err("duplicate-other-error", format!("{}: \"a\" was supplied twice: {}", what(k + i), e.text)),
            Ok(_) => return err("duplicate-built", format!("{}: \"a\" was supplied twice and build returned a token", what(k + i))),
          }
        }
        return Ok(());
      }
      // C13: a builder that has built once is given 255 / 256 / 511 / 512 more claims and the acknowledgement, then builds:
      // no exp, whatever the count of calls in between
      for extra in [3usize, 255, 256, 257, 511, 512].into_iter().filter(|e| *e <= n.max(600)) {
        let more: Vec<ClaimSpec> = (0..extra).map(|j| ClaimSpec::CustomOwned(format!("m{j}"), json!(j))).collect();
        let mut tb = new_builder(p, Layer::Prelude);
        let _ = tb.build(&lk).map_err(|e| format!("build-failed: {}: {}", p.label(), e.text))?;
        for s in &more[..extra - 1] {
          let _ = tb.set(s);
        }
        tb.ack_no_expiry();
        let t = tb.build(&lk).map_err(|e| format!("build-failed: {} after {} calls: {}", p.label(), extra, e.text))?;
        let mut gp = new_parser(p, Layer::Generic);
        let v = gp.parse(&t, &lk).map_err(|e| format!("parse-failed: {}: {}", p.label(), e.text))?;
        if v.get("exp").is_some() {
          return err("exp-after-acknowledgement", format!("{}: build, {} claims and the acknowledgement ({} calls), build: the token carries exp: {v}", p.label(), extra - 1, extra));
        }
      }
      use time::format_description::well_known::Rfc3339;
      let mut parser = new_parser(p, Layer::Generic);
      let mut first: Option<Value> = None;
      for (i, t) in tokens.iter().enumerate() {
        let v = parser.parse(t, &lk).map_err(|e| format!("parse-failed: {}: {}", what(i), e.text))?;
        let get = |k: &str| v.get(k).and_then(|x| x.as_str()).and_then(|s| time::OffsetDateTime::parse(s, &Rfc3339).ok());
        match (get("iat"), get("nbf"), get("exp")) {
          (Some(iat), Some(nbf), Some(exp)) if iat == nbf && exp - iat == time::Duration::hours(1) => {}
          _ => return err("defaults-differ", format!("{}: payload {v}", what(i))),
        }
        match &first {
          None => first = Some(v),
          Some(f) if *f == v => {}
          Some(f) => return err("defaults-differ", format!("{}: payload {v}, the first build of the same builder gave {f}", what(i))),
        }
      }
      Ok(())
    }
    "C14" if n > 400 => {
      // one builder: two claims stay, a scratch claim under an ever new name is set and removed n times; then build
      let keep = [ClaimSpec::Custom("first".into(), json!("kept")), ClaimSpec::Sub("subject".into())];
      let scratch: Vec<ClaimSpec> = (0..n).map(|j| ClaimSpec::CustomOwned(format!("scratch-{j}"), json!(j))).collect();
      let mut b = new_builder(p, Layer::Generic);
      for s in &keep {
        b.set(s).map_err(|e| format!("harness: {}", e.text))?;
      }
      for (j, s) in scratch.iter().enumerate() {
        b.set(s).map_err(|e| format!("harness: {}", e.text))?;
        if j + 1 < n {
          b.remove(s.key());
        }
      }
      let t = b.build(&lk).map_err(|e| format!("build-failed: {}: {}", what(n), e.text))?;
      let mut parser = new_parser(p, Layer::Generic);
      let v = parser.parse(&t, &lk).map_err(|e| format!("parse-failed: {}: {}", what(n), e.text))?;
      let want = json!({"first": "kept", "sub": "subject", format!("scratch-{}", n - 1): n - 1});
      if v != want {
        return err("claims-differ", format!("after {n} set / remove pairs on one builder the parser returned {v}, the claims set are {want}"));
      }
      Ok(())
    }
    "C04" if n > 400 => {
      // K stays alive; n other key objects are made (and dropped) one after the other: none of them opens K's token
      let spec = ClaimSpec::Custom("data".into(), json!("under K"));
      let token = {
        let mut b = new_builder(p, Layer::Generic);
        b.set(&spec).map_err(|e| format!("harness: {}", e.text))?;
        b.build(&lk).map_err(|e| format!("build-failed: {}: {}", p.label(), e.text))?
      };
      {
        let mut parser = new_parser(p, Layer::Generic);
        parser.parse(&token, &lk).map_err(|e| format!("parse-failed: {}: {}", p.label(), e.text))?;
      }
      for i in 0..n {
        let mut seed = [23u8; 32];
        seed[..8].copy_from_slice(&(i as u64).to_le_bytes());
        let km_i = keys::material(p, &seed);
        let k_i = km_i.lib().map_err(|e| format!("harness: {}", e.text))?;
        let accepted = if i % 2 == 0 { core_parse(&k_i, &token, None, None).is_ok() } else { new_parser(p, Layer::Generic).parse(&token, &k_i).is_ok() };
        if accepted {
          return err("other-key-accepted", format!("{}: the token made under K was accepted under key object #{} made after K (other bytes: {})", p.label(), i + 1, hex::encode(seed)));
        }
      }
      let mut parser = new_parser(p, Layer::Generic);
      parser.parse(&token, &lk).map_err(|e| format!("parse-failed: {}: K itself, after {} other keys: {}", p.label(), n, e.text))?;
      Ok(())
    }
    "C14" | "C15" | "C16" if n <= 400 => {
      // objects holding k = 0..=n members
      let specs: Vec<ClaimSpec> = (0..n).map(|j| ClaimSpec::CustomOwned(format!("c{j}"), if j % 3 == 0 { json!(j) } else { json!(format!("v{j}")) })).collect();
      let wrong: Vec<ClaimSpec> = (0..n).map(|j| ClaimSpec::CustomOwned(format!("c{j}"), json!("reject-me"))).collect();
      for k in 0..=n {
        let token = {
          let mut b = new_builder(p, Layer::Generic);
          for s in &specs[..k] {
            b.set(s).map_err(|e| format!("harness: {}", e.text))?;
          }
          b.build(&lk).map_err(|e| format!("build-failed: {} claims: {}", k, e.text))?
        };
        // a second token in which claim number k/2 differs
        let token_bad = if k > 0 {
          let mut b = new_builder(p, Layer::Generic);
          for (j, s) in specs[..k].iter().enumerate() {
            b.set(if j == k / 2 { &wrong[j] } else { s }).map_err(|e| format!("harness: {}", e.text))?;
          }
          Some(b.build(&lk).map_err(|e| format!("build-failed: {} claims: {}", k, e.text))?)
        } else {
          None
        };
        let mut parser = new_parser(p, Layer::Generic);
        for s in &specs[..k] {
          let r = if prop == "C16" { parser.validate(s, COUNTING_VALIDATOR) } else if prop == "C15" { parser.check(s) } else { Ok(()) };
          r.map_err(|e| format!("harness: {}", e.text))?;
        }
        VALIDATOR_CALLS.with(|c| c.set(0));
        let v = parser.parse(&token, &lk).map_err(|e| format!("match-refused: a token with {k} claims, a parser with {k} {}: {}", if prop == "C16" { "accepting validators" } else { "matching expectations" }, e.text))?;
        let want: serde_json::Map<String, Value> = specs[..k].iter().map(|s| (s.key().to_string(), s.expected())).collect();
        if v != Value::Object(want) {
          return err("claims-differ", format!("{} claims set, the parser returned {v}", k));
        }
        if prop == "C16" && VALIDATOR_CALLS.with(|c| c.get()) != k as u64 {
          return err("validator-calls", format!("{} validators registered for {} present claims, {} calls", k, k, VALIDATOR_CALLS.with(|c| c.get())));
        }
        if prop == "C15" && k > 0 {
          // every expectation registered again through extend_check_claims with ANOTHER value (what is registered last
          // counts, however many there are): the old token is refused now, a token with the new values accepted
          let newer: Vec<ClaimSpec> = (0..k).map(|j| ClaimSpec::CustomOwned(format!("c{j}"), json!(format!("new-{j}")))).collect();
          let token_new = {
            let mut b = new_builder(p, Layer::Generic);
            for s in &newer {
              b.set(s).map_err(|e| format!("harness: {}", e.text))?;
            }
            b.build(&lk).map_err(|e| format!("build-failed: {} claims: {}", k, e.text))?
          };
          let mut parser = new_parser(p, Layer::Generic);
          for s in &specs[..k] {
            parser.check(s).map_err(|e| format!("harness: {}", e.text))?;
          }
          let entries: Vec<(String, Value)> = newer.iter().map(|s| (s.key().to_string(), s.expected())).collect();
          if parser.extend_checks(&entries) {
            if parser.parse(&token, &lk).is_ok() {
              return err("mismatch-accepted", format!("{k} expectations replaced through extend_check_claims: the token with the OLD values was accepted"));
            }
            if let Err(e) = parser.parse(&token_new, &lk) {
              return err("match-refused", format!("{k} expectations replaced through extend_check_claims: the token with the NEW values was refused: {}", e.text));
            }
          }
        }
        if let (Some(tb), true) = (&token_bad, prop != "C14") {
          let mut parser = new_parser(p, Layer::Generic);
          for s in &specs[..k] {
            let r = if prop == "C16" { parser.validate(s, COUNTING_VALIDATOR) } else { parser.check(s) };
            r.map_err(|e| format!("harness: {}", e.text))?;
          }
          if parser.parse(tb, &lk).is_ok() {
            return err("mismatch-accepted", format!("{k} claims, claim c{} differs from what the parser {}; accepted", k / 2, if prop == "C16" { "validator accepts" } else { "expects" }));
          }
        }
      }
      Ok(())
    }
    _ => {
      // ONE builder (claim "data" set again before every build; footer / assertion fixed), ONE parser
      let l = Layer::Generic;
      let footer = "{\"kid\":\"long\"}";
      let assertion = if p.has_assertion() { Some("long-lived") } else { None };
      let q = Proto::ALL.iter().copied().find(|q| q.is_local() == p.is_local() && *q != p && q.has_assertion() == p.has_assertion()).unwrap_or(p);
      let specs: Vec<[ClaimSpec; 4]> = (0..n)
        .map(|i| {
          let b = bad(i);
          [
            ClaimSpec::CustomOwned("data".into(), json!(format!("m{i}"))),
            ClaimSpec::CustomOwned("seat".into(), if prop == "C15" { json!(if b { 8 } else { 7 }) } else if b && prop == "C16" { json!("reject-me") } else { json!("fine") }),
            ClaimSpec::Exp(if b && prop == "C11" { "2001-01-01T00:00:00Z" } else { "2999-01-01T00:00:00Z" }.into()),
            ClaimSpec::Nbf(if b && prop == "C12" { "2998-01-01T00:00:00Z" } else { "2000-01-01T00:00:00Z" }.into()),
          ]
        })
        .collect();
      let mut tokens = Vec::with_capacity(n);
      {
        let mut good_builder = new_builder(p, l);
        let mut other_builder = new_builder(p, l); // C05 / C06: another footer / assertion
        good_builder.footer(footer);
        other_builder.footer(if prop == "C05" { "{\"kid\":\"other\"}" } else { footer });
        if let Some(a) = assertion {
          good_builder.assertion(a);
          other_builder.assertion(if prop == "C06" { "other" } else { a });
        }
        for (i, sp) in specs.iter().enumerate() {
          let b = if bad(i) && matches!(prop, "C05" | "C06") { &mut other_builder } else { &mut good_builder };
          for s in sp.iter() {
            b.set(s).map_err(|e| format!("harness: {}", e.text))?;
          }
          let keys = if bad(i) && prop == "C04" { &other } else { &lk };
          let mut t = b.build(keys).map_err(|e| format!("build-failed: {}: {}", what(i), e.text))?;
          if bad(i) && matches!(prop, "C03" | "C08") {
            let (header, body, foot) = split_token(&t).ok_or("harness: token does not split")?;
            let mut bytes = unb64(&body).ok_or("harness: payload is not base64url")?;
            let at = (i * 131) % bytes.len();
            bytes[at] ^= 1 << (i % 8);
            t = join_token(&header, &bytes, foot.as_deref());
          }
          if bad(i) && prop == "C07" {
            t = format!("{}{}", q.header(), &t[p.header().len()..]);
          }
          tokens.push(t);
        }
      }
      let seat = ClaimSpec::Custom("seat".into(), json!(7));
      let mut parser = new_parser(p, if matches!(prop, "C11" | "C12") { Layer::Prelude } else { l });
      parser.footer(footer);
      if let Some(a) = assertion {
        parser.assertion(a);
      }
      if prop == "C15" {
        parser.check(&seat).map_err(|e| format!("harness: {}", e.text))?;
      }
      if prop == "C16" {
        parser.validate(&seat, COUNTING_VALIDATOR).map_err(|e| format!("harness: {}", e.text))?;
      }
      let judged = matches!(prop, "C08" | "C03" | "C04" | "C05" | "C06" | "C07" | "C11" | "C12" | "C15" | "C16");
      for (i, t) in tokens.iter().enumerate() {
        let must_refuse = judged && bad(i) && !(prop == "C07" && q == p) && !(prop == "C06" && assertion.is_none());
        match (parser.parse(t, &lk), must_refuse) {
          (Err(_), true) => {}
          (Ok(v), false) if v.get("data") == Some(&json!(format!("m{i}"))) => {}
          (Ok(v), false) => return err("round-trip-differs", format!("{}: token carries data = m{i}, the parser returned {v}", what(i))),
          (Ok(_), true) => return err("bad-token-accepted", format!("{}: a token that must be refused ({}) was accepted", what(i), prop)),
          (Err(e), false) => return err("parse-failed", format!("{}: authentic token refused by the parser that accepted the ones before: {}", what(i), e.text)),
        }
      }
      Ok(())
    }
  }
}

impl Sub for LongLived {
  type Case = LongCase;
  fn name(&self) -> String {
    format!("{}/one-object-many-uses", self.prop)
  }
  fn check(&self, c: &LongCase, cl: &mut Classes) -> Verdict {
    cl.tag(format!("{}:uses={}", c.proto.label(), if c.n > 1_000_000 { ">1e6" } else if c.n > 65_535 { ">65535" } else if c.n > 255 { ">255" } else { "<=255" }));
    cl.nontrivial(c.n > 255);
    match catch(|| long_lived(self.prop, c.proto, c.n as usize)) {
      Ok(Ok(())) => Verdict::Pass,
      Ok(Err(e)) if e.starts_with("harness:") => Verdict::Discard,
      Ok(Err(e)) => Verdict::Violation { sig: format!("{}:one-object-many-uses:{}", self.prop, code_of(&e)), detail: e },
      Err((loc, msg)) => Verdict::Violation { sig: format!("{}:one-object-many-uses:panic:{}", self.prop, loc), detail: format!("panicked at {loc}: {msg}") },
    }
  }
}

pub fn subs(prop: &'static str) -> Vec<Box<dyn DynSub>> {
  if has(prop) {
    vec![Box::new(Gate { prop }), Box::new(FirstUse { prop }), Box::new(LongLived { prop })]
  } else {
    vec![]
  }
}

/// Runs after the property's own jobs (the threads spin: the cores should be free). Not in children.
pub fn run_extra(ctx: &Ctx, prop: &'static str) -> Option<String> {
  if !has(prop) || ctx.is_child() {
    return None;
  }
  let gate = Gate { prop };
  let first = FirstUse { prop };
  let rounds = ctx.n(300, 3000) as u32;
  let runs = ctx.n(90, 900) as u32;
  let shift = (ctx.seed % 1000) as u32 * 7;
  let gates = vec![GateCase { threads: 12, rounds, shift }, GateCase { threads: 3, rounds, shift: shift + 1 }, GateCase { threads: 32, rounds: rounds / 3, shift: shift + 2 }];
  let firsts = vec![
    FirstUseCase { runs, threads: 12, shift, unoptimised: true },
    FirstUseCase { runs: runs / 2, threads: 32, shift: shift + 3, unoptimised: true },
    FirstUseCase { runs: runs / 2, threads: 4, shift: shift + 5, unoptimised: false },
  ];
  // one object, many uses: in parallel (no gates here)
  let long = LongLived { prop };
  let long_cases: Vec<LongCase> = if matches!(prop, "C01" | "C08" | "C03" | "C04" | "C05" | "C06" | "C07" | "C11" | "C12" | "C13" | "C15" | "C16" | "C17") {
    let n = ctx.n(70_000, 1_100_000) as u32;
    let mut v = vec![LongCase { proto: Proto::V4L, n }, LongCase { proto: Proto::V2L, n: 300 }, LongCase { proto: Proto::V3L, n: 300 }, LongCase { proto: Proto::V4P, n: 2_000 }];
    if matches!(prop, "C15" | "C16") {
      v.push(LongCase { proto: Proto::V4L, n: 300 });
    }
    if prop == "C04" {
      v = vec![LongCase { proto: Proto::V4L, n }, LongCase { proto: Proto::V3L, n: n.min(70_000) }, LongCase { proto: Proto::V2L, n: n.min(70_000) }, LongCase { proto: Proto::V1L, n: n.min(70_000) }, LongCase { proto: Proto::V4P, n: 3_000 },
               LongCase { proto: Proto::V4L, n: 300 }, LongCase { proto: Proto::V3L, n: 300 }];
    }
    v
  } else if prop == "C02" {
    vec![LongCase { proto: Proto::V4P, n: ctx.n(3_000, 70_000) as u32 }, LongCase { proto: Proto::V2P, n: 300 }, LongCase { proto: Proto::V3P, n: 40 }]
  } else if prop == "C14" {
    vec![LongCase { proto: Proto::V4L, n: 300 }, LongCase { proto: Proto::V2P, n: 64 }, LongCase { proto: Proto::V4L, n: ctx.n(70_000, 1_100_000) as u32 }]
  } else {
    vec![]
  };
  let long = &long;
  if prop == "C04" {
    // one after the other: while K lives, the key objects made next are all made by this loop
    for c in long_cases {
      ctx.enumerate(long, std::iter::once(c), false);
    }
  } else {
    run_jobs(long_cases.into_iter().map(|c| Box::new(move || ctx.enumerate(long, std::iter::once(c), false)) as Job).collect());
  }
  ctx.enumerate(&gate, gates.into_iter(), false);
  ctx.enumerate(&first, firsts.into_iter(), false);
  Some(format!(
    " Schedules: (a) threads at a gate - 3 / 12 / 32 threads released together by a spin gate for {rounds} rounds, each running this property's miniature scenario (a pure function of thread and round: protocol, layer, key, message, footer, assertion vary) on objects of its own, judged by the property's own oracle in its simplest form; \
     (c) one object, many uses - one builder produces 70 000 (thorough 1 100 000) tokens, good and bad ones alternating by a fixed rule, and one parser configured once reads them all: use number i is judged like use number 1 and a refusal changes nothing after it; builders / parsers holding 0..=300 claims, expectations or validators (C14-C16); \
     (b) first use in a process - {} fresh helper processes (unoptimised and optimised build) whose first library calls are that scenario on 4 / 12 / 32 threads released together; a scenario that fails, panics, or a helper that dies is a violation.",
    runs * 2
  ))
}
