//! C15 – expected-claim checks accept exactly the tokens that carry those claims.
use crate::engine::*;
use crate::gen;
use crate::keys;
use crate::proto::*;
use rusty_paseto::prelude::ValidatorFn;
use proptest::collection::vec;
use proptest::prelude::*;
use serde::{Deserialize, Serialize};
use serde_json::{json, Value};
use std::collections::BTreeMap;

#[derive(Clone, Debug, Serialize, Deserialize)]
pub struct ExpectCase {
  pub proto: Proto,
  pub layer: Layer,
  #[serde(with = "gen::hexser")]
  pub seed: Vec<u8>,
  /// payloads of the tokens parsed, in order, by one parser (JSON objects, rarely another JSON value)
  pub payloads: Vec<Value>,
  /// build the token through GenericBuilder (object payloads only) instead of the core layer
  pub via_builder: bool,
  pub expect: Vec<ClaimSpec>,
  /// expectations registered (check_claim) on the same parser later: (before parse number i, claim); a later
  /// registration for a key replaces the earlier one
  #[serde(default)]
  pub late: Vec<(u8, ClaimSpec)>,
  /// register every third initial expectation through `extend_check_claims` (generic parser only)
  #[serde(default)]
  pub via_extend: bool,
  /// core-layer payload text: floating-point numbers are written another (equally valid, equal-valued) way:
  /// 1 one more fraction digit "2.50", 2 exponent form "2.5e0", 3 "2.5E+0", 4 leading-zero exponent "25e-01"
  #[serde(default)]
  pub respell: u8,
}

/// rewrites the floating-point number tokens of a JSON text (outside strings) without changing their value
pub fn respell_floats(json: &str, how: u8) -> String {
  let b: Vec<char> = json.chars().collect();
  let mut out = String::with_capacity(json.len() + 16);
  let (mut i, mut in_str, mut esc) = (0usize, false, false);
  while i < b.len() {
    let c = b[i];
    if in_str {
      out.push(c);
      if esc { esc = false; } else if c == '\\' { esc = true; } else if c == '"' { in_str = false; }
      i += 1;
      continue;
    }
    if c == '"' {
      in_str = true;
      out.push(c);
      i += 1;
      continue;
    }
    if c == '-' || c.is_ascii_digit() {
      let start = i;
      while i < b.len() && (b[i].is_ascii_digit() || matches!(b[i], '-' | '+' | '.' | 'e' | 'E')) {
        i += 1;
      }
      let tok: String = b[start..i].iter().collect();
      let is_float = tok.contains('.') || tok.contains('e') || tok.contains('E');
      match (is_float, tok.parse::<f64>()) {
        (true, Ok(f)) if f.is_finite() => {
          let plain = !tok.contains('e') && !tok.contains('E');
          let new = match how % 5 {
            1 if plain => format!("{tok}0"),
            2 => format!("{:e}", f),
            3 => format!("{:e}", f).replace("e-", "E-").replace('e', "E+"),
            4 if plain => { let digits = tok.split('.').nth(1).map(|d| d.len()).unwrap_or(0); format!("{}e-{:02}", tok.replace('.', ""), digits) }
            _ => tok.clone(),
          };
          // keep only rewrites that still denote the same double
          let valid_json_same_value = serde_json::from_str::<Value>(&new).ok().and_then(|v| v.as_f64()) == Some(f);
          out.push_str(if valid_json_same_value { &new } else { &tok });
        }
        _ => out.push_str(&tok),
      }
      continue;
    }
    out.push(c);
    i += 1;
  }
  out
}

pub struct ExpectedClaims {
  pub proto: Proto,
  pub layer: Layer,
}

#[derive(Debug, PartialEq)]
enum Outcome {
  Accept,
  /// (keys failing by absence/null, keys failing by a differing value, some other key differs only in number form)
  Reject(Vec<String>, Vec<String>, bool),
  DontCare,
}

fn is_num_form_only(a: &Value, b: &Value) -> bool {
  // the same mathematical value written once as an integer and once as a float (4 vs 4.0); two different integers are
  // different values even when they round to the same double
  fn int_of(n: &serde_json::Number) -> Option<i128> {
    n.as_i64().map(|i| i as i128).or_else(|| n.as_u64().map(|u| u as i128))
  }
  match (a, b) {
    (Value::Number(x), Value::Number(y)) if x != y && x.is_f64() != y.is_f64() => {
      let (i, f) = if x.is_f64() { (int_of(y), x.as_f64()) } else { (int_of(x), y.as_f64()) };
      match (i, f) {
        (Some(i), Some(f)) => f.is_finite() && f.fract() == 0.0 && f.abs() < 1.0e30 && (f as i128) == i,
        _ => false,
      }
    }
    _ => false,
  }
}

fn model(payload: &Value, expect: &BTreeMap<String, Value>) -> Outcome {
  let mut missing = vec![];
  let mut differing = vec![];
  let mut dont_care = false;
  for (k, v) in expect {
    let got = payload.as_object().and_then(|o| o.get(k)).cloned().unwrap_or(Value::Null);
    if got.is_null() {
      missing.push(k.clone());
    } else if got != *v {
      if contains_num_form_difference(&got, v) {
        dont_care = true;
      } else {
        differing.push(k.clone());
      }
    }
  }
  if missing.is_empty() && differing.is_empty() {
    if dont_care {
      Outcome::DontCare
    } else {
      Outcome::Accept
    }
  } else {
    Outcome::Reject(missing, differing, dont_care)
  }
}

/// integer-vs-float of equal value anywhere inside the two values makes the comparison a don't-care
fn contains_num_form_difference(a: &Value, b: &Value) -> bool {
  if is_num_form_only(a, b) {
    return true;
  }
  match (a, b) {
    (Value::Array(x), Value::Array(y)) if x.len() == y.len() => x.iter().zip(y).any(|(p, q)| contains_num_form_difference(p, q)),
    (Value::Object(x), Value::Object(y)) if x.len() == y.len() => x.iter().any(|(k, p)| y.get(k).map(|q| contains_num_form_difference(p, q)).unwrap_or(false)),
    _ => false,
  }
}

impl Sub for ExpectedClaims {
  type Case = ExpectCase;
  fn name(&self) -> String {
    format!("C15/{}/{}", self.proto.label(), self.layer.label())
  }
  fn check(&self, c: &ExpectCase, cl: &mut Classes) -> Verdict {
    let p = c.proto;
    let km = keys::material(p, &gen::arr32(&c.seed));
    let lk = km.lib().expect("valid key");
    // expectations: last one registered for a key wins (a map); the batteries-included parser's own exp/nbf
    // validators take precedence over equality for those two keys, so they are not part of this check there
    let mut expect: BTreeMap<String, Value> = BTreeMap::new();
    let mut specs: Vec<&ClaimSpec> = vec![];
    for e in &c.expect {
      if c.layer == Layer::Prelude && (e.key() == "exp" || e.key() == "nbf") {
        continue;
      }
      if e.key().is_empty() {
        continue;
      }
      specs.push(e);
    }
    // tokens first (they must outlive the parser)
    let mut tokens: Vec<(String, &Value)> = vec![];
    for pl in &c.payloads {
      let t = if c.via_builder && pl.is_object() {
        let claims: Vec<ClaimSpec> = pl.as_object().unwrap().iter().filter(|(k, _)| !k.is_empty()).map(|(k, v)| ClaimSpec::Any(k.clone(), v.clone())).collect();
        let mut b = new_builder(p, Layer::Generic);
        // claims are moved into a leaked vec so that the borrow outlives the builder cheaply
        let claims: &'static Vec<ClaimSpec> = Box::leak(Box::new(claims));
        for cspec in claims.iter() {
          let _ = b.set(cspec);
        }
        b.build(&lk)
      } else {
        let text = if c.respell % 5 != 0 { respell_floats(&pl.to_string(), c.respell) } else { pl.to_string() };
        if text != pl.to_string() {
          cl.tag("payload-numbers-respelt");
        }
        core_build(&lk, &[1u8; 32][..if p == Proto::V2L { 24 } else { 32 }], &text, None, None)
      };
      match t {
        Ok(t) => tokens.push((t, pl)),
        Err(_) => return Verdict::Discard,
      }
    }
    let mut parser = new_parser(p, c.layer);
    for (i, e) in specs.iter().enumerate() {
      let shaped = if let ClaimSpec::Shaped(_, v) = e { Some(v.clone()) } else { None };
      if let (Some(v), true) = (&shaped, c.via_extend) {
        if parser.extend_checks_verbatim(&[(e.key().to_string(), v.clone())]) {
          expect.insert(e.key().to_string(), e.demanded());
          cl.tag("registered-via-extend_check_claims:claim-serialises-under-another-shape");
          continue;
        }
      }
      if shaped.is_some() {
        cl.tag("expected-claim-serialises-under-another-shape");
      }
      if c.via_extend && i % 3 == 2 && shaped.is_none() && parser.extend_checks(&[(e.key().to_string(), e.expected())]) {
        expect.insert(e.key().to_string(), e.demanded());
        cl.tag("registered-via-extend_check_claims");
      } else if parser.check(e).is_ok() {
        expect.insert(e.key().to_string(), e.demanded());
      }
    }
    if c.via_extend {
      // validators for names that are no expected claims of this parser and no members of any payload: never consulted
      let orphans: Vec<(String, &'static ValidatorFn)> = (0..(c.seed[0] % 9) as usize).map(|i| (format!("orphan-validator-{i}"), VALIDATOR_ACCEPTS)).collect();
      if !orphans.is_empty() && parser.extend_validators(&orphans) {
        cl.tag("validators-for-names-nobody-expects");
      }
    }
    let late: Vec<(usize, &ClaimSpec)> = c
      .late
      .iter()
      .filter(|(_, e)| !e.key().is_empty() && !(c.layer == Layer::Prelude && (e.key() == "exp" || e.key() == "nbf")))
      .map(|(i, e)| ((*i as usize) % c.payloads.len().max(1), e))
      .collect();
    cl.tag(format!("{}:{}", p.label(), c.layer.label()));
    cl.tag(format!("tokens={}", tokens.len()));
    cl.tag(format!("expectations={}", expect.len().min(5)));
    let mut outcomes = vec![];
    for (i, (t, pl)) in tokens.iter().enumerate() {
      for (j, (at, e)) in late.iter().enumerate() {
        if *at == i && i > 0 {
          if c.via_extend && j % 2 == 0 && !matches!(e, ClaimSpec::Shaped(..)) && parser.extend_checks(&[(e.key().to_string(), e.expected())]) {
            expect.insert(e.key().to_string(), e.demanded());
            cl.tag("expectation-registered-between-parses(extend_check_claims)");
          } else if parser.check(e).is_ok() {
            expect.insert(e.key().to_string(), e.demanded());
            cl.tag("expectation-registered-between-parses");
          }
        }
      }
      // payload as the parser sees it (the builder path drops empty keys)
      let seen: Value = if c.via_builder && pl.is_object() { Value::Object(pl.as_object().unwrap().iter().filter(|(k, _)| !k.is_empty()).map(|(k, v)| (k.clone(), v.clone())).collect()) } else { (*pl).clone() };
      // the payload travels as JSON text: what the parser can see is the value after that round trip
      let seen: Value = serde_json::from_str(&seen.to_string()).unwrap_or(seen);
      let want = model(&seen, &expect);
      let r = parser.parse(t, &lk);
      let pos = if i == 0 { "first" } else { "later" };
      match (&want, &r) {
        (Outcome::DontCare, _) => cl.tag("dont-care:number-form"),
        (Outcome::Accept, Ok(v)) => {
          if *v != seen {
            vio!("C15:wrong-json:{}", p.label(); "parser returned {} for payload {}", v, seen);
          }
          cl.tag("accepted");
        }
        (Outcome::Accept, Err(e)) => vio!("C15:rejected-matching-claims:{}:{}:{}", c.layer.label(), pos, e.variant;
          "every expected claim {:?} is in payload {} yet parse #{} failed: {}", expect, seen, i + 1, e.text),
        (Outcome::Reject(missing, differing, _), Ok(_)) => {
          let why = if !missing.is_empty() { "missing" } else { "differing" };
          vio!("C15:accepted-without-expected-claim:{}:{}:{}", c.layer.label(), pos, why;
            "expected {:?}; payload {} lacks {:?} / differs in {:?}, yet parse #{} succeeded", expect, seen, missing, differing, i + 1);
        }
        (Outcome::Reject(missing, differing, fuzzy), Err(e)) => {
          if e.class != ErrClass::Claim {
            vio!("C15:rejected-with-non-claim-error:{}:{}", c.layer.label(), e.variant; "expected {:?}, payload {}: failed with {}", expect, seen, e.text);
          }
          // (which failing expectation is reported first depends on the parser's map order; the rule below is
          // only stated when exactly one expectation can fail)
          if missing.len() == 1 && differing.is_empty() && !*fuzzy && !(e.variant == "Claim:Missing" && e.args.first() == Some(&missing[0])) {
            vio!("C15:missing-claim-misreported:{}", e.variant; "only {:?} is missing from payload {} (expected {:?}) but the error is {}", missing[0], seen, expect, e.text);
          }
          if missing.is_empty() && !*fuzzy && e.variant == "Claim:Missing" {
            vio!("C15:differing-claim-reported-missing"; "no expected claim is absent from {} (expected {:?}) but the error is {}", seen, expect, e.text);
          }
          cl.tag(format!("rejected:{}", e.variant));
        }
      }
      outcomes.push(matches!(want, Outcome::Accept));
    }
    let mixed = outcomes.iter().any(|o| *o) && outcomes.iter().any(|o| !*o);
    if mixed {
      cl.tag("history:mixed-outcomes");
    }
    cl.nontrivial((!expect.is_empty() && outcomes.iter().any(|o| !*o)) || tokens.len() >= 2);
    Verdict::Pass
  }
}

const KEYS: [&str; 15] = ["iss", "sub", "aud", "jti", "iat", "role", "rol", "Role", "n", "data", "é", "nested", "exp", "nbf", "iat"];

/// the same instant written another way: other offset, `Z` vs `+00:00`, other number of fraction digits; or the same
/// second with another fraction (a different instant) - all of them other JSON strings than `s`
fn respell_time(s: &str, how: u8) -> Option<String> {
  let (secs, nanos) = crate::tgen::parse_rfc3339(s)?;
  let r = |offset_min: i16, digits: u8, zulu: u8| crate::tgen::Rendering { offset_min, digits, sep: 0, zulu };
  let out = match how % 6 {
    0 => crate::tgen::render(secs, nanos, &r(0, 0, 1)),
    1 => crate::tgen::render(secs, nanos, &r(0, 0, 0)),
    2 => crate::tgen::render(secs, nanos, &r(-300, 0, 0)),
    3 => crate::tgen::render(secs, nanos, &r(0, 3, 1)),
    4 => crate::tgen::render(secs, 999_000_000, &r(0, 3, 1)),
    _ => crate::tgen::render(secs, nanos, &r(60, 9, 0)),
  };
  if out == s { None } else { Some(out) }
}

fn key() -> BoxedStrategy<String> {
  prop_oneof![8 => any::<u16>().prop_map(|i| KEYS[pick(i, KEYS.len())].to_string()), 1 => gen::json_key()].boxed()
}

fn value() -> BoxedStrategy<Value> {
  prop_oneof![
    4 => prop_oneof![Just("admin"), Just("Admin"), Just("admin "), Just("adm"), Just(""), Just("x"), Just("137"), Just("true"), Just("-3")].prop_map(|s| json!(s)),
    2 => prop_oneof![Just("2030-01-01T00:00:00Z"), Just("2030-01-01T00:00:00+00:00"), Just("2019-01-01T00:00:00+00:00"), Just("2030-06-30T23:59:59.5-05:00"), Just("2000-02-29T12:00:00.000Z")].prop_map(|s| json!(s)),
    1 => Just(json!(137)),
    2 => (-3i64..4).prop_map(|i| json!(i)),
    // integers where i64, u64 and f64 part ways
    2 => prop_oneof![Just(json!(u64::MAX)), Just(json!(u64::MAX - 1)), Just(json!(9223372036854775808u64)), Just(json!(9223372036854775809u64)), Just(json!(i64::MAX)), Just(json!(i64::MIN)), Just(json!(i64::MIN + 1)),
                     Just(json!(9007199254740992u64)), Just(json!(9007199254740993u64)), Just(json!(17557578181808258561u64))],
    1 => Just(json!(1.0)),
    1 => Just(json!(1.5)),
    2 => prop_oneof![Just(json!(3.141526)), Just(json!(0.1)), Just(json!(0.30000000000000004)), Just(json!(2.5e-7)), Just(json!(123456.789)), (1i64..1_000_000, 1u32..9).prop_map(|(m, d)| json!(format!("{}e-{}", m, d).parse::<f64>().unwrap()))],
    1 => any::<bool>().prop_map(Value::Bool),
    1 => Just(Value::Null),
    1 => Just(json!([1, 2])),
    1 => Just(json!([1, 2.0])),
    1 => Just(json!({"a": 1})),
    1 => Just(json!({"a": 1, "b": null})),
    2 => gen::json_value(2),
  ]
  .boxed()
}

fn mutate_key(k: &str, how: u8) -> String {
  let mut chars: Vec<char> = k.chars().collect();
  match how % 3 {
    0 => {
      chars.pop();
    }
    1 => chars.push('x'),
    _ => {
      if let Some(c) = chars.first_mut() {
        *c = if c.is_ascii_lowercase() { c.to_ascii_uppercase() } else { 'z' };
      }
    }
  }
  chars.into_iter().collect()
}

fn typed(key: &str, v: &Value, form: u8) -> ClaimSpec {
  // the documented default of a registered text claim is the empty string: an expectation of "" may be written `XClaim::default()`
  if v.as_str() == Some("") && form % 2 == 1 {
    if let Some(i) = DEFAULT_KEYS.iter().take(4).position(|d| *d == key) {
      return ClaimSpec::DefaultOf(i as u8);
    }
  }
  if let Value::String(s) = v {
    match key {
      "iss" => return ClaimSpec::Iss(s.clone()),
      "sub" => return ClaimSpec::Sub(s.clone()),
      "aud" => return ClaimSpec::Aud(s.clone()),
      "jti" => return ClaimSpec::Jti(s.clone()),
      _ => {}
    }
  }
  if ["iss", "sub", "aud", "exp", "nbf", "iat", "jti"].contains(&key) {
    return ClaimSpec::Any(key.to_string(), v.clone());
  }
  match form % 3 {
    0 => ClaimSpec::Custom(key.to_string(), v.clone()),
    1 => ClaimSpec::CustomOwned(key.to_string(), v.clone()),
    _ => ClaimSpec::Any(key.to_string(), v.clone()),
  }
}

fn case(proto: Proto, layer: Layer) -> BoxedStrategy<ExpectCase> {
  // base claim set S, expectations derived from it, then per-token perturbations of S
  (gen::bytes32(), vec((key(), value()), 0..5), vec((any::<u16>(), 0u8..16, value(), any::<u8>()), 0..4), vec((0u8..6, any::<u16>(), value()), 1..=6), any::<bool>(), vec((1u8..6, any::<u16>(), 0u8..16, value(), any::<u8>()), 0..3), any::<bool>(), prop_oneof![3 => Just(0u8), 2 => 1u8..5])
    .prop_map(move |(seed, base, exp_rel, perturb, via_builder, late_rel, via_extend, respell)| {
      let base_obj: serde_json::Map<String, Value> = base.iter().cloned().collect();
      let base_keys: Vec<String> = base_obj.keys().cloned().collect();
      let mut expect = vec![];
      let mut late = vec![];
      let all_rel: Vec<(Option<u8>, &u16, &u8, &Value, &u8)> = exp_rel.iter().map(|(a, b, c2, d)| (None, a, b, c2, d)).chain(late_rel.iter().map(|(at, a, b, c2, d)| (Some(*at), a, b, c2, d))).collect();
      for (at, ki, rel, v, form) in all_rel {
        let k = if base_keys.is_empty() { KEYS[pick(*ki, KEYS.len())].to_string() } else { base_keys[pick(*ki, base_keys.len())].clone() };
        let cur = base_obj.get(&k).cloned().unwrap_or(Value::Null);
        let spec = match rel {
          0 | 1 | 2 => typed(&k, &cur, *form),                                   // equal to S
          3 => typed(&k, v, *form),                                             // another value (type / case / length)
          4 => typed(&mutate_key(&k, *form), &cur, *form),                      // key one character off
          5 => typed(KEYS[pick(*ki, KEYS.len())], v, *form),                    // possibly absent key
          6 => typed(&k, &Value::Null, *form),                                  // expected null
          9 => match cur.as_f64() {                                             // a float one or two ulp away
            Some(f) if cur.is_f64() && f.is_finite() && f != 0.0 => {
              let n = f64::from_bits(f.to_bits().wrapping_add(1 + (*form as u64 % 2)));
              if n.is_finite() { typed(&k, &json!(n), *form) } else { typed(&k, &cur, *form) }
            }
            _ => typed(&k, &json!(0.1 + 0.2), *form),
          },
          11 => match (cur.as_u64(), cur.as_i64()) {                             // the neighbouring integer
            (Some(u), _) => typed(&k, &json!(if *form % 2 == 0 && u < u64::MAX { u + 1 } else { u.wrapping_sub(1) }), *form),
            (_, Some(i)) => typed(&k, &json!(if *form % 2 == 0 && i < i64::MAX { i + 1 } else { i.wrapping_sub(1) }), *form),
            _ => typed(&k, &json!(u64::MAX), *form),
          },
          10 => match cur.as_str().and_then(|t| respell_time(t, *form)) {              // a timestamp written another way
            Some(t) => typed(&k, &json!(t), *form),
            None => typed(&k, &json!("2030-01-01T00:00:00Z"), *form),
          },
          8 => match &cur {                                                     // same text, other JSON type
            Value::Number(n) => typed(&k, &json!(n.to_string()), *form),
            Value::Bool(b) => typed(&k, &json!(b.to_string()), *form),
            Value::String(s2) => match s2.parse::<i64>() {
              Ok(n) => typed(&k, &json!(n), *form),
              Err(_) => typed(&k, &json!([s2]), *form),
            },
            other => typed(&k, &json!(other.to_string()), *form),
          },
          // a caller-defined claim type whose serialised form is not the plain {key: value}: siblings next to its own
          // member (the own member is what counts); its value under ANOTHER member name, or no member at all (such an
          // expectation cannot be met: the token is refused)
          // a string that a normalising / case-folding comparison would take for the token's (full-width, Kelvin sign, long s,
          // decomposed accents, variation selectors): another value
          15 => match &cur {
            Value::String(t) => match gen::confusable(t, *form) {
              Some(c2) => typed(&k, &json!(c2), *form),
              None => typed(&k, &cur, *form),
            },
            other => typed(&k, other, *form),
          },
          12 => ClaimSpec::Shaped(k.clone(), json!({ k.clone(): cur, "sibling": v })),
          13 => ClaimSpec::Shaped(k.clone(), json!({ KEYS[pick(*ki ^ 0x5555, KEYS.len())]: cur, format!("{k}-alias"): cur })),
          14 => ClaimSpec::Shaped(k.clone(), if *form % 2 == 0 { json!({}) } else { cur.clone() }),
          _ => match &cur {
            Value::String(s) => typed(&k, &json!(s.to_uppercase()), *form),     // case change
            Value::Number(n) if n.is_i64() => typed(&k, &json!(n.as_i64().unwrap() as f64), *form), // number form
            other => typed(&k, other, *form),
          },
        };
        match at {
          None => expect.push(spec),
          Some(a) => late.push((a, spec)),
        }
      }
      let mut payloads = vec![];
      for (how, ki, v) in &perturb {
        let mut o = base_obj.clone();
        let pick_key = |o: &serde_json::Map<String, Value>| -> Option<String> { let ks: Vec<&String> = o.keys().collect(); if ks.is_empty() { None } else { Some(ks[pick(*ki, ks.len())].clone()) } };
        match how {
          0 | 1 => {}
          2 => {
            if let Some(k) = pick_key(&o) { o.remove(&k); }
          }
          3 => {
            if let Some(k) = pick_key(&o) { o.insert(k, v.clone()); }
          }
          4 => {
            if let Some(k) = pick_key(&o) { o.insert(k, Value::Null); }
          }
          _ => {
            o.insert(KEYS[pick(*ki, KEYS.len())].to_string(), v.clone());
          }
        }
        payloads.push(Value::Object(o));
      }
      if let Some((5, ki, v)) = perturb.first() {
        if ki % 16 == 0 {
          payloads[0] = json!([v.clone()]); // a non-object payload
        }
      }
      if layer == Layer::Prelude {
        // the batteries-included parser applies its own rules to exp / nbf (C11 / C12): they stay out of these payloads
        for p in payloads.iter_mut() {
          if let Some(o) = p.as_object_mut() {
            o.remove("exp");
            o.remove("nbf");
          }
        }
      }
      ExpectCase { proto, layer, seed, payloads, via_builder, expect, late, via_extend, respell }
    })
    .boxed()
}

fn all_subs() -> Vec<ExpectedClaims> {
  let mut v = vec![];
  for proto in Proto::ALL {
    for layer in [Layer::Generic, Layer::Prelude] {
      v.push(ExpectedClaims { proto, layer });
    }
  }
  v
}

pub fn subs() -> Vec<Box<dyn DynSub>> {
  all_subs().into_iter().map(|s| Box::new(s) as Box<dyn DynSub>).collect()
}

pub fn run(ctx: &Ctx) -> EvidenceMeta {
  let subs = all_subs();
  let mut jobs: Vec<Job> = vec![];
  for s in &subs {
    let n = match s.proto {
      Proto::V4L | Proto::V2L => ctx.n(12_000, 120_000),
      p if p.is_local() => ctx.n(4000, 40_000),
      Proto::V2P | Proto::V4P => ctx.n(2500, 25_000),
      Proto::V1P => ctx.n(600, 6000),
      _ => ctx.n(150, 1500),
    };
    jobs.push(Box::new(move || ctx.prop(s, case(s.proto, s.layer), n)));
  }
  run_jobs(jobs);
  EvidenceMeta {
    rule: "token claim set S (0-4 members over a small key pool incl. registered keys, near-miss keys 'role'/'rol'/'Role', non-ASCII; values strings/ints/floats/bools/null/arrays/objects), built through the core layer as JSON or through GenericBuilder; \
           expectation set E derived from S by construction: equal, another value (type, case, length), key one character off, possibly absent key, expected null, case change, integer-vs-float form; registered keys through their typed claims, custom keys through all CustomClaim forms and a caller-defined claim; \
           1-6 tokens (S perturbed per token: member dropped / changed / nulled / added, rarely a non-object payload) parsed in order by ONE GenericParser or PasetoParser. \
           Oracle (model): accept iff every expected (k, v) has S[k] present, non-null and JSON-equal to v (equal-valued int-vs-float is don't-care); rejection is a claim error; a single failure by absence is Missing(k); a differing value is never reported as Missing; the parser returns S itself on acceptance; each outcome is the model's regardless of position in the history. \
           Non-trivial = E non-empty with at least one rejecting token, or a history of >= 2 tokens; distinct by case."
      .into(),
    assumptions: vec!["for the batteries-included parser, exp/nbf expectations are excluded: its default validators take precedence over equality for those keys".into()],
  }
}
