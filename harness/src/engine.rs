//! Shared engine: sub-check runner on top of proptest's TestRunner (fixed seed, no persistence),
//! deterministic enumeration, evidence collection, known findings, replay files.
#![allow(dead_code)]

use proptest::strategy::{Strategy, ValueTree};
use proptest::test_runner::{Config, RngAlgorithm, TestCaseError, TestError, TestRng, TestRunner};
use serde::{de::DeserializeOwned, Serialize};
use serde_json::{json, Value};
use std::cell::RefCell;
use std::collections::{BTreeSet, BTreeMap, HashSet};
use std::hash::{Hash, Hasher};
use std::panic::{self, AssertUnwindSafe};
use std::path::PathBuf;
use std::sync::Mutex;
use std::time::Instant;

// ------------------------------------------------------------------------------------------------
// verdicts

#[derive(Debug, Clone)]
pub enum Verdict {
  Pass,
  /// the generated case is outside the property's domain (counted, never a failure)
  Discard,
  Violation { sig: String, detail: String },
}

impl Verdict {
  pub fn violation(sig: impl Into<String>, detail: impl Into<String>) -> Verdict {
    Verdict::Violation { sig: sig.into(), detail: detail.into() }
  }
}

/// Early-return helper: `vio!("C01:mismatch:{}", proto; "detail {}", x)`
#[macro_export]
macro_rules! vio {
  ($($sig:expr),+ ; $($det:expr),+) => {
    return $crate::engine::Verdict::Violation { sig: format!($($sig),+), detail: format!($($det),+) }
  };
}

// ------------------------------------------------------------------------------------------------
// panic capture: a silent hook that remembers where the last panic of this thread happened

thread_local! {
  static LAST_PANIC: RefCell<Option<(String, String)>> = RefCell::new(None);
}

pub fn install_panic_hook() {
  panic::set_hook(Box::new(|info| {
    let loc = info.location().map(|l| format!("{}:{}", l.file(), l.line())).unwrap_or_else(|| "?".into());
    let msg = if let Some(s) = info.payload().downcast_ref::<&str>() {
      s.to_string()
    } else if let Some(s) = info.payload().downcast_ref::<String>() {
      s.clone()
    } else {
      "<non-string panic>".to_string()
    };
    if std::env::var("PV_PANIC_TRACE").is_ok() {
      eprintln!("panic at {loc}: {msg}");
    }
    LAST_PANIC.with(|p| *p.borrow_mut() = Some((loc, msg)));
  }));
}

/// Location with the absolute repository prefix removed and the message without run-specific numbers.
fn normalise_loc(loc: &str) -> String {
  if !loc.starts_with('/') {
    // the harness crate is compiled with relative paths; the library and registry crates with absolute ones
    return format!("harness:{loc}");
  }
  let l = loc.trim_start_matches("/repo/");
  if let Some(i) = l.find("/.cargo/registry/src/") {
    let rest = &l[i + "/.cargo/registry/src/".len()..];
    return rest.splitn(2, '/').nth(1).unwrap_or(rest).to_string();
  }
  l.to_string()
}

/// Runs `f`, turning a panic into `Err((location, message))`.
pub fn catch<T>(f: impl FnOnce() -> T) -> Result<T, (String, String)> {
  LAST_PANIC.with(|p| *p.borrow_mut() = None);
  match panic::catch_unwind(AssertUnwindSafe(f)) {
    Ok(v) => Ok(v),
    Err(_) => {
      let (loc, msg) = LAST_PANIC.with(|p| p.borrow_mut().take()).unwrap_or(("?".into(), "?".into()));
      Err((normalise_loc(&loc), msg))
    }
  }
}

// ------------------------------------------------------------------------------------------------
// per-case classification

#[derive(Default)]
pub struct Classes {
  pub tags: Vec<String>,
  pub nontrivial: bool,
}
impl Classes {
  pub fn tag(&mut self, t: impl Into<String>) {
    self.tags.push(t.into());
  }
  pub fn nontrivial(&mut self, yes: bool) {
    self.nontrivial = self.nontrivial || yes;
  }
}

// ------------------------------------------------------------------------------------------------
// report of one sub-check

#[derive(Debug, Clone, Serialize)]
pub struct Found {
  pub sub: String,
  pub sig: String,
  pub detail: String,
  pub case: Value,
  pub shrunk: bool,
  /// wall-clock setting ("secs.nanos") of the child process that found it, if any
  #[serde(default)]
  pub clock: Option<String>,
  /// build profile of the child process that found it ("plain"), if not the main one
  #[serde(default)]
  pub profile: Option<String>,
  /// value every otherwise unset environment variable had in the child process that found it
  #[serde(default)]
  pub env_value: Option<String>,
}

#[derive(Default)]
pub struct SubReport {
  pub name: String,
  pub evaluations: u64,
  pub discards: u64,
  pub nontrivial: HashSet<u64>,
  pub classes: BTreeMap<String, u64>,
  pub samples: Vec<Value>,
  pub largest: Option<(usize, Value)>,
  pub found: Vec<Found>,
  pub known_hits: BTreeMap<String, u64>,
  pub exhaustive: Option<bool>,
  pub extra: BTreeMap<String, Value>,
  pub wall_s: f64,
}

pub fn hash_of<T: Hash>(t: &T) -> u64 {
  let mut h = std::collections::hash_map::DefaultHasher::new();
  t.hash(&mut h);
  h.finish()
}

fn elide(v: &Value) -> Value {
  match v {
    Value::String(s) if s.chars().count() > 96 => {
      let head: String = s.chars().take(64).collect();
      Value::String(format!("{}…(+{} bytes)", head, s.len() - head.len()))
    }
    Value::Array(a) if a.len() > 24 => {
      let mut out: Vec<Value> = a.iter().take(16).map(elide).collect();
      out.push(Value::String(format!("…(+{} items)", a.len() - 16)));
      Value::Array(out)
    }
    Value::Array(a) => Value::Array(a.iter().map(elide).collect()),
    Value::Object(o) => Value::Object(o.iter().map(|(k, v)| (k.clone(), elide(v))).collect()),
    other => other.clone(),
  }
}

// ------------------------------------------------------------------------------------------------
// sub-check definition

pub trait Sub: Sync {
  type Case: Serialize + DeserializeOwned + std::fmt::Debug + Clone;
  /// unique within the property, stable across runs (part of seeds and replay files)
  fn name(&self) -> String;
  fn check(&self, case: &Self::Case, cl: &mut Classes) -> Verdict;
}

/// object-safe view used by `replay`
pub trait DynSub: Sync {
  fn dyn_name(&self) -> String;
  fn check_json(&self, case: &Value) -> Result<Verdict, String>;
}
impl<S: Sub> DynSub for S {
  fn dyn_name(&self) -> String {
    self.name()
  }
  fn check_json(&self, case: &Value) -> Result<Verdict, String> {
    let c: S::Case = serde_json::from_value(case.clone()).map_err(|e| format!("cannot decode case: {e}"))?;
    let mut cl = Classes::default();
    Ok(guarded(self, &c, &mut cl))
  }
}

/// `check` with panics of the code under test turned into violations
pub fn guarded<S: Sub + ?Sized>(sub: &S, case: &S::Case, cl: &mut Classes) -> Verdict {
  match catch(|| sub.check(case, cl)) {
    Ok(v) => v,
    Err((loc, msg)) => Verdict::Violation { sig: format!("{}:panic:{}", sub.name(), loc), detail: format!("panicked at {loc}: {msg}") },
  }
}

// ------------------------------------------------------------------------------------------------
// context of one property run

#[derive(Clone, Copy, PartialEq, Eq, Debug)]
pub enum Tier {
  Quick,
  Thorough,
}

pub struct Ctx {
  pub property: &'static str,
  pub tier: Tier,
  pub seed: u64,
  pub known: HashSet<String>,
  pub reports: Mutex<Vec<SubReport>>,
  pub start: Instant,
}

impl Ctx {
  pub fn new(property: &'static str, tier: Tier, seed: u64) -> Ctx {
    Ctx { property, tier, seed, known: load_known(property), reports: Mutex::new(vec![]), start: Instant::now() }
  }
  pub fn quick(&self) -> bool {
    self.tier == Tier::Quick
  }
  /// Replay tier: re-executes every saved case of this property (`/verif/corpus/<id>/*.json`, minimal cases that once
  /// exposed a defect, a seeded change or a mutant) through its sub-check, bypassing proptest. Cases that no longer
  /// decode (the case type changed) are counted, not judged.
  pub fn saved_cases(&self, subs: Vec<Box<dyn DynSub>>) {
    if self.is_clock_child() {
      return;
    }
    let dir = verif_dir().join("corpus").join(self.property);
    let mut files: Vec<PathBuf> = match std::fs::read_dir(&dir) {
      Ok(rd) => rd.filter_map(|e| e.ok().map(|e| e.path())).filter(|p| p.extension().map(|x| x == "json").unwrap_or(false)).collect(),
      Err(_) => return,
    };
    files.sort();
    let t0 = Instant::now();
    let mut rep = SubReport { name: format!("{}/saved-cases", self.property), exhaustive: Some(true), ..Default::default() };
    let mut undecodable = 0u64;
    for f in &files {
      let v: Value = match std::fs::read_to_string(f).ok().and_then(|t| serde_json::from_str(&t).ok()) {
        Some(v) => v,
        None => { undecodable += 1; continue; }
      };
      if v.get("clock").map(|c| !c.is_null()).unwrap_or(false) {
        continue; // found under a set clock: only meaningful there (the clock children re-generate such cases)
      }
      let sub_name = v["sub"].as_str().unwrap_or("");
      let sub = match subs.iter().find(|s| s.dyn_name() == sub_name) {
        Some(s) => s,
        None => { undecodable += 1; continue; }
      };
      match sub.check_json(&v["case"]) {
        Ok(Verdict::Violation { sig, detail }) => {
          rep.evaluations += 1;
          rep.nontrivial.insert(hash_of(&f.display().to_string()));
          if !rep.found.iter().any(|x| x.sig == sig) {
            rep.found.push(Found { sub: sub_name.to_string(), sig, detail: format!("[saved case {}] {}", f.file_name().and_then(|n| n.to_str()).unwrap_or("?"), detail), case: v["case"].clone(), shrunk: true, clock: None, profile: None, env_value: None });
          }
        }
        Ok(_) => {
          rep.evaluations += 1;
          rep.nontrivial.insert(hash_of(&f.display().to_string()));
          *rep.classes.entry(format!("saved:{sub_name}")).or_insert(0) += 1;
          if rep.samples.len() < 2 {
            rep.samples.push(json!({"file": f.file_name().and_then(|n| n.to_str()), "sub": sub_name, "first_found_as": v["signature"]}));
          }
        }
        Err(_) => undecodable += 1,
      }
    }
    rep.extra.insert("files".into(), json!(files.len()));
    rep.extra.insert("no_longer_decodable".into(), json!(undecodable));
    rep.wall_s = t0.elapsed().as_secs_f64();
    self.reports.lock().unwrap().push(rep);
  }
  /// true in a child process that runs under a shifted wall clock (see `clock_children`)
  pub fn is_clock_child(&self) -> bool {
    std::env::var("PV_CHILD").is_ok()
  }

  /// Re-runs this property's reduced job set in child processes whose wall clock has been SET (LD_PRELOAD shim
  /// tools/fakeclock.c) to each of `instants` (label, seconds since the epoch, nanoseconds), and folds their reports in.
  /// Without the shim this is a no-op that leaves a note in the evidence.
  pub fn clock_children(&self, instants: &[(&str, i64, u32)]) {
    let lib = std::env::var("PV_FAKECLOCK").map(PathBuf::from).unwrap_or_else(|_| verif_dir().join(".work").join("libfakeclock.so"));
    let mut rep = SubReport { name: format!("{}/under-a-set-clock", self.property), exhaustive: Some(false), ..Default::default() };
    if !lib.exists() || self.is_clock_child() {
      rep.extra.insert("skipped".into(), json!("clock shim not built"));
      if !self.is_clock_child() {
        self.reports.lock().unwrap().push(rep);
      }
      return;
    }
    let exe = match std::env::current_exe() {
      Ok(e) => e,
      Err(_) => return,
    };
    let t0 = Instant::now();
    let mut per_clock = serde_json::Map::new();
    for (i, (label, secs, nanos)) in instants.iter().enumerate() {
      let clock = format!("{}.{:09}", secs, nanos);
      // the children also live in other time zones (POSIX TZ strings, no tz database needed): UTC+14, UTC-12, UTC+5:45
      let tz = ["UTC0", "AAA-14", "BBB12", "CCC-5:45"][i % 4];
      let mut cmd = std::process::Command::new(&exe);
      if label.starts_with("frozen") {
        cmd.env("PV_CLOCK_FREEZE", "1"); // the clock does not run: claims can sit on "now" to the nanosecond
      }
      let out = cmd
        .env("TZ", tz)
        .args([self.property, if self.quick() { "quick" } else { "thorough" }])
        .env("LD_PRELOAD", &lib)
        .env("PV_CLOCK_SET", &clock)
        .env("PV_CHILD", "1")
        .env("VERIF_SEED", self.seed.to_string())
        .env("PV_VERIF", verif_dir())
        .output();
      let out = match out {
        Ok(o) => o,
        Err(e) => {
          per_clock.insert(label.to_string(), json!({"error": e.to_string()}));
          continue;
        }
      };
      let text = String::from_utf8_lossy(&out.stdout);
      let line = text.lines().rev().find(|l| l.starts_with("PVCHILD "));
      let v: Value = match line.and_then(|l| serde_json::from_str(&l[8..]).ok()) {
        Some(v) => v,
        None => {
          per_clock.insert(label.to_string(), json!({"error": "child produced no report", "exit": out.status.code()}));
          rep.extra.insert("aborted".into(), json!(format!("clock child {label} produced no report")));
          continue;
        }
      };
      let n = v["evaluations"].as_u64().unwrap_or(0);
      let nt = v["distinct_nontrivial"].as_u64().unwrap_or(0);
      rep.evaluations += n;
      for i in 0..nt {
        rep.nontrivial.insert(hash_of(&(label, i)));
      }
      *rep.classes.entry(format!("clock:{label}")).or_insert(0) += n;
      if let Some(found) = v["found"].as_array() {
        for f in found {
          rep.found.push(Found {
            sub: f["sub"].as_str().unwrap_or("").to_string(),
            sig: f["sig"].as_str().unwrap_or("").to_string(),
            detail: format!("[wall clock set to {} = {}] {}", clock, label, f["detail"].as_str().unwrap_or("")),
            case: f["case"].clone(),
            shrunk: f["shrunk"].as_bool().unwrap_or(false),
            clock: Some(if label.starts_with("frozen") { format!("{clock}F") } else { clock.clone() }),
            profile: None,
            env_value: None,
          });
        }
      }
      if let Some(s) = v["sample"].as_object() {
        if rep.samples.len() < 3 {
          rep.samples.push(json!({"clock": clock, "label": label, "case": s}));
        }
      }
      per_clock.insert(label.to_string(), json!({"set_to": clock, "TZ": tz, "evaluations": n, "distinct_nontrivial": nt}));
    }
    rep.extra.insert("clocks".into(), Value::Object(per_clock));
    rep.wall_s = t0.elapsed().as_secs_f64();
    self.reports.lock().unwrap().push(rep);
  }
  /// `q` in the quick tier, `t` in the thorough tier
  pub fn n(&self, q: u32, t: u32) -> u32 {
    let n = if self.quick() { q } else { t };
    // a child process (set clock, other build profile) repeats a tenth of the generated cases
    if self.is_clock_child() {
      (n / 10).max(n.min(40))
    } else {
      n
    }
  }
  /// true in any child process of a check (set clock / other build profile): reduced job set, results handed to the parent
  pub fn is_child(&self) -> bool {
    self.is_clock_child()
  }

  /// The process environment as an input: re-runs the reduced job set in child processes in which every environment
  /// variable that is not really set (and not on the shim's pass-through list of system / toolchain names) exists and has
  /// the given value (LD_PRELOAD shim tools/envfuzz.c intercepting getenv). The names the child asked for are recorded.
  pub fn env_children(&self) {
    if self.is_child() {
      return;
    }
    let lib = std::env::var("PV_ENVFUZZ").map(PathBuf::from).unwrap_or_else(|_| verif_dir().join(".work").join("libenvfuzz.so"));
    let mut rep = SubReport { name: format!("{}/under-an-arbitrary-environment", self.property), exhaustive: Some(false), ..Default::default() };
    let exe = match std::env::current_exe() {
      Ok(e) if lib.exists() => e,
      _ => {
        rep.extra.insert("skipped".into(), json!("environment shim not built"));
        self.reports.lock().unwrap().push(rep);
        return;
      }
    };
    let values: &[&str] = if self.quick() { &["300", "2001-02-03T04:05:06Z"] } else { &["300", "2001-02-03T04:05:06Z", "1", "x", "", "86400", "-1", "true"] };
    let t0 = Instant::now();
    let mut names: BTreeSet<String> = BTreeSet::new();
    for (i, value) in values.iter().enumerate() {
      let log = verif_dir().join(".work").join(format!("envlog-{}-{}-{}.txt", self.property, std::process::id(), i));
      let _ = std::fs::remove_file(&log);
      let mut cmd = std::process::Command::new(&exe);
      cmd
        .args([self.property, if self.quick() { "quick" } else { "thorough" }])
        .env("LD_PRELOAD", &lib)
        .env("PV_ENV_VALUE", value)
        .env("PV_ENV_LOG", &log)
        .env("PV_CHILD", "1")
        .env("VERIF_SEED", self.seed.to_string())
        .env("PV_VERIF", verif_dir());
      // every other child also has a standard error stream nobody reads any more (a log collector that went away): writing
      // to it fails with EPIPE - a library that logs there must not fall over
      let out = if i % 2 == 1 {
        cmd.stdout(std::process::Stdio::piped()).stderr(std::process::Stdio::piped()).spawn().and_then(|mut child| {
          drop(child.stderr.take());
          child.wait_with_output()
        })
      } else {
        cmd.output()
      };
      if let Ok(text) = std::fs::read_to_string(&log) {
        names.extend(text.lines().map(|l| l.to_string()));
      }
      let _ = std::fs::remove_file(&log);
      let parsed: Option<Value> = out.as_ref().ok().and_then(|o| {
        let text = String::from_utf8_lossy(&o.stdout).to_string();
        text.lines().rev().find(|l| l.starts_with("PVCHILD ")).and_then(|l| serde_json::from_str(&l[8..]).ok())
      });
      match parsed {
        None => {
          rep.extra.insert("aborted".into(), json!(format!("the child with every unset variable = {:?} produced no report", value)));
        }
        Some(v) => {
          let n = v["evaluations"].as_u64().unwrap_or(0);
          rep.evaluations += n;
          for k in 0..v["distinct_nontrivial"].as_u64().unwrap_or(0) {
            rep.nontrivial.insert(hash_of(&("env", i, k)));
          }
          *rep.classes.entry(format!("environment: every unset variable = {:?}{}", value, if i % 2 == 1 { ", stderr is a broken pipe" } else { "" })).or_insert(0) += n;
          if let Some(found) = v["found"].as_array() {
            for f in found {
              rep.found.push(Found {
                sub: f["sub"].as_str().unwrap_or("").to_string(),
                sig: f["sig"].as_str().unwrap_or("").to_string(),
                detail: format!("[every environment variable that is not set reads as {:?}; names asked for: {:?}] {}", value, names, f["detail"].as_str().unwrap_or("")),
                case: f["case"].clone(),
                shrunk: f["shrunk"].as_bool().unwrap_or(false),
                clock: None,
                profile: None,
                env_value: Some(value.to_string()),
              });
            }
          }
        }
      }
    }
    rep.extra.insert("environment_names_asked_for".into(), json!(names));
    rep.wall_s = t0.elapsed().as_secs_f64();
    self.reports.lock().unwrap().push(rep);
  }

  /// Re-runs this property's reduced job set with the harness AND the library built the way `cargo build --release`
  /// builds them (profile `plain`: no debug assertions, wrapping arithmetic) - the main binary keeps both switched on so
  /// that overflows and debug assertions surface, which also means code inside `debug_assert!` runs there and nowhere else.
  pub fn profile_child(&self) {
    if self.is_child() {
      return;
    }
    let exe = match std::env::var("PV_PLAIN").map(PathBuf::from).or_else(|_| std::env::current_exe().map(|e| e.parent().and_then(|p| p.parent()).map(|p| p.join("plain").join("pv")).unwrap_or_default())) {
      Ok(e) => e,
      Err(_) => return,
    };
    let mut rep = SubReport { name: format!("{}/release-profile-without-debug-assertions", self.property), exhaustive: Some(false), ..Default::default() };
    if !exe.exists() {
      rep.extra.insert("skipped".into(), json!("plain-profile binary not built"));
      self.reports.lock().unwrap().push(rep);
      return;
    }
    let t0 = Instant::now();
    let out = std::process::Command::new(&exe)
      .args([self.property, if self.quick() { "quick" } else { "thorough" }])
      .env("PV_CHILD", "1")
      .env("VERIF_SEED", self.seed.to_string())
      .env("PV_VERIF", verif_dir())
      .output();
    let parsed: Option<Value> = out.as_ref().ok().and_then(|o| {
      let text = String::from_utf8_lossy(&o.stdout).to_string();
      text.lines().rev().find(|l| l.starts_with("PVCHILD ")).and_then(|l| serde_json::from_str(&l[8..]).ok())
    });
    match parsed {
      None => {
        rep.extra.insert("aborted".into(), json!(format!("the plain-profile child produced no report (exit {:?})", out.ok().and_then(|o| o.status.code()))));
      }
      Some(v) => {
        rep.evaluations = v["evaluations"].as_u64().unwrap_or(0);
        for i in 0..v["distinct_nontrivial"].as_u64().unwrap_or(0) {
          rep.nontrivial.insert(hash_of(&("plain", i)));
        }
        *rep.classes.entry("profile:plain".into()).or_insert(0) += rep.evaluations;
        if let Some(found) = v["found"].as_array() {
          for f in found {
            rep.found.push(Found {
              sub: f["sub"].as_str().unwrap_or("").to_string(),
              sig: f["sig"].as_str().unwrap_or("").to_string(),
              detail: format!("[library and harness built without debug assertions / overflow checks] {}", f["detail"].as_str().unwrap_or("")),
              case: f["case"].clone(),
              shrunk: f["shrunk"].as_bool().unwrap_or(false),
              clock: None,
              profile: Some("plain".into()),
              env_value: None,
            });
          }
        }
      }
    }
    rep.wall_s = t0.elapsed().as_secs_f64();
    self.reports.lock().unwrap().push(rep);
  }
  fn sub_seed(&self, sub: &str) -> [u8; 32] {
    let mut out = [0u8; 32];
    let base = hash_of(&(self.seed, self.property, sub));
    for i in 0..4 {
      out[i * 8..i * 8 + 8].copy_from_slice(&hash_of(&(base, i as u64)).to_le_bytes());
    }
    out
  }

  fn observe(&self, rep: &mut SubReport, idx: u64, case_json: impl FnOnce() -> Value, cl: &Classes, case_hash: u64) {
    rep.evaluations += 1;
    for t in &cl.tags {
      *rep.classes.entry(t.clone()).or_insert(0) += 1;
    }
    if cl.nontrivial {
      rep.nontrivial.insert(case_hash);
    }
    let keep = idx < 2 || idx == 17 || idx == 257 || idx == 2049;
    if keep && rep.samples.len() < 5 {
      rep.samples.push(elide(&case_json()));
    }
  }

  /// Generated cases: `cases` executions of `sub.check` over `strategy`, fixed seed, shrinking on failure.
  pub fn prop<S: Sub, St: Strategy<Value = S::Case>>(&self, sub: &S, strategy: St, cases: u32) {
    let t0 = Instant::now();
    let name = sub.name();
    let mut rep = SubReport { name: name.clone(), ..Default::default() };
    let config = Config {
      cases,
      failure_persistence: None,
      max_shrink_iters: 4096,
      max_shrink_time: 60_000,
      max_local_rejects: 1_000_000,
      max_global_rejects: 1_000_000,
      ..Config::default()
    };
    let rng = TestRng::from_seed(RngAlgorithm::ChaCha, &self.sub_seed(&name));
    let mut runner = TestRunner::new_with_rng(config, rng);
    // state shared with the closure
    let first: RefCell<Option<(String, String)>> = RefCell::new(None); // signature being shrunk
    let rep_cell = RefCell::new(&mut rep);
    let idx = RefCell::new(0u64);
    let result = runner.run(&strategy, |case| {
      let mut cl = Classes::default();
      let v = guarded(sub, &case, &mut cl);
      let shrinking = first.borrow().is_some();
      if !shrinking {
        let mut r = rep_cell.borrow_mut();
        let i = *idx.borrow();
        *idx.borrow_mut() += 1;
        match &v {
          Verdict::Discard => {
            r.discards += 1;
          }
          _ => {
            let h = hash_of(&serde_json::to_string(&case).unwrap_or_default());
            self.observe(&mut r, i, || serde_json::to_value(&case).unwrap_or(Value::Null), &cl, h);
          }
        }
      }
      match v {
        Verdict::Pass => Ok(()),
        Verdict::Discard => Ok(()),
        Verdict::Violation { sig, detail } => {
          if self.known.contains(&sig) {
            if !shrinking {
              *rep_cell.borrow_mut().known_hits.entry(sig).or_insert(0) += 1;
            }
            return Ok(());
          }
          let mut f = first.borrow_mut();
          match &*f {
            None => {
              *f = Some((sig.clone(), detail.clone()));
              Err(TestCaseError::fail(sig))
            }
            Some((s0, _)) if *s0 == sig => Err(TestCaseError::fail(sig)),
            // a different violation met while shrinking: not the one being minimised
            Some(_) => Ok(()),
          }
        }
      }
    });
    drop(rep_cell);
    match result {
      Ok(()) => {}
      Err(TestError::Fail(_, minimal)) => {
        let (sig, _) = first.borrow().clone().unwrap_or(("?".into(), "?".into()));
        // re-evaluate the minimal case for its own detail text
        let mut cl = Classes::default();
        let detail = match guarded(sub, &minimal, &mut cl) {
          Verdict::Violation { detail, .. } => detail,
          _ => "(violation did not reproduce on the shrunk case)".to_string(),
        };
        rep.found.push(Found { sub: name.clone(), sig, detail, case: serde_json::to_value(&minimal).unwrap_or(Value::Null), shrunk: true, clock: None, profile: None, env_value: None });
      }
      Err(TestError::Abort(reason)) => {
        rep.extra.insert("aborted".into(), Value::String(reason.to_string()));
      }
    }
    rep.wall_s = t0.elapsed().as_secs_f64();
    self.reports.lock().unwrap().push(rep);
  }

  /// Deterministic enumeration of `cases`; keeps going after violations (one replay per distinct signature).
  pub fn enumerate<S: Sub>(&self, sub: &S, cases: impl Iterator<Item = S::Case>, exhaustive: bool) {
    let t0 = Instant::now();
    let name = sub.name();
    let mut rep = SubReport { name: name.clone(), exhaustive: Some(exhaustive), ..Default::default() };
    let mut seen_sigs: HashSet<String> = HashSet::new();
    for (i, case) in cases.enumerate() {
      let mut cl = Classes::default();
      let v = guarded(sub, &case, &mut cl);
      match v {
        Verdict::Discard => rep.discards += 1,
        Verdict::Pass => {
          let h = hash_of(&serde_json::to_string(&case).unwrap_or_default());
          self.observe(&mut rep, i as u64, || serde_json::to_value(&case).unwrap_or(Value::Null), &cl, h);
        }
        Verdict::Violation { sig, detail } => {
          let h = hash_of(&serde_json::to_string(&case).unwrap_or_default());
          self.observe(&mut rep, i as u64, || serde_json::to_value(&case).unwrap_or(Value::Null), &cl, h);
          if self.known.contains(&sig) {
            *rep.known_hits.entry(sig).or_insert(0) += 1;
          } else if seen_sigs.insert(sig.clone()) && rep.found.len() < 20 {
            rep.found.push(Found { sub: name.clone(), sig, detail, case: serde_json::to_value(&case).unwrap_or(Value::Null), shrunk: false, clock: None, profile: None, env_value: None });
          }
        }
      }
    }
    rep.wall_s = t0.elapsed().as_secs_f64();
    self.reports.lock().unwrap().push(rep);
  }

  /// Thorough tier: re-judge, outside libFuzzer, every artifact (crash input) a libFuzzer campaign left under
  /// `$PV_FUZZ_DIR/<target>/artifacts`, and fold the campaign's statistics (`stats.json`) into the evidence.
  /// Without a campaign directory this is a no-op.
  pub fn fuzz_inputs<S: Sub>(&self, sub: &S, target: &str, decode: impl Fn(&[u8]) -> Option<S::Case>) {
    let dir = match std::env::var("PV_FUZZ_DIR") {
      Ok(d) => PathBuf::from(d).join(target),
      Err(_) => return,
    };
    if !dir.exists() {
      return;
    }
    let t0 = Instant::now();
    let mut rep = SubReport { name: sub.name(), exhaustive: Some(false), ..Default::default() };
    let mut seen: HashSet<String> = HashSet::new();
    let mut files: Vec<PathBuf> = vec![];
    for sub_dir in ["artifacts"] {
      if let Ok(rd) = std::fs::read_dir(dir.join(sub_dir)) {
        for e in rd.flatten() {
          files.push(e.path());
        }
      }
    }
    files.sort();
    for (i, f) in files.iter().enumerate() {
      let data = match std::fs::read(f) {
        Ok(d) => d,
        Err(_) => continue,
      };
      let case = match decode(&data) {
        Some(c) => c,
        None => {
          rep.discards += 1;
          continue;
        }
      };
      let mut cl = Classes::default();
      cl.tag("libfuzzer-artifact");
      let v = guarded(sub, &case, &mut cl);
      let h = hash_of(&data);
      self.observe(&mut rep, i as u64, || serde_json::to_value(&case).unwrap_or(Value::Null), &cl, h);
      if let Verdict::Violation { sig, detail } = v {
        if self.known.contains(&sig) {
          *rep.known_hits.entry(sig).or_insert(0) += 1;
        } else if seen.insert(sig.clone()) {
          rep.found.push(Found { sub: sub.name(), sig, detail, case: serde_json::to_value(&case).unwrap_or(Value::Null), shrunk: false, clock: None, profile: None, env_value: None });
        }
      }
    }
    if let Ok(txt) = std::fs::read_to_string(dir.join("stats.json")) {
      if let Ok(v) = serde_json::from_str::<Value>(&txt) {
        rep.extra.insert("libfuzzer".into(), v);
      }
    }
    rep.extra.insert("artifacts_rejudged".into(), json!(files.len()));
    rep.wall_s = t0.elapsed().as_secs_f64();
    self.reports.lock().unwrap().push(rep);
  }

  /// A sub-check that computes its own report (histories measured as a whole, e.g. C10).
  pub fn push_report(&self, rep: SubReport) {
    self.reports.lock().unwrap().push(rep);
  }
}

// ------------------------------------------------------------------------------------------------
// parallel execution of independent sub-check jobs

pub type Job<'a> = Box<dyn FnOnce() + Send + 'a>;

/// panics that escaped from a job of the harness itself: the run is INCONCLUSIVE (exit 2) unless it found a violation
pub static JOB_PANICS: Mutex<Vec<String>> = Mutex::new(Vec::new());

pub fn run_jobs(jobs: Vec<Job<'_>>) {
  let threads = std::env::var("PV_THREADS").ok().and_then(|s| s.parse().ok()).unwrap_or(16usize).max(1);
  let queue = Mutex::new(jobs.into_iter().collect::<std::collections::VecDeque<_>>());
  std::thread::scope(|s| {
    for _ in 0..threads {
      s.spawn(|| loop {
        let job = queue.lock().unwrap().pop_front();
        match job {
          // a panic inside a job (case construction, harness arithmetic) must not take the whole run down silently
          Some(j) => {
            if let Err((loc, msg)) = catch(j) {
              JOB_PANICS.lock().unwrap().push(format!("{loc}: {msg}"));
            }
          }
          None => break,
        }
      });
    }
  });
}

// ------------------------------------------------------------------------------------------------
// known findings, evidence, replay files

pub fn verif_dir() -> PathBuf {
  if let Ok(d) = std::env::var("PV_VERIF") {
    return PathBuf::from(d);
  }
  // harness/target/release/pv -> /verif
  let exe = std::env::current_exe().ok();
  if let Some(e) = exe {
    let mut p = e.clone();
    for _ in 0..4 {
      p.pop();
    }
    if p.join("properties.jsonl").exists() {
      return p;
    }
  }
  PathBuf::from("/verif")
}

fn load_known(property: &str) -> HashSet<String> {
  let path = verif_dir().join("known_findings.json");
  let mut out = HashSet::new();
  if let Ok(txt) = std::fs::read_to_string(path) {
    if let Ok(v) = serde_json::from_str::<Value>(&txt) {
      if let Some(open) = v["open"].as_array() {
        for e in open {
          if e["property"].as_str() == Some(property) {
            if let Some(s) = e["signature"].as_str() {
              out.insert(s.to_string());
            }
          }
        }
      }
    }
  }
  out
}

pub struct Outcome {
  pub exit_code: i32,
}

pub struct EvidenceMeta {
  pub rule: String,
  pub assumptions: Vec<String>,
}

pub fn finish(ctx: Ctx, meta: EvidenceMeta) -> Outcome {
  let mut reports = ctx.reports.into_inner().unwrap();
  reports.sort_by(|a, b| a.name.cmp(&b.name));
  let dir = verif_dir();
  let mut evaluations = 0u64;
  let mut discards = 0u64;
  let mut nontrivial: HashSet<u64> = HashSet::new();
  let mut classes: BTreeMap<String, u64> = BTreeMap::new();
  let mut samples: Vec<Value> = vec![];
  let mut per_sub = serde_json::Map::new();
  let mut all_found: Vec<Found> = vec![];
  let mut known_hits: BTreeMap<String, u64> = BTreeMap::new();
  let mut exhaustive_all = true;
  let mut any_exhaustive = false;
  let mut extra = serde_json::Map::new();
  let mut aborted = false;
  for r in &reports {
    evaluations += r.evaluations;
    discards += r.discards;
    for h in &r.nontrivial {
      nontrivial.insert(hash_of(&(&r.name, h)));
    }
    for (k, v) in &r.classes {
      *classes.entry(k.clone()).or_insert(0) += v;
    }
    for s in r.samples.iter().take(if reports.len() > 12 { 1 } else { 3 }) {
      if samples.len() < 24 {
        samples.push(json!({"sub": r.name, "case": s}));
      }
    }
    // several reports may carry one name (a sub-check split over jobs): they are summed
    let prev = per_sub.get(&r.name).cloned().unwrap_or(json!({}));
    let num = |k: &str| prev.get(k).and_then(|v| v.as_f64()).unwrap_or(0.0);
    let exhaustive = match (prev.get("exhaustive").cloned(), r.exhaustive) {
      (None, e) => json!(e),
      (Some(p), Some(e)) if p == json!(e) => json!(e),
      (Some(p), None) => p,
      _ => json!(false),
    };
    per_sub.insert(
      r.name.clone(),
      json!({"evaluations": num("evaluations") as u64 + r.evaluations, "distinct_nontrivial": num("distinct_nontrivial") as u64 + r.nontrivial.len() as u64, "discards": num("discards") as u64 + r.discards, "exhaustive": exhaustive, "jobs": num("jobs") as u64 + 1, "wall_s": ((num("wall_s") + r.wall_s) * 100.0).round() / 100.0}),
    );
    match r.exhaustive {
      Some(true) => any_exhaustive = true,
      _ => exhaustive_all = false,
    }
    for f in &r.found {
      all_found.push(f.clone());
    }
    for (k, v) in &r.known_hits {
      *known_hits.entry(k.clone()).or_insert(0) += v;
    }
    for (k, v) in &r.extra {
      if k == "aborted" {
        aborted = true;
      }
      extra.insert(format!("{}:{}", r.name, k), v.clone());
    }
  }
  if std::env::var("PV_CHILD").is_ok() {
    // child under a set clock: hand the raw results to the parent, which writes evidence and replay files
    let sample = reports.iter().flat_map(|r| r.samples.iter()).next().cloned().unwrap_or(Value::Null);
    let body = json!({"evaluations": evaluations, "distinct_nontrivial": nontrivial.len(), "found": all_found, "sample": {"case": sample}});
    println!("PVCHILD {}", body);
    return Outcome { exit_code: 0 };
  }
  // one replay file per distinct signature
  let mut exit_code = 0;
  let mut seen: HashSet<String> = HashSet::new();
  let mut lines: Vec<String> = vec![];
  let _ = std::fs::create_dir_all(dir.join("replays"));
  let mut harness_bug = false;
  for f in &all_found {
    if f.sig.contains(":panic:harness:") {
      // a panic inside the harness's own code is a bug of the check, never a violation of the property
      println!("INCONCLUSIVE: harness bug in {}: {}", f.sub, f.detail.chars().take(300).collect::<String>());
      harness_bug = true;
      continue;
    }
    if !seen.insert(f.sig.clone()) {
      continue;
    }
    let h = hash_of(&f.sig);
    let path = dir.join("replays").join(format!("{}-{:012x}.json", ctx.property, h & 0xffff_ffff_ffff));
    let mut body = json!({"property": ctx.property, "sub": f.sub, "signature": f.sig, "detail": f.detail, "shrunk": f.shrunk, "case": f.case});
    if let Some(c) = &f.clock {
      body["clock"] = json!(c);
    }
    if let Some(p) = &f.profile {
      body["profile"] = json!(p);
    }
    if let Some(e) = &f.env_value {
      body["env_value"] = json!(e);
    }
    let _ = std::fs::write(&path, serde_json::to_string_pretty(&body).unwrap());
    let mut d = f.detail.clone();
    if d.len() > 700 {
      let mut cut = 700;
      while !d.is_char_boundary(cut) {
        cut -= 1;
      }
      d.truncate(cut);
      d.push('…');
    }
    lines.push(format!("violation: {} :: {}", f.sig, d.replace('\n', " ")));
    lines.push(format!("VIOLATION property={} replay={}", ctx.property, path.display()));
    exit_code = 1;
  }
  for (sig, n) in &known_hits {
    println!("KNOWN-FINDING: property={} {} ({} cases excluded)", ctx.property, sig, n);
  }
  for l in &lines {
    println!("{l}");
  }
  let wall = ctx.start.elapsed().as_secs_f64();
  let mut coverage = serde_json::Map::new();
  coverage.insert("evaluations".into(), json!(evaluations));
  coverage.insert("distinct_nontrivial".into(), json!(nontrivial.len()));
  coverage.insert("rule".into(), json!(meta.rule));
  coverage.insert("samples".into(), Value::Array(samples));
  coverage.insert("exhaustive".into(), json!(any_exhaustive && exhaustive_all));
  coverage.insert("discarded".into(), json!(discards));
  coverage.insert("classes".into(), json!(classes));
  coverage.insert("sub_checks".into(), Value::Object(per_sub));
  coverage.insert("known_findings_excluded".into(), json!(known_hits));
  for (k, v) in extra {
    coverage.insert(k, v);
  }
  let ev = json!({
    "property_id": ctx.property,
    "tier": if ctx.tier == Tier::Quick { "quick" } else { "thorough" },
    "seed": ctx.seed,
    "level": "exploration",
    "coverage": Value::Object(coverage),
    "assumptions": meta.assumptions,
    "wall_s": (wall * 100.0).round() / 100.0,
    "violations": seen.len(),
  });
  let _ = std::fs::create_dir_all(dir.join("evidence"));
  let tmp = dir.join("evidence").join(format!("{}.json.tmp", ctx.property));
  let fin = dir.join("evidence").join(format!("{}.json", ctx.property));
  let _ = std::fs::write(&tmp, serde_json::to_string_pretty(&ev).unwrap());
  let _ = std::fs::rename(&tmp, &fin);
  println!(
    "{} {}: {} evaluations, {} distinct non-trivial, {} discarded, {} unlisted violation signature(s), {:.1}s",
    ctx.property,
    if ctx.tier == Tier::Quick { "quick" } else { "thorough" },
    evaluations,
    nontrivial.len(),
    discards,
    seen.len(),
    wall
  );
  if exit_code == 0 && harness_bug {
    exit_code = 2;
  }
  let job_panics = JOB_PANICS.lock().unwrap().clone();
  if exit_code == 0 && !job_panics.is_empty() {
    println!("INCONCLUSIVE: {} job(s) of the harness panicked, e.g. at {}", job_panics.len(), job_panics[0].chars().take(300).collect::<String>());
    exit_code = 2;
  }
  let timeouts = HELPER_TIMEOUTS.lock().unwrap().clone();
  if exit_code == 0 && !timeouts.is_empty() {
    println!("INCONCLUSIVE: {} helper process(es) did not finish within the time limit, e.g. {}", timeouts.len(), timeouts[0]);
    exit_code = 2;
  }
  if exit_code == 0 && aborted {
    println!("INCONCLUSIVE: a generator aborted (too many rejections)");
    exit_code = 2;
  }
  Outcome { exit_code }
}

/// `pv replay`: re-execute one saved case through the sub-check's `check`, no proptest involved.
pub fn replay(property: &str, subs: Vec<Box<dyn DynSub>>, file: &str) -> i32 {
  let txt = match std::fs::read_to_string(file) {
    Ok(t) => t,
    Err(e) => {
      println!("cannot read {file}: {e}");
      return 2;
    }
  };
  let v: Value = match serde_json::from_str(&txt) {
    Ok(v) => v,
    Err(e) => {
      println!("cannot parse {file}: {e}");
      return 2;
    }
  };
  if let (Some(value), Err(_)) = (v["env_value"].as_str(), std::env::var("PV_ENV_VALUE")) {
    // found in a child whose unset environment variables all read as `value`: replay it there
    let lib = std::env::var("PV_ENVFUZZ").map(PathBuf::from).unwrap_or_else(|_| verif_dir().join(".work").join("libenvfuzz.so"));
    if lib.exists() {
      if let Ok(exe) = std::env::current_exe() {
        let st = std::process::Command::new(exe).args([property, "--replay", file]).env("LD_PRELOAD", &lib).env("PV_ENV_VALUE", value).status();
        return st.ok().and_then(|s| s.code()).unwrap_or(2);
      }
    }
    println!("replay: the environment shim is not available; replaying in the real environment");
  }
  if let (Some("plain"), Err(_)) = (v["profile"].as_str(), std::env::var("PV_CHILD")) {
    // found by the binary built without debug assertions: replay it there
    let exe = std::env::var("PV_PLAIN").map(PathBuf::from).unwrap_or_else(|_| std::env::current_exe().ok().and_then(|e| e.parent().and_then(|p| p.parent()).map(|p| p.join("plain").join("pv"))).unwrap_or_default());
    if exe.exists() && std::env::current_exe().ok().as_deref() != Some(exe.as_path()) {
      let st = std::process::Command::new(exe).args([property, "--replay", file]).status();
      return st.ok().and_then(|s| s.code()).unwrap_or(2);
    }
  }
  if let (Some(clock), Err(_)) = (v["clock"].as_str(), std::env::var("PV_CLOCK_SET")) {
    // the case was found under a set wall clock: replay it in a child under the same clock
    let lib = std::env::var("PV_FAKECLOCK").map(PathBuf::from).unwrap_or_else(|_| verif_dir().join(".work").join("libfakeclock.so"));
    if lib.exists() {
      if let Ok(exe) = std::env::current_exe() {
        // a trailing F: the clock stood still at that instant
        let mut cmd = std::process::Command::new(exe);
        if clock.ends_with('F') {
          cmd.env("PV_CLOCK_FREEZE", "1");
        }
        let st = cmd.args([property, "--replay", file]).env("LD_PRELOAD", &lib).env("PV_CLOCK_SET", clock.trim_end_matches('F')).status();
        return st.ok().and_then(|s| s.code()).unwrap_or(2);
      }
    }
    println!("replay: the clock shim is not available; replaying under the real clock");
  }
  let sub_name = v["sub"].as_str().unwrap_or("");
  for s in subs {
    if s.dyn_name() == sub_name {
      return match s.check_json(&v["case"]) {
        Ok(Verdict::Violation { sig, detail }) => {
          println!("replay: violation {sig} :: {detail}");
          let abs = std::fs::canonicalize(file).map(|p| p.display().to_string()).unwrap_or(file.to_string());
          println!("VIOLATION property={property} replay={abs}");
          1
        }
        Ok(_) => {
          println!("replay: case passes on this tree");
          0
        }
        Err(e) => {
          println!("replay: {e}");
          2
        }
      };
    }
  }
  println!("replay: no sub-check named '{sub_name}' in {property}");
  2
}

/// Runs `pv <mode> all|<index>` in helper processes - the binary of this process and, when it was built, the
/// unoptimised one (`target/debug/pv`: no inlining, no tail calls: recursion there is as deep as it is written) - and turns
/// what they print (`CASE i desc` before, `RESULT i returned|PANIC loc msg` after each case, `DONE` at the end) into a
/// verdict: a caught panic or a helper that died is a violation for the announced case.
pub fn helper_verdict(property: &str, mode: &str, index: u32, cl: &mut Classes) -> Verdict {
  let exe = match std::env::current_exe() {
    Ok(e) => e,
    Err(_) => return Verdict::Discard,
  };
  let mut binaries = vec![("release", exe.clone())];
  if let Some(dev) = exe.parent().and_then(|p| p.parent()).map(|p| p.join("debug").join("pv")) {
    if dev.exists() {
      binaries.push(("unoptimised", dev));
    }
  }
  let arg = if index == u32::MAX { "all".to_string() } else { index.to_string() };
  let mut total = 0;
  for (profile, bin) in binaries {
    let mut cmd = std::process::Command::new(&bin);
    if profile == "unoptimised" {
      cmd.env("PV_HELPER_LIGHT", "1");
    }
    let out = match run_helper(cmd.args([mode, &arg]), 300, &format!("{property} helper {mode} {arg} ({profile} build)")) {
      Some(o) if !o.timed_out => o,
      _ => continue,
    };
    let text = out.stdout.clone();
    let cases = text.lines().filter(|l| l.starts_with("CASE ")).count();
    total += cases;
    cl.tag(format!("helper process ({profile} build): {} cases", if cases >= 100 { ">=100" } else { "<100" }));
    if let Some(p) = text.lines().find(|l| l.starts_with("RESULT ") && l.contains(" PANIC ")) {
      let idx: u32 = p.split(' ').nth(1).and_then(|x| x.parse().ok()).unwrap_or(0);
      let desc = text.lines().find(|l| l.starts_with(&format!("CASE {idx} "))).unwrap_or("").to_string();
      return Verdict::Violation { sig: format!("{property}:panic:{}", p.split(' ').nth(3).unwrap_or("?")), detail: format!("[{profile} build] {desc}: {p}") };
    }
    if !text.lines().any(|l| l == "DONE") {
      let last = text.lines().filter(|l| l.starts_with("CASE ")).last().unwrap_or("CASE ? (none announced)").to_string();
      return Verdict::Violation {
        sig: format!("{property}:process-died-on-long-or-deep-input"),
        detail: format!("[{profile} build] the helper process ended with {:?} (stack overflow / abort - nothing a caller could catch) while handling: {}", out.status, last),
      };
    }
  }
  cl.nontrivial(total > 0);
  Verdict::Pass
}

/// helper processes that did not finish within their limit (killed): reported as INCONCLUSIVE (exit 2) unless a violation
/// was found as well - a time limit is never a verdict
pub static HELPER_TIMEOUTS: Mutex<Vec<String>> = Mutex::new(Vec::new());

pub struct HelperOut {
  pub status: Option<std::process::ExitStatus>,
  pub stdout: String,
  pub timed_out: bool,
}

/// Runs a helper process to its end or kills it after `secs` seconds (recording that). stdout is collected, stderr dropped.
pub fn run_helper(cmd: &mut std::process::Command, secs: u64, what: &str) -> Option<HelperOut> {
  use std::io::Read;
  let mut child = cmd.stdout(std::process::Stdio::piped()).stderr(std::process::Stdio::null()).stdin(std::process::Stdio::null()).spawn().ok()?;
  let mut out = child.stdout.take()?;
  let reader = std::thread::spawn(move || {
    let mut s = String::new();
    let _ = out.read_to_string(&mut s);
    s
  });
  let start = Instant::now();
  let (status, timed_out) = loop {
    match child.try_wait() {
      Ok(Some(st)) => break (Some(st), false),
      Ok(None) if start.elapsed().as_secs() >= secs => {
        let _ = child.kill();
        let _ = child.wait();
        HELPER_TIMEOUTS.lock().unwrap().push(format!("{what} (limit {secs} s)"));
        break (None, true);
      }
      Ok(None) => std::thread::sleep(std::time::Duration::from_millis(2)),
      Err(_) => break (None, false),
    }
  };
  Some(HelperOut { status, stdout: reader.join().unwrap_or_default(), timed_out })
}

/// helper for strategies: monotone index map (shrinks toward the first alternative)
pub fn pick(i: u16, len: usize) -> usize {
  ((i as usize) * len) >> 16
}

pub fn tree_current<S: Strategy>(s: &S, runner: &mut TestRunner) -> S::Value {
  s.new_tree(runner).expect("strategy").current()
}
