//! C05 – the footer is authenticated and must match the caller's expected footer.
use crate::c03::{tok_spec, TokSpec};
use crate::engine::*;
use crate::gen;
use crate::keys;
use crate::proto::*;
use crate::rt::parse_twice;
use proptest::prelude::*;
use serde::{Deserialize, Serialize};

#[derive(Clone, Debug, Serialize, Deserialize)]
pub enum Related {
  Same,
  /// None <-> Some("")
  EmptyVsNone,
  None,
  Empty,
  Prefix(u8),
  Extend(String),
  CaseFlip,
  /// change the last byte so that the base64 encodings differ only towards the end
  LastByte(u8),
  Other(String),
  /// one character from a list of "invisible" decorations (BOM, NUL, whitespace, zero-width, combining mark)
  /// prepended (false) or appended (true)
  Decorate(bool, u8),
  /// the text is a JSON object: the SAME document written another way (0 pretty-printed, 1 members in reverse order,
  /// 2 a blank after every colon, 3 first letter of the first key as a \\u escape, 4 a shadowed duplicate of the first
  /// member in front); if the text is no JSON object, a fixed JSON footer / its respelling pair is not derivable: None
  JsonRespell(u8),
  /// another string that a normalising / case-folding comparison takes for the same (`gen::confusable`)
  Confusable(u8),
}

/// another spelling of the JSON object `text` (None if it is none or nothing changes)
pub fn json_respell(text: &str, how: u8) -> Option<String> {
  let v: serde_json::Value = serde_json::from_str(text).ok()?;
  let obj = v.as_object()?;
  if obj.is_empty() {
    return Some("{ }".to_string());
  }
  let members: Vec<(String, String)> = obj.iter().map(|(k, v)| (serde_json::Value::String(k.clone()).to_string(), v.to_string())).collect();
  let out = match how % 5 {
    0 => serde_json::to_string_pretty(&v).ok()?,
    1 => format!("{{{}}}", members.iter().rev().map(|(k, v)| format!("{k}:{v}")).collect::<Vec<_>>().join(",")),
    2 => format!("{{{}}}", members.iter().map(|(k, v)| format!("{k}: {v}")).collect::<Vec<_>>().join(", ")),
    3 => {
      let (k0, v0) = &members[0];
      let inner: Vec<char> = k0[1..k0.len() - 1].chars().collect();
      match inner.first() {
        Some(c) if c.is_ascii_alphanumeric() => {
          let esc = format!("\"\\u{:04x}{}\"", *c as u32, inner[1..].iter().collect::<String>());
          format!("{{{}}}", std::iter::once(format!("{esc}:{v0}")).chain(members[1..].iter().map(|(k, v)| format!("{k}:{v}"))).collect::<Vec<_>>().join(","))
        }
        _ => return None,
      }
    }
    _ => {
      let (k0, _) = &members[0];
      format!("{{{k0}:\"shadowed\",{}}}", members.iter().map(|(k, v)| format!("{k}:{v}")).collect::<Vec<_>>().join(","))
    }
  };
  if out == text { None } else { Some(out) }
}

pub const DECOR: [&str; 14] = ["\u{feff}", "\0", " ", "\t", "\n", "\r\n", "\u{200b}", "\u{301}", "\u{a0}", "\u{3000}", "\u{2028}", "\u{7f}", "\u{200e}", "\u{1}"];

#[derive(Clone, Debug, Serialize, Deserialize)]
pub enum SegEdit {
  /// no token-side edit: only the expected footer varies
  Keep,
  /// replace the footer segment by the encoding of the related footer
  Replace,
  Remove,
  /// keep the dot, drop the segment's characters
  Blank,
  /// append n base64 characters to the footer segment (n from a list around powers of two)
  Extend(u8),
  /// cut n characters off the end of the footer segment
  Truncate(u8),
  /// append 1 or 2 '=' to the footer segment (base64 padding: decodes to the same footer under a lenient decoder)
  Pad(u8),
  /// the footer segment becomes (or, for a token without footer, a fourth segment is added that is) text that is no
  /// unpadded base64url at all: "A", "=", "Zm9v=", "Zh" (non-zero trailing bits), "!!!!", "-", "AA=A", "A A"
  Junk(u8),
  /// one character of the footer segment (or the dot in front of it) written as its percent-escape (`A` -> `%41`)
  PercentEscape(u16),
  /// the footer segment written k = 2..=4 times in a row
  Repeat(u8),
  /// the segment cut down to one period of itself, if its text is periodic ("ZmZm" -> "Zm")
  OnePeriod,
  /// the DECODED footer with one invisible or look-alike character inserted / swapped in (soft hyphen, zero-width space /
  /// joiners, word joiner, variation selector, or `gen::confusable`), re-encoded: another footer, spelt almost alike
  DecodedLookAlike(u16, u8),
}

pub const INVISIBLES: [char; 12] = ['\u{ad}', '\u{200b}', '\u{200c}', '\u{200d}', '\u{2060}', '\u{feff}', '\u{fe0f}', '\u{200e}', '\u{202a}', '\u{2066}', '\u{34f}', '\u{180e}'];

pub const JUNK_SEGMENTS: [&str; 8] = ["A", "=", "Zm9v=", "Zh", "!!!!", "-", "AA=A", "A A"];

pub const SEG_DELTAS: [usize; 12] = [1, 2, 3, 4, 255, 256, 257, 512, 1024, 65535, 65536, 65537];

#[derive(Clone, Debug, Serialize, Deserialize)]
pub struct FooterCase {
  pub tok: TokSpec,
  pub rel: Related,
  pub edit: SegEdit,
}

pub fn related(orig: &Option<String>, rel: &Related) -> Option<String> {
  let o = orig.clone().unwrap_or_default();
  match rel {
    Related::Same => orig.clone(),
    Related::EmptyVsNone => match orig {
      None => Some(String::new()),
      Some(s) if s.is_empty() => None,
      Some(s) => Some(s.clone()),
    },
    Related::None => None,
    Related::Empty => Some(String::new()),
    Related::Prefix(n) => {
      let chars: Vec<char> = o.chars().collect();
      if chars.is_empty() {
        return Some("x".into());
      }
      let keep = (*n as usize) % chars.len();
      Some(chars[..keep].iter().collect())
    }
    Related::Extend(s) => Some(format!("{o}{}", if s.is_empty() { "x" } else { s })),
    Related::Confusable(h) => crate::gen::confusable(&o, *h),
    Related::CaseFlip => Some(o.chars().map(|c| if c.is_ascii_lowercase() { c.to_ascii_uppercase() } else if c.is_ascii_uppercase() { c.to_ascii_lowercase() } else { c }).collect()),
    Related::LastByte(d) => {
      let mut chars: Vec<char> = o.chars().collect();
      match chars.pop() {
        Some(c) if c.is_ascii() => {
          let n = ((c as u8) ^ (1 + (d % 3))) & 0x7f;
          chars.push(n as char);
          Some(chars.into_iter().collect())
        }
        Some(_) => {
          chars.push('z');
          Some(chars.into_iter().collect())
        }
        None => Some("A".into()),
      }
    }
    Related::Other(s) => Some(s.clone()),
    Related::Decorate(after, i) => {
      let d = DECOR[(*i as usize) % DECOR.len()];
      Some(if *after { format!("{o}{d}") } else { format!("{d}{o}") })
    }
    // (callers substitute a JSON footer first when the original is none - see `with_json`)
    Related::JsonRespell(how) => Some(json_respell(&o, *how).unwrap_or_else(|| format!("{o} "))),
  }
}

/// for the JsonRespell relation the original text must be a JSON object: replace it by one if it is not
pub fn with_json(orig: &Option<String>, rel: &Related) -> Option<String> {
  match rel {
    Related::JsonRespell(how) if orig.as_deref().and_then(|o| json_respell(o, *how)).is_none() => {
      Some(["{\"kid\":\"k4.lid.abc\",\"n\":1}", "{\"tenant\":42,\"user\":\"rick\"}", "{\"keys\":[{\"kid\":\"a\"},{\"kid\":\"b\"}],\"v\":2}"][*how as usize % 3].to_string())
    }
    _ => orig.clone(),
  }
}

fn norm(f: &Option<String>) -> &str {
  f.as_deref().unwrap_or("")
}

pub struct FooterBinding {
  pub proto: Proto,
  pub layer: Layer,
}

impl Sub for FooterBinding {
  type Case = FooterCase;
  fn name(&self) -> String {
    format!("C05/{}/{}", self.proto.label(), self.layer.label())
  }
  fn check(&self, c: &FooterCase, cl: &mut Classes) -> Verdict {
    let mut spec = c.tok.clone();
    spec.footer = with_json(&spec.footer, &c.rel);
    let s = &spec;
    let p = s.proto;
    let t = match s.token() {
      Ok(t) => t,
      Err(_) => return Verdict::Discard,
    };
    let km = keys::material(p, &s.seed());
    let lk = km.lib().expect("valid key");
    let f = &s.footer;
    let f2 = related(f, &c.rel);
    cl.tag(format!("{}:{}", p.label(), s.layer.label()));
    cl.tag(format!("related:{}", match &c.rel {
      Related::Same => "same", Related::EmptyVsNone => "none-vs-empty", Related::None => "none", Related::Empty => "empty", Related::Prefix(_) => "prefix",
      Related::Extend(_) => "extension", Related::CaseFlip => "case", Related::LastByte(_) => "last-byte", Related::Other(_) => "unrelated", Related::Decorate(..) => "invisible-decoration", Related::JsonRespell(_) => "same-json-document-respelt", Related::Confusable(_) => "unicode-confusable" }));
    cl.tag(format!("edit:{}", match c.edit { SegEdit::Keep => "keep", SegEdit::Replace => "replace", SegEdit::Remove => "remove", SegEdit::Blank => "blank", SegEdit::Extend(_) => "extend", SegEdit::Truncate(_) => "truncate", SegEdit::Pad(_) => "pad", SegEdit::Junk(_) => "junk", SegEdit::PercentEscape(_) => "percent-escape", SegEdit::Repeat(_) => "repeat", SegEdit::OnePeriod => "one-period", SegEdit::DecodedLookAlike(..) => "decoded-look-alike" }));
    // (iii) shape of the produced token
    let (header, pseg, fseg) = split_token(&t).expect("well-formed token");
    let want_seg = if norm(f).is_empty() { None } else { Some(b64(norm(f).as_bytes())) };
    if fseg != want_seg {
      vio!("C05:footer-segment-shape:{}:{}", p.label(), s.layer.label(); "token for footer {:?} carries footer segment {:?}, expected {:?}", f, fseg, want_seg);
    }
    // every judged parse goes through a parser object that has just accepted the unedited token under F
    // (parser state carried from one parse to the next must not change the outcome)
    let a = s.assertion();
    match c.edit {
      SegEdit::Keep => {
        cl.nontrivial(norm(f) != norm(&f2));
        let (ctl, r) = parse_twice(p, s.layer, (&t, &lk, f.as_deref(), a), (&t, &lk, f2.as_deref(), a));
        match ctl {
          Ok(o) if o.message().as_deref() == Some(s.msg.as_str()) => {}
          Ok(o) => vio!("C05:wrong-message:{}:{}", p.label(), s.layer.label(); "accepted under its own footer but returned {:?} instead of {:?}", o.message(), s.msg),
          Err(e) => vio!("C05:rejected-matching-footer:{}:{}:{}", p.label(), s.layer.label(), e.variant; "token built with footer {:?} rejected under the same expected footer: {}", f, e.text),
        }
        let r = r.map(|o| o.message());
        let should_accept = norm(f) == norm(&f2);
        match (should_accept, r) {
          (true, Ok(m)) if m.as_deref() == Some(s.msg.as_str()) => Verdict::Pass,
          (true, Ok(m)) => vio!("C05:wrong-message:{}:{}", p.label(), s.layer.label(); "accepted but returned {:?} instead of {:?}", m, s.msg),
          (true, Err(e)) => vio!("C05:rejected-matching-footer:{}:{}:{}", p.label(), s.layer.label(), e.variant; "token built with footer {:?} rejected under expected footer {:?}: {}", f, f2, e.text),
          (false, Err(e)) => {
            cl.tag(format!("rejected:{}", e.variant));
            Verdict::Pass
          }
          (false, Ok(_)) => vio!("C05:accepted-other-footer:{}:{}", p.label(), s.layer.label(); "token built with footer {:?} accepted under expected footer {:?} (token {})", f, f2, t),
        }
      }
      _ => {
        // token-side edit of the footer segment
        let cur_seg = fseg.clone().unwrap_or_default();
        let new_seg: Option<String> = match c.edit {
          SegEdit::Replace => {
            if norm(&f2).is_empty() { None } else { Some(b64(norm(&f2).as_bytes())) }
          }
          SegEdit::Remove => None,
          SegEdit::Extend(i) => Some(format!("{}{}", cur_seg, "A".repeat(SEG_DELTAS[(i as usize) % SEG_DELTAS.len()]))),
          SegEdit::Junk(k) => Some(JUNK_SEGMENTS[k as usize % JUNK_SEGMENTS.len()].to_string()),
          SegEdit::PercentEscape(i) => {
            if cur_seg.is_empty() {
              return Verdict::Discard;
            }
            let chars: Vec<char> = cur_seg.chars().collect();
            let k = pick(i, chars.len());
            Some(chars.iter().enumerate().map(|(j, ch)| if j == k { format!("%{:02X}", *ch as u32) } else { ch.to_string() }).collect())
          }
          SegEdit::Pad(n) => {
            if cur_seg.is_empty() {
              return Verdict::Discard;
            }
            Some(format!("{}{}", cur_seg, "=".repeat(1 + (n as usize % 2))))
          }
          SegEdit::Repeat(k) => {
            if cur_seg.is_empty() {
              return Verdict::Discard;
            }
            Some(cur_seg.repeat(2 + (k as usize % 3)))
          }
          SegEdit::OnePeriod => {
            let n = cur_seg.len();
            match (1..n).find(|p| n % p == 0 && cur_seg.as_bytes().chunks(*p).all(|c| c == &cur_seg.as_bytes()[..*p])) {
              Some(p) => Some(cur_seg[..p].to_string()),
              None => return Verdict::Discard,
            }
          }
          SegEdit::DecodedLookAlike(at, how) => {
            let text = match f {
              Some(t) if !t.is_empty() => t.clone(),
              _ => return Verdict::Discard,
            };
            let altered = if how % 2 == 0 {
              let mut chars: Vec<char> = text.chars().collect();
              chars.insert(pick(at, chars.len() + 1), INVISIBLES[(how as usize / 2) % INVISIBLES.len()]);
              chars.into_iter().collect::<String>()
            } else {
              match crate::gen::confusable(&text, how / 2) {
                Some(t) => t,
                None => return Verdict::Discard,
              }
            };
            Some(b64(altered.as_bytes()))
          }
          SegEdit::Truncate(i) => {
            let n = SEG_DELTAS[(i as usize) % SEG_DELTAS.len()];
            if n >= cur_seg.len() {
              return Verdict::Discard;
            }
            Some(cur_seg[..cur_seg.len() - n].to_string())
          }
          _ => Some(String::new()),
        };
        let edited_value: Option<String> = match c.edit {
          SegEdit::Replace => f2.clone(),
          // what the edited segment decodes to, if it decodes at all
          SegEdit::Extend(_) | SegEdit::Truncate(_) | SegEdit::Repeat(_) | SegEdit::OnePeriod | SegEdit::DecodedLookAlike(..) => new_seg.as_deref().and_then(unb64).and_then(|b| String::from_utf8(b).ok()),
          SegEdit::Pad(_) | SegEdit::PercentEscape(_) => f.clone(), // a padded / escaped segment still spells F: it must be refused under F all the same
          _ => None,
        };
        if matches!(c.edit, SegEdit::Extend(_) | SegEdit::Truncate(_)) && fseg.is_none() && matches!(c.edit, SegEdit::Truncate(_)) {
          return Verdict::Discard;
        }
        if norm(&edited_value) == norm(f) && !matches!(c.edit, SegEdit::Pad(_) | SegEdit::Junk(_) | SegEdit::PercentEscape(_)) {
          return Verdict::Discard; // the decoded footer value did not change
        }
        let edited = match &new_seg {
          Some(sg) => format!("{header}{pseg}.{sg}"),
          None => format!("{header}{pseg}"),
        };
        if edited == t {
          return Verdict::Discard;
        }
        cl.nontrivial(true);
        for (who, expect) in [("original", f.clone()), ("edited", edited_value.clone())] {
          let (ctl, r) = parse_twice(p, s.layer, (&t, &lk, f.as_deref(), a), (&edited, &lk, expect.as_deref(), a));
          if ctl.is_err() {
            return Verdict::Discard;
          }
          match r {
            Err(e) => cl.tag(format!("rejected:{}", e.variant)),
            Ok(o) => vio!("C05:accepted-edited-footer-segment:{}:{}:{}:{}", p.label(), s.layer.label(), match c.edit { SegEdit::Replace => "Replace", SegEdit::Remove => "Remove", SegEdit::Blank => "Blank", SegEdit::Extend(_) => "Extend", SegEdit::Truncate(_) => "Truncate", SegEdit::Pad(_) => "Pad", SegEdit::Junk(_) => "Junk", SegEdit::PercentEscape(_) => "PercentEscape", SegEdit::Keep => "Keep", SegEdit::Repeat(_) => "Repeat", SegEdit::OnePeriod => "OnePeriod", SegEdit::DecodedLookAlike(..) => "DecodedLookAlike" }, who;
              "footer segment edited ({:?}: {:?} -> {:?}) yet accepted under the {} footer {:?}, returned {:?}; token {}", c.edit, f, edited_value, who, expect, o.message(), edited),
          }
        }
        Verdict::Pass
      }
    }
  }
}

fn rel_strategy() -> BoxedStrategy<Related> {
  prop_oneof![
    2 => Just(Related::Same),
    2 => Just(Related::EmptyVsNone),
    1 => Just(Related::None),
    1 => Just(Related::Empty),
    2 => any::<u8>().prop_map(Related::Prefix),
    2 => gen::jsonish(4).prop_map(Related::Extend),
    1 => Just(Related::CaseFlip),
    3 => (0u8..8).prop_map(Related::Confusable),
    2 => any::<u8>().prop_map(Related::LastByte),
    2 => prop_oneof![gen::jsonish(16), gen::unicode(6)].prop_map(Related::Other),
    3 => (any::<bool>(), any::<u8>()).prop_map(|(a, i)| Related::Decorate(a, i)),
    2 => any::<u8>().prop_map(Related::JsonRespell),
  ]
  .boxed()
}

fn case(proto: Proto, layer: Layer) -> BoxedStrategy<FooterCase> {
  (tok_spec(proto, layer), rel_strategy(), prop_oneof![8 => Just(SegEdit::Keep), 4 => Just(SegEdit::Replace), 2 => Just(SegEdit::Remove), 2 => Just(SegEdit::Blank), 3 => any::<u8>().prop_map(SegEdit::Extend), 1 => any::<u8>().prop_map(SegEdit::Truncate), 1 => any::<u8>().prop_map(SegEdit::Pad), 2 => any::<u8>().prop_map(SegEdit::Junk), 2 => any::<u16>().prop_map(SegEdit::PercentEscape), 2 => any::<u8>().prop_map(SegEdit::Repeat), 1 => Just(SegEdit::OnePeriod), 3 => (any::<u16>(), any::<u8>()).prop_map(|(a, h)| SegEdit::DecodedLookAlike(a, h))])
    .prop_map(|(tok, rel, edit)| FooterCase { tok, rel, edit })
    .boxed()
}

fn all_subs() -> Vec<FooterBinding> {
  let mut v = vec![];
  for proto in Proto::ALL {
    for layer in Layer::ALL {
      v.push(FooterBinding { proto, layer });
    }
  }
  v
}

pub fn subs() -> Vec<Box<dyn DynSub>> {
  all_subs().into_iter().map(|s| Box::new(s) as Box<dyn DynSub>).collect()
}

pub fn run(ctx: &Ctx) -> EvidenceMeta {
  let subs = all_subs();
  let mut jobs: Vec<Job> = vec![];
  for s in &subs {
    let n = (ctx.n(8000, 80_000) / s.proto.cost().min(20)).max(300);
    jobs.push(Box::new(move || ctx.prop(s, case(s.proto, s.layer), n)));
  }
  // every footer length 0..=1100 (ASCII, multi-byte, JSON flavours in turn), presented with the same footer and with its last byte changed
  for s in subs.iter().filter(|s| matches!((s.proto, s.layer), (Proto::V4L, Layer::Core) | (Proto::V4P, Layer::Generic) | (Proto::V2L, Layer::Prelude) | (Proto::V3L, Layer::Core))) {
    let max = if ctx.is_child() { 300 } else { 1100 };
    jobs.push(Box::new(move || {
      let cases = (0..=max).flat_map(move |len: u32| {
        let tok = TokSpec {
          proto: s.proto,
          layer: s.layer,
          key_seed: vec![(len % 251) as u8; 32],
          nonce: vec![9u8; if s.proto == Proto::V2L { 24 } else { 32 }],
          msg: "{\"data\":\"footer length sweep\"}".into(),
          footer: Some(gen::sized(len as usize, (len % 4) as u8)),
          assertion: None,
          core_payload: if s.layer == Layer::Core { None } else { Some("{\"data\":\"{\\\"data\\\":\\\"footer length sweep\\\"}\"}".into()) },
        };
        [FooterCase { tok: tok.clone(), rel: Related::Same, edit: SegEdit::Keep }, FooterCase { tok, rel: Related::LastByte(1), edit: SegEdit::Keep }]
      });
      ctx.enumerate(s, cases, false)
    }));
  }
  run_jobs(jobs);
  EvidenceMeta {
    rule: "every footer length 0..=1100 on four (protocol, layer) pairs; token built with footer F in {none, explicit empty, JSON-ish, Unicode}; related footer F' built by construction: same, none<->empty, none, empty, prefix, extension, case change, last byte changed, unrelated. \
           (i) unedited token parsed with expected F': accepted (with the original message) iff norm(F') == norm(F), none == empty - both directions; \
           (ii) token-side edits of the footer segment (replaced by base64url(F'), removed, blanked) that change its decoded value: rejected under F and under the edited value; \
           (iii) the produced token's 4th segment is exactly the unpadded base64url of F, present iff F is non-empty. \
           Non-trivial = norm(F) != norm(F') or a token-side edit; distinct by case."
      .into(),
    assumptions: vec![],
  }
}
