//! C06 – v3/v4 implicit assertions bind the token without appearing in it.
use crate::c03::{tok_spec, TokSpec};
use crate::c05::{related, Related};
use crate::engine::*;
use crate::gen;
use crate::keys;
use crate::proto::*;
use crate::rt::{layer_build, layer_parse, parse_twice};
use proptest::prelude::*;
use serde::{Deserialize, Serialize};

#[derive(Clone, Debug, Serialize, Deserialize)]
pub struct AssertCase {
  pub tok: TokSpec,
  /// 12 generated alphanumerics prepended to a non-empty assertion so that it cannot occur in the token by chance
  pub tag: String,
  pub rel: Related,
  /// split point for the same-concatenation / different-split sub-check
  pub split: u8,
}

fn norm(f: &Option<String>) -> &str {
  f.as_deref().unwrap_or("")
}

fn contains(hay: &[u8], needle: &[u8]) -> bool {
  !needle.is_empty() && hay.windows(needle.len()).any(|w| w == needle)
}

pub struct AssertionBinding {
  pub proto: Proto,
  pub layer: Layer,
}

impl Sub for AssertionBinding {
  type Case = AssertCase;
  fn name(&self) -> String {
    format!("C06/{}/{}", self.proto.label(), self.layer.label())
  }
  fn check(&self, c: &AssertCase, cl: &mut Classes) -> Verdict {
    let mut s = c.tok.clone();
    let p = s.proto;
    // tag non-empty assertions (a JSON assertion for the respelling relation is left as it is: the tag is one of its values)
    if let Related::JsonRespell(how) = &c.rel {
      s.assertion = Some(format!("{{\"tenant\":{},\"user\":\"{}\",\"scopes\":[\"a\",\"b\"]}}", how, c.tag));
    } else if let Some(a) = &s.assertion {
      if !a.is_empty() {
        s.assertion = Some(format!("{}{}", c.tag, a));
      }
    }
    let a = s.assertion.clone();
    let t = match s.token() {
      Ok(t) => t,
      Err(_) => return Verdict::Discard,
    };
    let km = keys::material(p, &s.seed());
    let lk = km.lib().expect("valid key");
    let a2 = related(&a, &c.rel);
    cl.tag(format!("{}:{}", p.label(), s.layer.label()));
    cl.tag(format!("related:{:?}", std::mem::discriminant(&c.rel)).replace("Discriminant", ""));
    cl.nontrivial(norm(&a) != norm(&a2));
    // (1) accept iff the same assertion is presented
    // the judged parse goes through a parser object that has just accepted the token under its own assertion
    let (ctl, r) = parse_twice(p, s.layer, (&t, &lk, s.footer.as_deref(), a.as_deref()), (&t, &lk, s.footer.as_deref(), a2.as_deref()));
    match ctl {
      Ok(o) if o.message().as_deref() == Some(s.msg.as_str()) => {}
      Ok(o) => vio!("C06:wrong-message:{}:{}", p.label(), s.layer.label(); "accepted under its own assertion but returned {:?}", o.message()),
      Err(e) => vio!("C06:rejected-matching-assertion:{}:{}:{}", p.label(), s.layer.label(), e.variant; "token built with assertion {:?} rejected under the same assertion: {}", a, e.text),
    }
    let r = r.map(|o| o.message());
    let should_accept = norm(&a) == norm(&a2);
    match (should_accept, r) {
      (true, Ok(m)) if m.as_deref() == Some(s.msg.as_str()) => {}
      (true, Ok(m)) => vio!("C06:wrong-message:{}:{}", p.label(), s.layer.label(); "accepted but returned {:?}", m),
      (true, Err(e)) => vio!("C06:rejected-matching-assertion:{}:{}:{}", p.label(), s.layer.label(), e.variant; "token built with assertion {:?} rejected under {:?}: {}", a, a2, e.text),
      (false, Err(e)) => cl.tag(format!("rejected:{}", e.variant)),
      (false, Ok(_)) => vio!("C06:accepted-other-assertion:{}:{}", p.label(), s.layer.label(); "token built with assertion {:?} accepted under {:?} (footer {:?}, token {})", a, a2, s.footer, t),
    }
    // (2) the assertion is not stored: same length as the token built without it, and its bytes do not occur
    if !norm(&a).is_empty() && norm(&a).len() >= 8 {
      let mut bare = s.clone();
      bare.assertion = None;
      if let Ok(t0) = bare.token() {
        // the batteries-included builder stamps times with varying fraction digits; compare lengths only where the payload is deterministic
        if s.layer != Layer::Prelude && t0.len() != t.len() {
          vio!("C06:length-depends-on-assertion:{}:{}", p.label(), s.layer.label(); "token length {} with assertion {:?}, {} without", t.len(), a, t0.len());
        }
      }
      let av = norm(&a);
      if !s.msg.contains(av) && !norm(&s.footer).contains(av) {
        let (_, pseg, fseg) = split_token(&t).expect("well-formed");
        let payload = unb64(&pseg).unwrap_or_default();
        let footer = fseg.as_deref().and_then(unb64).unwrap_or_default();
        let found = if t.contains(av) {
          Some("token text")
        } else if t.contains(&b64(av.as_bytes())) {
          Some("token text (base64url)")
        } else if t.contains(&hex::encode(av)) {
          Some("token text (hex)")
        } else if contains(&payload, av.as_bytes()) {
          Some("decoded payload")
        } else if contains(&footer, av.as_bytes()) {
          Some("decoded footer")
        } else {
          None
        };
        if let Some(wher) = found {
          vio!("C06:assertion-stored:{}:{}", p.label(), s.layer.label(); "assertion {:?} occurs in the {} of {}", av, wher, t);
        }
        cl.tag("not-stored-checked");
      } else {
        cl.tag("not-stored-skipped(message-or-footer-contains-assertion)");
      }
    }
    // (3) same concatenation, different split between footer and assertion
    let f = norm(&s.footer).to_string();
    let av = norm(&a).to_string();
    let joined: Vec<char> = format!("{f}{av}").chars().collect();
    if !joined.is_empty() {
      let cut = (c.split as usize) % (joined.len() + 1);
      let f2: String = joined[..cut].iter().collect();
      let av2: String = joined[cut..].iter().collect();
      if f2 != f {
        // present the token with its footer segment rewritten to the other split
        let (header, pseg, _) = split_token(&t).expect("well-formed");
        let t2 = if f2.is_empty() { format!("{header}{pseg}") } else { format!("{header}{pseg}.{}", b64(f2.as_bytes())) };
        match layer_parse(p, s.layer, &lk, &t2, Some(f2.as_str()), Some(av2.as_str())) {
          Err(e) => cl.tag(format!("resplit-rejected:{}", e.variant)),
          Ok(_) => vio!("C06:resplit-accepted:{}:{}", p.label(), s.layer.label(); "token signed over (footer {:?}, assertion {:?}) accepted as (footer {:?}, assertion {:?})", f, av, f2, av2),
        }
      }
    }
    // (4) a token built *with* the related assertion differs from t only where it must (local, core: identical length)
    if s.layer == Layer::Core && p.is_local() && norm(&a) != norm(&a2) {
      if let Ok(t3) = layer_build(p, s.layer, &lk, &s.nonce, &s.msg, s.footer.as_deref(), a2.as_deref()) {
        if t3.len() != t.len() {
          vio!("C06:length-depends-on-assertion:{}:{}", p.label(), s.layer.label(); "token length {} with assertion {:?}, {} with {:?}", t.len(), a, t3.len(), a2);
        }
        if t3 == t {
          vio!("C06:assertion-not-authenticated:{}:{}", p.label(), s.layer.label(); "tokens built with assertions {:?} and {:?} are identical", a, a2);
        }
      }
    }
    Verdict::Pass
  }
}

fn case(proto: Proto, layer: Layer) -> BoxedStrategy<AssertCase> {
  let rel = prop_oneof![
    2 => Just(Related::Same),
    2 => Just(Related::EmptyVsNone),
    1 => Just(Related::None),
    1 => Just(Related::Empty),
    2 => any::<u8>().prop_map(Related::Prefix),
    2 => gen::jsonish(4).prop_map(Related::Extend),
    1 => Just(Related::CaseFlip),
    3 => (0u8..8).prop_map(Related::Confusable),
    2 => any::<u8>().prop_map(Related::LastByte),
    2 => prop_oneof![gen::jsonish(16), gen::unicode(6)].prop_map(Related::Other),
    3 => (any::<bool>(), any::<u8>()).prop_map(|(a, i)| Related::Decorate(a, i)),
    2 => any::<u8>().prop_map(Related::JsonRespell),
  ];
  (tok_spec(proto, layer), "[A-Za-z0-9]{12}", rel, any::<u8>()).prop_map(|(tok, tag, rel, split)| AssertCase { tok, tag, rel, split }).boxed()
}

fn all_subs() -> Vec<AssertionBinding> {
  let mut v = vec![];
  for proto in Proto::WITH_ASSERTION {
    for layer in Layer::ALL {
      v.push(AssertionBinding { proto, layer });
    }
  }
  v
}

pub fn subs() -> Vec<Box<dyn DynSub>> {
  all_subs().into_iter().map(|s| Box::new(s) as Box<dyn DynSub>).collect()
}

pub fn run(ctx: &Ctx) -> EvidenceMeta {
  let subs = all_subs();
  let mut jobs: Vec<Job> = vec![];
  for s in &subs {
    let n = (ctx.n(8000, 80_000) / s.proto.cost().min(20)).max(300);
    jobs.push(Box::new(move || ctx.prop(s, case(s.proto, s.layer), n)));
  }
  // assertions that are the shortest texts of other notations - an empty JSON object or list, null, a quoted empty string, a
  // blank - verbatim (no tag), against none / the empty one / each other: they are assertions like any other
  for s in &subs {
    jobs.push(Box::new(move || {
      let mut cases = vec![];
      let texts = ["{}", "[]", "{ }", "null", "\"\"", "0", "false", " ", "\u{0}", "a"];
      for (i, a) in texts.iter().enumerate() {
        let mut tok = crate::c03::fixed_spec(s.proto, s.layer, (i % 4) as u8);
        tok.assertion = Some(a.to_string());
        let mut rels = vec![Related::Same, Related::None, Related::Empty];
        for other in texts.iter().filter(|o| *o != a) {
          rels.push(Related::Other(other.to_string()));
        }
        for rel in rels {
          cases.push(AssertCase { tok: tok.clone(), tag: String::new(), rel, split: i as u8 });
        }
      }
      ctx.enumerate(s, cases.into_iter(), false)
    }));
  }
  run_jobs(jobs);
  EvidenceMeta {
    rule: "v3/v4 local/public x 3 layers; token built with assertion A in {none, explicit empty, 12-char generated tag + text}; related A' by construction (same, none<->empty, prefix, extension, case, last byte, unrelated). \
           Oracle: (1) accepted with the original message iff norm(A') == norm(A); (2) token length equals that of the token built without A (deterministic layers) and neither A, base64url(A), hex(A) occurs in the token text nor A's bytes in the decoded payload/footer; \
           (3) re-splitting the same footer||assertion concatenation at another point (footer segment rewritten accordingly) is rejected; (4) local core tokens built with A and A' have equal length and differ. \
           Non-trivial = norm(A) != norm(A'); distinct by case."
      .into(),
    assumptions: vec!["footer and assertion consistently swapped on both sides would not break the property and is not detected".into()],
  }
}
