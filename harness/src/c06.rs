//! C06 – v3/v4 implicit assertions bind the token without appearing in it.
use crate::c03::{tok_spec, TokSpec};
use crate::c05::{related, Related};
use crate::engine::*;
use crate::gen;
use crate::keys;
use crate::proto::*;
use crate::rt::{layer_build, layer_parse, parse_twice};
use crate::specref::{self, RefPublic, RefSecret};
use proptest::prelude::*;
use serde::{Deserialize, Serialize};

#[derive(Clone, Debug, Serialize, Deserialize)]
pub struct AssertCase {
  pub tok: TokSpec,
  /// 12 generated alphanumerics prepended to a non-empty assertion so that it cannot occur in the token by chance
  pub tag: String,
  pub rel: Related,
  /// split point for the same-concatenation / different-split sub-check
  pub split: u8,
}

fn norm(f: &Option<String>) -> &str {
  f.as_deref().unwrap_or("")
}

fn contains(hay: &[u8], needle: &[u8]) -> bool {
  !needle.is_empty() && hay.windows(needle.len()).any(|w| w == needle)
}

pub struct AssertionBinding {
  pub proto: Proto,
  pub layer: Layer,
}

impl Sub for AssertionBinding {
  type Case = AssertCase;
  fn name(&self) -> String {
    format!("C06/{}/{}", self.proto.label(), self.layer.label())
  }
  fn check(&self, c: &AssertCase, cl: &mut Classes) -> Verdict {
    let mut s = c.tok.clone();
    let p = s.proto;
    // tag non-empty assertions (a JSON assertion for the respelling relation is left as it is: the tag is one of its values)
    if let Related::JsonRespell(how) = &c.rel {
      s.assertion = Some(format!("{{\"tenant\":{},\"user\":\"{}\",\"scopes\":[\"a\",\"b\"]}}", how, c.tag));
    } else if let Some(a) = &s.assertion {
      if !a.is_empty() {
        s.assertion = Some(format!("{}{}", c.tag, a));
      }
    }
    let a = s.assertion.clone();
    let t = match s.token() {
      Ok(t) => t,
      Err(_) => return Verdict::Discard,
    };
    let km = keys::material(p, &s.seed());
    let lk = km.lib().expect("valid key");
    let a2 = related(&a, &c.rel);
    cl.tag(format!("{}:{}", p.label(), s.layer.label()));
    cl.tag(format!("related:{:?}", std::mem::discriminant(&c.rel)).replace("Discriminant", ""));
    cl.nontrivial(norm(&a) != norm(&a2));
    // (1) accept iff the same assertion is presented
    // the judged parse goes through a parser object that has just accepted the token under its own assertion
    let (ctl, r) = parse_twice(p, s.layer, (&t, &lk, s.footer.as_deref(), a.as_deref()), (&t, &lk, s.footer.as_deref(), a2.as_deref()));
    match ctl {
      Ok(o) if o.message().as_deref() == Some(s.msg.as_str()) => {}
      Ok(o) => vio!("C06:wrong-message:{}:{}", p.label(), s.layer.label(); "accepted under its own assertion but returned {:?}", o.message()),
      Err(e) => vio!("C06:rejected-matching-assertion:{}:{}:{}", p.label(), s.layer.label(), e.variant; "token built with assertion {:?} rejected under the same assertion: {}", a, e.text),
    }
    let r = r.map(|o| o.message());
    let should_accept = norm(&a) == norm(&a2);
    match (should_accept, r) {
      (true, Ok(m)) if m.as_deref() == Some(s.msg.as_str()) => {}
      (true, Ok(m)) => vio!("C06:wrong-message:{}:{}", p.label(), s.layer.label(); "accepted but returned {:?}", m),
      (true, Err(e)) => vio!("C06:rejected-matching-assertion:{}:{}:{}", p.label(), s.layer.label(), e.variant; "token built with assertion {:?} rejected under {:?}: {}", a, a2, e.text),
      (false, Err(e)) => cl.tag(format!("rejected:{}", e.variant)),
      (false, Ok(_)) => vio!("C06:accepted-other-assertion:{}:{}", p.label(), s.layer.label(); "token built with assertion {:?} accepted under {:?} (footer {:?}, token {})", a, a2, s.footer, t),
    }
    // (2) the assertion is not stored: same length as the token built without it, and its bytes do not occur
    if !norm(&a).is_empty() && norm(&a).len() >= 8 {
      let mut bare = s.clone();
      bare.assertion = None;
      if let Ok(t0) = bare.token() {
        // the batteries-included builder stamps times with varying fraction digits; compare lengths only where the payload is deterministic
        if s.layer != Layer::Prelude && t0.len() != t.len() {
          vio!("C06:length-depends-on-assertion:{}:{}", p.label(), s.layer.label(); "token length {} with assertion {:?}, {} without", t.len(), a, t0.len());
        }
      }
      let av = norm(&a);
      if !s.msg.contains(av) && !norm(&s.footer).contains(av) {
        let (_, pseg, fseg) = split_token(&t).expect("well-formed");
        let payload = unb64(&pseg).unwrap_or_default();
        let footer = fseg.as_deref().and_then(unb64).unwrap_or_default();
        let found = if t.contains(av) {
          Some("token text")
        } else if t.contains(&b64(av.as_bytes())) {
          Some("token text (base64url)")
        } else if t.contains(&hex::encode(av)) {
          Some("token text (hex)")
        } else if contains(&payload, av.as_bytes()) {
          Some("decoded payload")
        } else if contains(&footer, av.as_bytes()) {
          Some("decoded footer")
        } else {
          None
        };
        if let Some(wher) = found {
          vio!("C06:assertion-stored:{}:{}", p.label(), s.layer.label(); "assertion {:?} occurs in the {} of {}", av, wher, t);
        }
        cl.tag("not-stored-checked");
      } else {
        cl.tag("not-stored-skipped(message-or-footer-contains-assertion)");
      }
    }
    // (3) same concatenation, different split between footer and assertion
    let f = norm(&s.footer).to_string();
    let av = norm(&a).to_string();
    let joined: Vec<char> = format!("{f}{av}").chars().collect();
    if !joined.is_empty() {
      let cut = (c.split as usize) % (joined.len() + 1);
      let f2: String = joined[..cut].iter().collect();
      let av2: String = joined[cut..].iter().collect();
      if f2 != f {
        // present the token with its footer segment rewritten to the other split
        let (header, pseg, _) = split_token(&t).expect("well-formed");
        let t2 = if f2.is_empty() { format!("{header}{pseg}") } else { format!("{header}{pseg}.{}", b64(f2.as_bytes())) };
        match layer_parse(p, s.layer, &lk, &t2, Some(f2.as_str()), Some(av2.as_str())) {
          Err(e) => cl.tag(format!("resplit-rejected:{}", e.variant)),
          Ok(_) => vio!("C06:resplit-accepted:{}:{}", p.label(), s.layer.label(); "token signed over (footer {:?}, assertion {:?}) accepted as (footer {:?}, assertion {:?})", f, av, f2, av2),
        }
      }
    }
    // (4) a token built *with* the related assertion differs from t only where it must (local, core: identical length)
    if s.layer == Layer::Core && p.is_local() && norm(&a) != norm(&a2) {
      if let Ok(t3) = layer_build(p, s.layer, &lk, &s.nonce, &s.msg, s.footer.as_deref(), a2.as_deref()) {
        if t3.len() != t.len() {
          vio!("C06:length-depends-on-assertion:{}:{}", p.label(), s.layer.label(); "token length {} with assertion {:?}, {} with {:?}", t.len(), a, t3.len(), a2);
        }
        if t3 == t {
          vio!("C06:assertion-not-authenticated:{}:{}", p.label(), s.layer.label(); "tokens built with assertions {:?} and {:?} are identical", a, a2);
        }
      }
    }
    Verdict::Pass
  }
}

/// (5) the authenticated encoding of (footer, assertion) agrees with an independent implementation of the specification for
/// every pair of LENGTHS on a grid around the powers of two: a length prefix that is wrong for one particular length makes two
/// different (footer, assertion) pairs encode alike (the crafted collision needs content no generator would find), but it
/// also makes the library and the reference disagree about every token that carries a piece of that length.
#[derive(Clone, Debug, Serialize, Deserialize)]
pub struct PaeCase {
  pub lf: u16,
  pub la: u16,
  pub lm: u16,
  pub fill: u8,
}

pub struct PaeGrid {
  pub proto: Proto,
  pub layer: Layer,
}

pub const PAE_LENGTHS: [u16; 30] = [0, 1, 7, 8, 9, 15, 16, 17, 31, 32, 33, 47, 48, 49, 55, 56, 57, 63, 64, 65, 72, 127, 128, 129, 191, 192, 255, 256, 257, 1024];

fn filler(n: u16, fill: u8, salt: u8) -> String {
  // printable ASCII, no two pieces alike; fill 1: the piece starts with bytes that read as a little-endian length
  let mut s: String = (0..n).map(|i| (b'a' + ((i as u32 * 7 + fill as u32 * 3 + salt as u32) % 26) as u8) as char).collect();
  if fill % 2 == 1 && n >= 8 {
    s.replace_range(0..8, "A\0\0\0\0\0\0\0");
  }
  s
}

impl Sub for PaeGrid {
  type Case = PaeCase;
  fn name(&self) -> String {
    format!("C06/pae-grid/{}/{}", self.proto.label(), self.layer.label())
  }
  fn check(&self, c: &PaeCase, cl: &mut Classes) -> Verdict {
    let p = self.proto;
    let v = p.version();
    let footer = filler(c.lf, c.fill, 1);
    let assertion = filler(c.la, c.fill, 2);
    // core: the message is the plaintext; builder layers: the message travels as a claim (`layer_build`), and the token the
    // reference builds carries a JSON object
    let msg = filler(c.lm, c.fill & 2, 3);
    let ref_payload = if self.layer == Layer::Core { msg.clone() } else { format!("{{\"data\":\"{}\"}}", msg) };
    let seed: [u8; 32] = gen::arr32(&[c.fill.wrapping_mul(31).wrapping_add(p as u8); 32]);
    let nonce: Vec<u8> = (0..32u8).map(|i| i.wrapping_mul(11).wrapping_add(c.fill)).collect();
    let km = keys::material(p, &seed);
    let lk = km.lib().expect("valid key");
    let fo = if c.lf == 0 && c.fill % 2 == 0 { None } else { Some(footer.as_str()) };
    let ao = if c.la == 0 && c.fill % 2 == 0 { None } else { Some(assertion.as_str()) };
    cl.tag(format!("{}:{}", p.label(), self.layer.label()));
    cl.tag(format!("footer-len:{}", if c.lf % 64 == 0 && c.lf > 0 { "multiple-of-64" } else if c.lf == 0 { "0" } else { "other" }));
    cl.tag(format!("assertion-len:{}", if c.la % 64 == 0 && c.la > 0 { "multiple-of-64" } else if c.la == 0 { "0" } else { "other" }));
    cl.nontrivial(c.lf > 0 || c.la > 0);
    let t = match layer_build(p, self.layer, &lk, &nonce[..p.nonce_len()], &msg, fo, ao) {
      Ok(t) => t,
      Err(e) => vio!("C06:pae-grid:build-failed:{}:{}", p.label(), e.variant; "build with footer of {} and assertion of {} bytes failed: {}", c.lf, c.la, e.text),
    };
    // the batteries-included layer adds claims: the reference then only has to ACCEPT the token
    let body_ok = |m: &[u8]| if self.layer == Layer::Core { m == msg.as_bytes() } else { std::str::from_utf8(m).map(|x| x.contains(msg.as_str())).unwrap_or(false) };
    if p.is_local() {
      match specref::local_decrypt(v, &seed, &t, footer.as_bytes(), assertion.as_bytes()) {
        Ok(m) if body_ok(&m) => {}
        other => vio!("C06:pae-grid:reference-disagrees:{}:{}", p.label(), self.layer.label(); "token built with a footer of {} bytes and an assertion of {} bytes (message {} bytes) is not what the specification authenticates for that pair: reference gave {:?}", c.lf, c.la, c.lm, other.map(|m| m.len())),
      }
      let t2 = specref::local_encrypt(v, &seed, &nonce[..p.nonce_len()], ref_payload.as_bytes(), footer.as_bytes(), assertion.as_bytes());
      match layer_parse(p, self.layer, &lk, &t2, fo, ao) {
        Ok(o) if self.layer != Layer::Core || o.message().as_deref() == Some(msg.as_str()) => {}
        Ok(o) => vio!("C06:pae-grid:wrong-message:{}:{}", p.label(), self.layer.label(); "reference token returned {:?}", o.message().map(|m| m.len())),
        // a builder-layer parser may refuse the reference token for its claims: only format / authentication errors count
        Err(e) if self.layer != Layer::Core && matches!(e.class, ErrClass::Claim | ErrClass::Plaintext) => cl.tag("reference-token-refused-for-claims"),
        Err(e) => vio!("C06:pae-grid:reference-token-rejected:{}:{}:{}", p.label(), self.layer.label(), e.variant; "the specification's token for a footer of {} bytes and an assertion of {} bytes is rejected under the same pair: {}", c.lf, c.la, e.text),
      }
    } else {
      let (sk, pk) = keys::key_bytes(p, &seed);
      let unc;
      let (rs, rp) = match p {
        Proto::V3P => {
          unc = keys::p384_from_seed(&seed).2;
          (RefSecret::P384 { scalar: &sk, uncompressed: &unc, compressed: &pk }, RefPublic::P384 { uncompressed: &unc, compressed: &pk })
        }
        _ => (RefSecret::Ed { seed: &sk[..32], public: &pk }, RefPublic::Ed(&pk)),
      };
      match specref::public_verify(v, &rp, &t, footer.as_bytes(), assertion.as_bytes()) {
        Ok(m) if body_ok(&m) => {}
        other => vio!("C06:pae-grid:reference-disagrees:{}:{}", p.label(), self.layer.label(); "token signed with a footer of {} bytes and an assertion of {} bytes (message {} bytes) does not verify under the specification for that pair: reference gave {:?}", c.lf, c.la, c.lm, other.map(|m| m.len())),
      }
      if let Ok(t2) = specref::public_sign(v, &rs, ref_payload.as_bytes(), footer.as_bytes(), assertion.as_bytes()) {
        match layer_parse(p, self.layer, &lk, &t2, fo, ao) {
          Ok(_) => {}
          Err(e) if self.layer != Layer::Core && matches!(e.class, ErrClass::Claim | ErrClass::Plaintext) => cl.tag("reference-token-refused-for-claims"),
          Err(e) => vio!("C06:pae-grid:reference-token-rejected:{}:{}:{}", p.label(), self.layer.label(), e.variant; "the specification's token for a footer of {} bytes and an assertion of {} bytes is rejected under the same pair: {}", c.lf, c.la, e.text),
        }
      }
    }
    Verdict::Pass
  }
}

fn pae_subs() -> Vec<PaeGrid> {
  let mut v = vec![];
  for proto in Proto::WITH_ASSERTION {
    for layer in Layer::ALL {
      v.push(PaeGrid { proto, layer });
    }
  }
  v
}

fn case(proto: Proto, layer: Layer) -> BoxedStrategy<AssertCase> {
  let rel = prop_oneof![
    2 => Just(Related::Same),
    2 => Just(Related::EmptyVsNone),
    1 => Just(Related::None),
    1 => Just(Related::Empty),
    2 => any::<u8>().prop_map(Related::Prefix),
    2 => gen::jsonish(4).prop_map(Related::Extend),
    1 => Just(Related::CaseFlip),
    3 => (0u8..8).prop_map(Related::Confusable),
    2 => any::<u8>().prop_map(Related::LastByte),
    2 => prop_oneof![gen::jsonish(16), gen::unicode(6)].prop_map(Related::Other),
    3 => (any::<bool>(), any::<u8>()).prop_map(|(a, i)| Related::Decorate(a, i)),
    2 => any::<u8>().prop_map(Related::JsonRespell),
  ];
  (tok_spec(proto, layer), "[A-Za-z0-9]{12}", rel, any::<u8>()).prop_map(|(tok, tag, rel, split)| AssertCase { tok, tag, rel, split }).boxed()
}

fn all_subs() -> Vec<AssertionBinding> {
  let mut v = vec![];
  for proto in Proto::WITH_ASSERTION {
    for layer in Layer::ALL {
      v.push(AssertionBinding { proto, layer });
    }
  }
  v
}

pub fn subs() -> Vec<Box<dyn DynSub>> {
  all_subs().into_iter().map(|s| Box::new(s) as Box<dyn DynSub>).chain(pae_subs().into_iter().map(|s| Box::new(s) as Box<dyn DynSub>)).collect()
}

pub fn run(ctx: &Ctx) -> EvidenceMeta {
  let subs = all_subs();
  let paes = pae_subs();
  let mut jobs: Vec<Job> = vec![];
  for s in &subs {
    let n = (ctx.n(8000, 80_000) / s.proto.cost().min(20)).max(300);
    jobs.push(Box::new(move || ctx.prop(s, case(s.proto, s.layer), n)));
  }
  // assertions that are the shortest texts of other notations - an empty JSON object or list, null, a quoted empty string, a
  // blank - verbatim (no tag), against none / the empty one / each other: they are assertions like any other
  for s in &subs {
    jobs.push(Box::new(move || {
      let mut cases = vec![];
      let texts = ["{}", "[]", "{ }", "null", "\"\"", "0", "false", " ", "\u{0}", "a"];
      for (i, a) in texts.iter().enumerate() {
        let mut tok = crate::c03::fixed_spec(s.proto, s.layer, (i % 4) as u8);
        tok.assertion = Some(a.to_string());
        let mut rels = vec![Related::Same, Related::None, Related::Empty];
        for other in texts.iter().filter(|o| *o != a) {
          rels.push(Related::Other(other.to_string()));
        }
        for rel in rels {
          cases.push(AssertCase { tok: tok.clone(), tag: String::new(), rel, split: i as u8 });
        }
      }
      ctx.enumerate(s, cases.into_iter(), false)
    }));
  }
  // (5) grid of piece lengths against the independent implementation (all pairs at the core layer for local tokens, a
  // thinner grid for signatures and the builder layers)
  for s in &paes {
    jobs.push(Box::new(move || {
      let mut cases = vec![];
      for (i, &lf) in PAE_LENGTHS.iter().enumerate() {
        for (j, &la) in PAE_LENGTHS.iter().enumerate() {
          let dense = s.layer == Layer::Core && s.proto.is_local();
          let thin = if s.proto == Proto::V3P { 7 } else { 3 };
          if dense || (i + 2 * j) % thin == 0 || lf == 64 || la == 64 {
            if s.proto == Proto::V3P && ctx.quick() && (i + j) % 2 == 1 && lf != 64 && la != 64 {
              continue;
            }
            cases.push(PaeCase { lf, la, lm: [0u16, 1, 64, 20][(i + j) % 4], fill: ((i * 31 + j) % 4) as u8 });
          }
        }
      }
      ctx.enumerate(s, cases.into_iter(), false)
    }));
  }
  run_jobs(jobs);
  EvidenceMeta {
    rule: "v3/v4 local/public x 3 layers; token built with assertion A in {none, explicit empty, 12-char generated tag + text}; related A' by construction (same, none<->empty, prefix, extension, case, last byte, unrelated). \
           Oracle: (1) accepted with the original message iff norm(A') == norm(A); (2) token length equals that of the token built without A (deterministic layers) and neither A, base64url(A), hex(A) occurs in the token text nor A's bytes in the decoded payload/footer; \
           (3) re-splitting the same footer||assertion concatenation at another point (footer segment rewritten accordingly) is rejected; (4) local core tokens built with A and A' have equal length and differ; (5) for footer and assertion lengths on a 30 x 30 grid around the powers of two (0..1024 bytes, pieces that start like a little-endian length included) the library's token is accepted by an independent implementation of the specification under the same pair and that implementation's token by the library. \
           Non-trivial = norm(A) != norm(A'); distinct by case."
      .into(),
    assumptions: vec!["footer and assertion consistently swapped on both sides would not break the property and is not detected".into()],
  }
}
