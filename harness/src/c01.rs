//! C01 – local tokens decrypt back to exactly the message that was encrypted (all three layers).
//! C02 reuses this module with the public protocols.
use crate::engine::*;
use crate::keys;
use crate::proto::*;
use crate::rt::*;

pub struct RoundTrip {
  pub pid: &'static str,
  pub proto: Proto,
  pub layer: Layer,
  pub kind: &'static str,
}

impl Sub for RoundTrip {
  type Case = RtCase;
  fn name(&self) -> String {
    format!("{}/{}/{}/{}", self.pid, self.kind, self.proto.label(), self.layer.label())
  }
  fn check(&self, c: &RtCase, cl: &mut Classes) -> Verdict {
    let pid = self.pid;
    let (p, l) = (c.proto, c.layer);
    let msg = c.msg.render();
    let footer = c.footer.as_ref().map(|t| t.render());
    let assertion = if p.has_assertion() { c.assertion.as_ref().map(|t| t.render()) } else { None };
    c.tags(cl);
    cl.nontrivial(!msg.is_empty() || footer.is_some() || assertion.is_some());
    let km = keys::material(p, &c.seed());
    let lk = match km.lib() {
      Ok(k) => k,
      Err(e) => vio!("{}:key-rejected:{}", pid, p.label(); "library rejected a valid key: {:?}", e),
    };
    let token = match layer_build(p, l, &lk, &c.nonce, &msg, footer.as_deref(), assertion.as_deref()) {
      Ok(t) => t,
      Err(e) => vio!("{}:build-failed:{}:{}:{}", pid, p.label(), l.label(), e.variant; "build failed for a valid input: {}", e.text),
    };
    if !token.starts_with(p.header()) {
      vio!("{}:header:{}:{}", pid, p.label(), l.label(); "token {:?} does not start with {}", token, p.header());
    }
    if c.before != 0 {
      // attempts that fail for their own reasons, on this thread, before the round-trip parse: what a service does all day
      // (key rotation fallbacks, tampered and foreign tokens). None of them may leave anything behind.
      cl.tag("failed-attempts-before-the-round-trip");
      let mut other_seed = c.seed();
      other_seed[3] ^= 0x40;
      other_seed[17] = other_seed[17].wrapping_add(1);
      if p == Proto::V1P && keys::rsa_index(&other_seed) == keys::rsa_index(&c.seed()) {
        other_seed[0] = other_seed[0].wrapping_add(1);
      }
      let km2 = keys::material(p, &other_seed);
      if c.before & 1 != 0 {
        if let Ok(lk2) = km2.lib() {
          if let Ok(o) = layer_parse(p, l, &lk2, &token, footer.as_deref(), assertion.as_deref()) {
            vio!("{}:accepted-under-other-key:{}:{}", pid, p.label(), l.label(); "token accepted under an unrelated key: {:?}", o.message());
          }
        }
      }
      if c.before & 2 != 0 {
        let wrong = format!("{}~", footer.clone().unwrap_or_default());
        let _ = layer_parse(p, l, &lk, &token, Some(&wrong), assertion.as_deref());
      }
      if c.before & 4 != 0 && p.has_assertion() {
        let wrong = format!("{}~", assertion.clone().unwrap_or_default());
        let _ = layer_parse(p, l, &lk, &token, footer.as_deref(), Some(&wrong));
      }
      if c.before & 8 != 0 {
        if let Some((h, ps, fs)) = split_token(&token) {
          if let Some(mut b) = unb64(&ps) {
            if let Some(last) = b.last_mut() {
              *last ^= 0x01;
            }
            let _ = layer_parse(p, l, &lk, &join_token(&h, &b, fs.as_deref()), footer.as_deref(), assertion.as_deref());
            if b.len() > 40 {
              b[36] ^= 0x80;
              let _ = layer_parse(p, l, &lk, &join_token(&h, &b, fs.as_deref()), footer.as_deref(), assertion.as_deref());
            }
          }
        }
      }
      if c.before & 96 != 0 {
        let kind = (if c.before & 32 != 0 { 3 } else { 0 }) | (if c.before & 64 != 0 { 4 } else { 0 });
        let _ = callbacks_misbehave(p, &lk, kind);
      }
      if c.before & 16 != 0 {
        for bad in ["", "v4.local.", "not a token", &token[..token.len() / 2]] {
          let _ = layer_parse(p, l, &lk, bad, footer.as_deref(), assertion.as_deref());
        }
      }
    }
    let out = match layer_parse(p, l, &lk, &token, footer.as_deref(), assertion.as_deref()) {
      Ok(o) => o,
      Err(e) => vio!("{}:parse-failed:{}:{}:{}", pid, p.label(), l.label(), e.variant; "authentic token rejected under the same key/footer/assertion: {} (token {})", e.text, token),
    };
    match out.message() {
      Some(m) if m == msg => {}
      other => vio!("{}:mismatch:{}:{}", pid, p.label(), l.label(); "round trip returned {:?} instead of {:?}", other, msg),
    }
    if let LayerOut::Json(v) = &out {
      if !v.is_object() {
        vio!("{}:not-an-object:{}:{}", pid, p.label(), l.label(); "parser returned {}", v);
      }
    }
    Verdict::Pass
  }
}

pub fn all_subs(pid: &'static str, protos: &[Proto]) -> Vec<RoundTrip> {
  let mut v = vec![];
  for &proto in protos {
    for layer in Layer::ALL {
      for kind in ["sweep", "random", "dense"] {
        if kind == "dense" && layer == Layer::Prelude {
          continue;
        }
        v.push(RoundTrip { pid, proto, layer, kind });
      }
    }
  }
  v
}

pub fn subs() -> Vec<Box<dyn DynSub>> {
  all_subs("C01", &Proto::LOCAL).into_iter().map(|s| Box::new(s) as Box<dyn DynSub>).collect()
}

/// one- and two-byte messages x `per_message` (key, nonce) pairs
pub fn tiny_messages(proto: Proto, layer: Layer, per_message: u32) -> Vec<RtCase> {
  let mut out = vec![];
  let mut x: u64 = 0x9e37_79b9_7f4a_7c15 ^ (proto.version() as u64);
  let mut next = || {
    x ^= x << 13;
    x ^= x >> 7;
    x ^= x << 17;
    x
  };
  for msg in ["a", "{", "0", "\u{0}", "\u{7f}", "\u{e9}", "ab", "{}"] {
    for i in 0..per_message {
      let nonce: Vec<u8> = (0..if proto == Proto::V2L { 24 } else { 32 }).map(|_| next() as u8).collect();
      let key_seed: Vec<u8> = if i % 64 == 0 { (0..32).map(|_| next() as u8).collect() } else { out.last().map(|c: &RtCase| c.key_seed.clone()).unwrap_or_else(|| vec![7u8; 32]) };
      out.push(RtCase { proto, layer, key_seed, nonce, msg: crate::gen::Text::Lit(msg.to_string()), footer: None, assertion: None, before: 0 });
    }
  }
  out
}

pub fn run_rt<'a>(ctx: &'a Ctx, subs: &'a [RoundTrip], per_unit_quick: u32, per_unit_thorough: u32, sweep_max_quick: u32, sweep_max_thorough: u32) {
  let mut jobs: Vec<Job> = vec![];
  for s in subs {
    if s.kind == "sweep" {
      let max = if s.proto.cost() > 4 { ctx.n(sweep_max_quick.min(100_000), sweep_max_thorough) } else { ctx.n(sweep_max_quick, sweep_max_thorough) };
      jobs.push(Box::new(move || ctx.enumerate(s, boundary_sweep(s.proto, s.layer, max).into_iter(), true)));
    } else if s.kind == "dense" {
      // every message length up to a few blocks of every primitive involved
      let max = match s.proto.cost() { 40 => ctx.n(200, 1100), 8 => ctx.n(300, 1100), _ => ctx.n(1100, 4200) };
      jobs.push(Box::new(move || ctx.enumerate(s, dense_sweep(s.proto, s.layer, max).into_iter(), true)));
      if s.layer == Layer::Core && s.proto.is_local() {
        // messages of one or two bytes under very many (key, nonce) pairs: the keystream over so short a message takes every
        // value, also all-zero (ciphertext == plaintext), all-one, the message itself
        let per_message = ctx.n(1500, 40_000);
        jobs.push(Box::new(move || ctx.enumerate(s, tiny_messages(s.proto, s.layer, per_message).into_iter(), false)));
      }
    } else {
      let n = (ctx.n(per_unit_quick, per_unit_thorough) / s.proto.cost()).max(20);
      jobs.push(Box::new(move || ctx.prop(s, rt_case(s.proto, s.layer), n)));
    }
  }
  run_jobs(jobs);
}

pub fn run(ctx: &Ctx) -> EvidenceMeta {
  let subs = all_subs("C01", &Proto::LOCAL);
  run_rt(ctx, &subs, 4000, 40_000, 100_000, 1_000_000);
  EvidenceMeta {
    rule: "per (version, layer): a deterministic sweep over message byte lengths {0,1,15,16,17,31,32,33,47,48,49,63,64,65,127,128,129,255,256,257,4095,4096,4097,65535,65536,65537,100000} x {no footer, footer} (assertion alternating for v3/v4), \
           every message length 0..=1100 (dense), one- and two-byte messages under 1 500 (thorough 40 000) (key, nonce) pairs each at the core layer, \
           then generated cases (key incl. all-zero/all-one, nonce, message from JSON-ish ASCII / arbitrary Unicode / specials / boundary lengths, footer and assertion in {none, explicit empty, text}). \
           Oracle: parse(build(x)) == x exactly (core: the string; builder layers: the 'data' claim carrying the generated text). \
           Non-trivial = message non-empty or footer/assertion present; distinct by the whole case."
      .into(),
    assumptions: vec!["errors made identically on the encrypt and decrypt side are invisible to a round trip (C08 covers those)".into()],
  }
}
