//! C13 – tokens expire by default; only an explicit acknowledgement removes exp.
//! C17 lives in c17.rs and shares the operation type and the interpreter.
use crate::engine::*;
use crate::gen;
use crate::keys;
use crate::proto::*;
use crate::rt::layer_parse;
use crate::tgen;
use proptest::collection::vec;
use proptest::prelude::*;
use serde::{Deserialize, Serialize};
use serde_json::Value;
use std::collections::BTreeMap;

#[derive(Clone, Debug, Serialize, Deserialize, PartialEq)]
pub enum BOp {
  Set(ClaimSpec),
  Ack,
  Footer(String),
  Assertion(String),
  Build,
  /// elsewhere on this thread a claim that cannot be serialised is handed to throwaway builders (no effect on the model)
  OtherBuildersFail,
  /// `build` with a private key that cannot sign (public protocols; an ordinary build for local ones)
  BuildWithUnusableKey,
  /// `set_claim` with a caller-defined claim (key: 0 "exp", 1 "iat", 2 a custom name) whose Serialize panics; the unwind is
  /// caught and the builder used on. Later `set_claim`s of that key on the same builder are left out of the history (whether
  /// the attempt counts as "supplied" is nobody's promise).
  SetPanics(u8),
}

pub const PANIC_KEYS: [&str; 3] = ["exp", "iat", "claim-whose-serialize-panics"];

impl BOp {
  pub fn short(&self) -> String {
    match self {
      BOp::Set(c) => format!("set({})", c.key()),
      BOp::Ack => "ack".into(),
      BOp::Footer(_) => "footer".into(),
      BOp::Assertion(_) => "assertion".into(),
      BOp::Build => "build".into(),
      BOp::OtherBuildersFail => "other-builders-fail".into(),
      BOp::BuildWithUnusableKey => "build(unusable key)".into(),
      BOp::SetPanics(k) => format!("set({}: Serialize panics, caught)", PANIC_KEYS[*k as usize % 3]),
    }
  }
}

#[derive(Clone, Debug, Serialize, Deserialize)]
pub struct HistCase {
  pub proto: Proto,
  #[serde(with = "gen::hexser")]
  pub seed: Vec<u8>,
  pub ops: Vec<BOp>,
  /// ops[i] goes to a second, independent builder when twin[i] is true (both builders are alive together;
  /// nothing done to one may show in the other)
  #[serde(default)]
  pub twin: Vec<bool>,
}

/// what the interpreter observed at one `build`
pub struct BuildObs {
  pub index: usize,
  pub result: Result<Value, LibErr>,
  /// model state at that point
  pub supplied: BTreeMap<String, (u32, Value)>,
  pub ack: bool,
  /// exp supplied (at least once) after the acknowledgement
  pub exp_after_ack: bool,
  /// how many times exp was supplied before the (first) acknowledgement
  pub exp_before_ack: u32,
  pub builds_before: usize,
  /// 0 or 1: which of the two builders
  pub builder: usize,
  /// the build was given a private key that cannot sign: it cannot return a token, only the reason is judged
  pub unusable_key: bool,
}

pub struct Run {
  pub t0: (i64, u32),
  pub t1: (i64, u32),
  pub builds: Vec<BuildObs>,
  /// a token was returned but could not be read back (violation text)
  pub readback_error: Option<String>,
}

/// Runs the history against a fresh `PasetoBuilder::<V,P>::default()`, reading every built token back
/// through GenericParser.
pub fn interpret(c: &HistCase) -> Run {
  let p = c.proto;
  let km = keys::material(p, &gen::arr32(&c.seed));
  let lk = km.lib().expect("valid key");
  let bad_km = keys::unusable_signing_material(p, &gen::arr32(&c.seed));
  let t0 = tgen::now();
  let mut builders = [new_builder(p, Layer::Prelude), new_builder(p, Layer::Prelude)];
  let t1 = tgen::now();
  let mut supplied: [BTreeMap<String, (u32, Value)>; 2] = [BTreeMap::new(), BTreeMap::new()];
  let mut ack = [false, false];
  let mut exp_after_ack = [false, false];
  let mut exp_before_ack = [0u32, 0u32];
  let mut footer: [Option<&str>; 2] = [None, None];
  let mut assertion: [Option<&str>; 2] = [None, None];
  let mut nbuilds = [0usize, 0usize];
  let mut poisoned: [std::collections::BTreeSet<&str>; 2] = [Default::default(), Default::default()];
  let mut run = Run { t0, t1, builds: vec![], readback_error: None };
  let mut tokens: Vec<String> = vec![];
  for (i, op) in c.ops.iter().enumerate() {
    let w = c.twin.get(i).copied().unwrap_or(false) as usize;
    let b = &mut builders[w];
    match op {
      BOp::SetPanics(k) => {
        let key = PANIC_KEYS[*k as usize % 3];
        if supplied[w].contains_key(key) || poisoned[w].contains(key) {
          continue; // the key was supplied before: left out (see BOp::SetPanics)
        }
        if key == "exp" && ack[w] {
          exp_after_ack[w] = true;
        }
        let spec: &'static ClaimSpec = Box::leak(Box::new(ClaimSpec::Panicking(key.to_string())));
        let _ = crate::engine::catch(|| {
          let _ = b.set(spec);
        });
        poisoned[w].insert(key);
      }
      BOp::Set(spec) if poisoned[w].contains(spec.key()) => {}
      BOp::Set(spec) => {
        if b.set(spec).is_ok() {
          let e = supplied[w].entry(spec.key().to_string()).or_insert((0, Value::Null));
          e.0 += 1;
          e.1 = spec.expected();
          if spec.key() == "exp" {
            if ack[w] {
              exp_after_ack[w] = true;
            } else {
              exp_before_ack[w] += 1;
            }
          }
        }
      }
      BOp::Ack => {
        b.ack_no_expiry();
        ack[w] = true;
      }
      BOp::Footer(f) => {
        b.footer(f);
        footer[w] = Some(f.as_str());
      }
      BOp::Assertion(a) => {
        if b.assertion(a) {
          assertion[w] = Some(a.as_str());
        }
      }
      BOp::OtherBuildersFail => fail_a_claim_on_throwaway_builders(),
      BOp::Build | BOp::BuildWithUnusableKey => {
        let unusable = if matches!(op, BOp::BuildWithUnusableKey) { bad_km.as_ref().and_then(|k| k.lib().ok()) } else { None };
        let r = match &unusable {
          Some(bk) => b.build(bk),
          None => b.build(&lk),
        };
        let result = match r {
          Err(e) => Err(e),
          Ok(token) => {
            tokens.push(token);
            let t = tokens.last().unwrap();
            match layer_parse(p, Layer::Generic, &lk, t, footer[w], assertion[w]) {
              Ok(crate::rt::LayerOut::Json(v)) => Ok(v),
              Ok(_) => unreachable!(),
              Err(e) => {
                run.readback_error = Some(format!("token of build #{} could not be read back with the builder's footer/assertion: {} ({})", run.builds.len() + 1, e.text, t));
                Err(e)
              }
            }
          }
        };
        run.builds.push(BuildObs { index: i, result, supplied: supplied[w].clone(), ack: ack[w], exp_after_ack: exp_after_ack[w], exp_before_ack: exp_before_ack[w], builds_before: nbuilds[w], builder: w, unusable_key: unusable.is_some() });
        nbuilds[w] += 1;
      }
    }
  }
  run
}

pub struct ExpiryDefault {
  pub proto: Proto,
  pub kind: &'static str,
}

fn within(t: (i64, u32), lo: (i64, u32), hi: (i64, u32), shift: i64) -> bool {
  let x = (t.0 as i128) * 1_000_000_000 + t.1 as i128;
  let l = ((lo.0 + shift - 1) as i128) * 1_000_000_000 + lo.1 as i128;
  let h = ((hi.0 + shift + 1) as i128) * 1_000_000_000 + hi.1 as i128;
  l <= x && x <= h
}

impl Sub for ExpiryDefault {
  type Case = HistCase;
  fn name(&self) -> String {
    format!("C13/{}/{}", self.kind, self.proto.label())
  }
  fn check(&self, c: &HistCase, cl: &mut Classes) -> Verdict {
    let p = c.proto;
    let run = interpret(c);
    let hist: Vec<String> = c.ops.iter().enumerate().map(|(i, o)| if c.twin.get(i).copied().unwrap_or(false) { format!("B2.{}", o.short()) } else { o.short() }).collect();
    let ok_builds = run.builds.iter().filter(|b| b.result.is_ok()).count();
    if c.twin.iter().any(|t| *t) {
      cl.tag("two-builders-interleaved");
    }
    cl.tag(format!("{}", p.label()));
    cl.tag(format!("successful-builds={}", ok_builds.min(3)));
    cl.tag(format!("len={}", c.ops.len().min(8)));
    let interesting = c.ops.iter().any(|o| matches!(o, BOp::Ack)) || c.ops.iter().any(|o| matches!(o, BOp::Set(s) if ["exp", "iat", "nbf"].contains(&s.key()))) || ok_builds >= 2;
    cl.nontrivial(ok_builds >= 1 && interesting);
    if let Some(e) = run.readback_error {
      vio!("C13:unreadable-token:{}", p.label(); "{} — history {:?}", e, hist);
    }
    for b in &run.builds {
      let v = match &b.result {
        Ok(v) => v,
        Err(_) => continue,
      };
      let nth = if b.builds_before == 0 { "first" } else { "repeated" };
      let obj = match v.as_object() {
        Some(o) => o,
        None => vio!("C13:payload-not-object:{}", nth; "payload {} — history {:?}", v, hist),
      };
      let sup = |k: &str| b.supplied.get(k).map(|(_, v)| v.clone());
      // exp presence
      if b.ack {
        if obj.contains_key("exp") {
          vio!("C13:exp-present-after-ack:{}", nth; "no-expiration was acknowledged but the token carries exp: {} — history {:?}", v, hist);
        }
      } else if sup("exp").map(|v| !v.is_string()).unwrap_or(false) {
        // the caller supplied exp through a claim type of their own with a value that is no string: it must be THERE
        // (checked with the other supplied claims below); what it is worth to a parser is C11's subject
        if !obj.contains_key("exp") {
          vio!("C13:exp-missing:{}-build", nth; "the caller's own exp claim ({}) is not in the payload and nothing was acknowledged: payload {} — history {:?}", sup("exp").unwrap(), v, hist);
        }
      } else if !obj.get("exp").map(|e| e.is_string()).unwrap_or(false) {
        vio!("C13:exp-missing:{}-build", nth; "token without acknowledgement carries no exp string: payload {} — history {:?} (build at op {})", v, hist, b.index);
      }
      // defaults
      let iat = if sup("iat").is_none() { Some(obj.get("iat").and_then(|x| x.as_str()).and_then(tgen::parse_rfc3339)) } else { None };
      let nbf = if sup("nbf").is_none() { Some(obj.get("nbf").and_then(|x| x.as_str()).and_then(tgen::parse_rfc3339)) } else { None };
      for (name, t) in [("iat", &iat), ("nbf", &nbf)] {
        if let Some(t) = t {
          match t {
            None => vio!("C13:default-{}-missing:{}-build", name, nth; "default {} is missing or not RFC 3339: payload {} — history {:?}", name, v, hist),
            Some(t) if !within(*t, run.t0, run.t1, 0) => vio!("C13:default-{}-not-creation-time:{}", name, nth; "default {} = {:?} is outside the builder's creation window [{:?}, {:?}] — payload {}", name, t, run.t0, run.t1, v),
            _ => {}
          }
        }
      }
      if let (Some(Some(a)), Some(Some(n))) = (&iat, &nbf) {
        if a != n {
          vio!("C13:iat-nbf-differ:{}", nth; "default iat {:?} and nbf {:?} are not the same instant — payload {}", a, n, v);
        }
      }
      if !b.ack && sup("exp").is_none() {
        let e = obj.get("exp").and_then(|x| x.as_str()).and_then(tgen::parse_rfc3339);
        let base = iat.clone().flatten().or(nbf.clone().flatten());
        match (e, base) {
          (None, _) => vio!("C13:default-exp-not-rfc3339:{}", nth; "payload {}", v),
          (Some(e), Some(b0)) => {
            if e != (b0.0 + 3600, b0.1) {
              vio!("C13:default-exp-not-one-hour:{}", nth; "default exp {:?} is not creation time {:?} + 3600 s — payload {}", e, b0, v);
            }
          }
          (Some(e), None) => {
            if !within(e, run.t0, run.t1, 3600) {
              vio!("C13:default-exp-not-one-hour:{}", nth; "default exp {:?} is not within creation window + 3600 s — payload {}", e, v);
            }
          }
        }
      }
      // a supplied time claim takes the place of its default (other claims are C14's / C17's subject)
      for (k, (_, val)) in &b.supplied {
        if !["exp", "iat", "nbf"].contains(&k.as_str()) || (k == "exp" && b.ack) {
          continue;
        }
        if obj.get(k) != Some(val) {
          vio!("C13:supplied-claim-lost:{}-build:{}", nth, k; "supplied {} = {} but payload is {} — history {:?}", k, val, v, hist);
        }
      }
    }
    Verdict::Pass
  }
}

// ---------------------------------------------------------------- a builder that is kept for a while before it builds

#[derive(Clone, Debug, Serialize, Deserialize)]
pub struct SlowCase {
  pub proto: Proto,
  /// milliseconds between PasetoBuilder::default() and the first build, and between the two builds
  pub wait_ms: u32,
}

pub struct LongLivedBuilder;

impl Sub for LongLivedBuilder {
  type Case = SlowCase;
  fn name(&self) -> String {
    "C13/long-lived-builder".into()
  }
  fn check(&self, c: &SlowCase, cl: &mut Classes) -> Verdict {
    let p = c.proto;
    let km = keys::material(p, &[8u8; 32]);
    let lk = km.lib().expect("valid key");
    let t0 = tgen::now();
    let mut b = new_builder(p, Layer::Prelude);
    let t1 = tgen::now();
    cl.tag(p.label());
    cl.nontrivial(true);
    let mut seen: Vec<Value> = vec![];
    for round in 0..2 {
      std::thread::sleep(std::time::Duration::from_millis(c.wait_ms as u64));
      let token = match b.build(&lk) {
        Ok(t) => t,
        Err(e) => vio!("C13:build-failed:long-lived"; "build #{} of a default builder failed: {}", round + 1, e.text),
      };
      let v = match layer_parse(p, Layer::Generic, &lk, &token, None, None) {
        Ok(crate::rt::LayerOut::Json(v)) => v,
        _ => vio!("C13:unreadable-token:{}", p.label(); "token of build #{} cannot be read back", round + 1),
      };
      let get = |k: &str| v.get(k).and_then(|x| x.as_str()).and_then(tgen::parse_rfc3339);
      let (iat, nbf, exp) = (get("iat"), get("nbf"), get("exp"));
      match (iat, nbf, exp) {
        (Some(i), Some(n), Some(e)) => {
          if !within(i, t0, t1, 0) || n != i {
            vio!("C13:default-iat-not-creation-time:long-lived"; "build #{} made {} ms after the builder was created carries iat {:?} / nbf {:?}; the builder was created in [{:?}, {:?}] — payload {}", round + 1, c.wait_ms * (round + 1), i, n, t0, t1, v);
          }
          if e != (i.0 + 3600, i.1) {
            vio!("C13:default-exp-not-one-hour:long-lived"; "exp {:?} is not iat {:?} + 3600 s — payload {}", e, i, v);
          }
        }
        _ => vio!("C13:exp-missing:long-lived"; "default time claims missing in payload {}", v),
      }
      seen.push(v);
    }
    if seen[0] != seen[1] {
      vio!("C13:builds-disagree:long-lived"; "two builds of one untouched builder carry different payloads: {} / {}", seen[0], seen[1]);
    }
    Verdict::Pass
  }
}

/// the 9-letter operation alphabet of the exhaustive part; `n` makes repeated values distinct
pub fn alphabet_op(letter: usize, n: usize) -> BOp {
  match letter {
    0 => BOp::Set(ClaimSpec::Exp(format!("20{}-01-01T00:00:00Z", 40 + n % 50))),
    1 => BOp::Set(ClaimSpec::Iat(format!("20{}-02-02T00:00:00+00:00", 10 + n % 10))),
    2 => BOp::Set(ClaimSpec::NbfOwned(format!("20{}-03-03T00:00:00Z", 10 + n % 10))),
    3 => BOp::Set(ClaimSpec::Sub(format!("subject-{n}"))),
    4 => BOp::Set(ClaimSpec::Custom("role".into(), serde_json::json!(n))),
    5 => BOp::Ack,
    6 => BOp::Footer(format!("footer-{n}")),
    7 => BOp::Assertion(format!("assertion-{n}")),
    _ => BOp::Build,
  }
}

pub fn odometer(letters: usize, max_len: usize) -> impl Iterator<Item = Vec<usize>> {
  let mut out: Vec<Vec<usize>> = vec![];
  for len in 1..=max_len {
    let mut idx = vec![0usize; len];
    loop {
      out.push(idx.clone());
      let mut i = len;
      loop {
        if i == 0 {
          break;
        }
        i -= 1;
        idx[i] += 1;
        if idx[i] < letters {
          break;
        }
        idx[i] = 0;
        if i == 0 {
          i = usize::MAX;
          break;
        }
      }
      if i == usize::MAX {
        break;
      }
    }
  }
  out.into_iter()
}

fn time_string() -> BoxedStrategy<String> {
  (1971i64..9000, 1u32..=12, 1u32..=28, 0i64..86400, 0u32..1_000_000_000, tgen::rendering()).prop_map(|(y, m, d, s, n, mut r)| {
    r.sep = 0;
    if r.zulu == 2 { r.zulu = 1; }
    tgen::render(tgen::days_from_civil(y, m, d) * 86400 + s, n, &r)
  }).boxed()
}

pub fn random_op() -> BoxedStrategy<BOp> {
  prop_oneof![
    2 => time_string().prop_map(|s| BOp::Set(ClaimSpec::Exp(s))),
    1 => time_string().prop_map(|s| BOp::Set(ClaimSpec::ExpOwned(s))),
    2 => time_string().prop_map(|s| BOp::Set(ClaimSpec::Iat(s))),
    2 => time_string().prop_map(|s| BOp::Set(ClaimSpec::Nbf(s))),
    1 => gen::jsonish(8).prop_map(|s| BOp::Set(ClaimSpec::Exp(s))),
    // timestamps in a near-miss format (ISO 8601 but not RFC 3339, decorated, impossible dates): whichever of them the
    // claim constructor accepts is a supplied value like any other
    2 => (time_string(), 0u8..crate::c11::NEAR_MISS as u8, 0u8..4).prop_map(|(s, k, which)| {
      let t = crate::c11::spoil(&s, k);
      BOp::Set(match which { 0 => ClaimSpec::Exp(t), 1 => ClaimSpec::ExpOwned(t), 2 => ClaimSpec::Iat(t), _ => ClaimSpec::Nbf(t) })
    }),
    2 => gen::short_text().prop_map(|t| BOp::Set(ClaimSpec::Sub(t.render()))),
    1 => gen::short_text().prop_map(|t| BOp::Set(ClaimSpec::Iss(t.render()))),
    1 => gen::short_text().prop_map(|t| BOp::Set(ClaimSpec::Aud(t.render()))),
    1 => gen::short_text().prop_map(|t| BOp::Set(ClaimSpec::Jti(t.render()))),
    3 => ("[a-d]", gen::json_leaf()).prop_map(|(k, v)| BOp::Set(ClaimSpec::Custom(k, v))),
    // custom claims whose names contain or look like exp / iat / nbf: claims of their own - the defaults stay what they are
    3 => (any::<u16>(), gen::json_leaf()).prop_map(|(i, v)| {
      const NAMES: [&str; 24] = ["expires_in", "expiry", "experiment", "exp_", "_exp", "deviation", "initiator", "association", "iat2", "nbf_", "unbfoo", "Exp", "NBF", "e\u{200b}xp", "exp\u{fe0f}", "\u{2060}iat",
        "nbf\u{200d}", "\u{ff45}\u{ff58}\u{ff50}", "\u{ff49}\u{ff41}\u{ff54}", "i\u{ad}at", "ex", "ia", "expnbfiat", "exp iat"];
      BOp::Set(ClaimSpec::Custom(NAMES[pick(i, NAMES.len())].to_string(), v))
    }),
    // documents with hundreds of containers (tables, key sets, records with empty members)
    1 => ("[a-d]", gen::json_doc_value()).prop_map(|(k, v)| BOp::Set(ClaimSpec::Custom(k, v))),
    // a payload beyond 64 KiB
    1 => (0u32..3).prop_map(|i| BOp::Set(ClaimSpec::Custom("blob".into(), Value::String("b".repeat([65_536usize, 70_000, 200_000][i as usize]))))),
    3 => Just(BOp::Ack),
    1 => (0u8..3).prop_map(BOp::SetPanics),
    1 => Just(BOp::OtherBuildersFail),
    1 => Just(BOp::BuildWithUnusableKey),
    // time claims supplied through a claim type of the caller's own (the PasetoClaim trait is public), with any JSON value
    2 => (0u8..3, prop_oneof![3 => Just(Value::Null), 1 => Just(serde_json::json!("2040-01-01T00:00:00Z")), 1 => Just(serde_json::json!(1893456000)), 1 => Just(serde_json::json!(""))]).prop_map(|(k, v)| BOp::Set(ClaimSpec::Any(["exp", "iat", "nbf"][k as usize].to_string(), v))),
    2 => gen::jsonish(8).prop_map(BOp::Footer),
    2 => gen::jsonish(8).prop_map(BOp::Assertion),
    6 => Just(BOp::Build),
  ]
  .boxed()
}

pub fn random_case(proto: Proto, max_len: usize) -> BoxedStrategy<HistCase> {
  (gen::bytes32(), vec(random_op(), 0..=max_len), prop_oneof![2 => Just(vec![]), 1 => vec(any::<bool>(), 0..=max_len)]).prop_map(move |(seed, ops, twin)| HistCase { proto, seed, ops, twin }).boxed()
}

fn all_subs() -> Vec<ExpiryDefault> {
  let mut v = vec![ExpiryDefault { proto: Proto::V4L, kind: "exhaustive" }];
  for proto in Proto::ALL {
    v.push(ExpiryDefault { proto, kind: "random" });
  }
  v
}

pub fn subs() -> Vec<Box<dyn DynSub>> {
  let mut v: Vec<Box<dyn DynSub>> = all_subs().into_iter().map(|s| Box::new(s) as Box<dyn DynSub>).collect();
  v.push(Box::new(LongLivedBuilder));
  v
}

pub fn run(ctx: &Ctx) -> EvidenceMeta {
  let subs = all_subs();
  let child = ctx.is_clock_child();
  let max_len = if child { 4 } else { ctx.n(5, 6) as usize };
  let mut jobs: Vec<Job> = vec![];
  if !child {
    // the same histories with the wall clock SET to calendar boundaries (child processes under tools/fakeclock.c)
    jobs.push(Box::new(move || ctx.clock_children(&crate::tgen::special_clocks(ctx.quick()))));
  }
  // builders that wait before building (each case sleeps; they run side by side with everything else)
  let slow = &LongLivedBuilder;
  let waits: Vec<(Proto, u32)> = if ctx.quick() { vec![(Proto::V4L, 5600), (Proto::V2P, 3100)] } else { vec![(Proto::V4L, 5600), (Proto::V2P, 3100), (Proto::V3L, 31_000), (Proto::V4P, 61_000)] };
  for (proto, wait_ms) in waits.into_iter().filter(|_| !child) {
    jobs.push(Box::new(move || ctx.enumerate(slow, std::iter::once(SlowCase { proto, wait_ms }), false)));
  }
  for s in &subs {
    if s.kind == "exhaustive" {
      // split the odometer space over 9 jobs by first letter
      for first in 0..9usize {
        jobs.push(Box::new(move || {
          let cases = odometer(9, max_len).filter(move |w| w[0] == first).map(|w| HistCase {
            proto: Proto::V4L,
            seed: vec![11u8; 32],
            ops: w.iter().enumerate().map(|(i, l)| alphabet_op(*l, i)).collect(),
            twin: vec![],
          });
          ctx.enumerate(s, cases, true)
        }));
      }
    } else {
      let n = (ctx.n(10_000, 100_000) / s.proto.cost().min(20)).max(300);
      jobs.push(Box::new(move || ctx.prop(s, random_case(s.proto, 30), n)));
    }
  }
  run_jobs(jobs);
  EvidenceMeta {
    rule: format!("histories over PasetoBuilder::default(): {{set exp, set iat, set nbf, set sub, set custom, acknowledge no-expiration, set_footer, set_implicit_assertion, build}} - every sequence up to length {max_len} on v4.local (exhaustive), generated sequences up to length 30 on all 8 protocols (time strings in any strict rendering, invalid time strings, other registered and custom claims). \
           Every token returned by build is read back through GenericParser. Oracle (model of supplied keys and the acknowledgement): acknowledged => no exp member; not acknowledged => exp is a string; iat/nbf not supplied equal one instant inside the builder's creation window (+-1 s), exp not supplied equals it + 3600 s exactly; \
           every supplied value replaces its default; no member that was never supplied - for the first and for every repeated build of the same builder. \
           Non-trivial = at least one successful build and (an acknowledgement, a supplied time claim or a repeated build); distinct by history."),
    assumptions: vec!["reads the wall clock around PasetoBuilder::default(); +-1 s slack absorbs a stepping clock".into()],
  }
}
