//! C04 – a token is accepted only under the key it was produced with.
use crate::c03::{tok_spec, fixed_spec, TokSpec};
use crate::engine::*;
use crate::gen;
use crate::keys;
use crate::proto::*;
use crate::rt::{layer_parse, parse_twice};
use proptest::prelude::*;
use serde::{Deserialize, Serialize};

#[derive(Clone, Debug, Serialize, Deserialize)]
pub enum KeyAlt {
  /// key (pair) derived from another seed
  OtherSeed(#[serde(with = "gen::hexser")] Vec<u8>),
  /// flip bit i of the parse-side key bytes (symmetric key / Ed25519 public key / P-384 x coordinate / RSA modulus)
  FlipBit(u16),
  AllZero,
  AllOne,
  /// P-384: 02 <-> 03 (the negated point); Ed25519: flip the sign bit of x
  Negate,
  /// Ed25519 identity point encoding / P-384 x = 0
  Degenerate,
  /// another key of the RSA pool
  RsaPool(u8),
  /// v1.public: the signer's modulus with another public exponent (3, 65539, 2^24 + 65537, 2^32 + 65537, 2^32 + 1, 5 ...)
  RsaExponent(u8),
  /// v2.public / v4.public: the signer's public key plus one of the seven non-trivial 8-torsion points - a valid, different
  /// 32-byte key that a verifier which multiplies keys by the cofactor takes for the signer's
  TorsionSibling(u8),
  /// structured rearrangement of the key bytes: 0 swap two 8-byte groups, 1 reverse the 8-byte groups,
  /// 2 rotate by one byte, 3 reverse all bytes, 4 swap the halves
  Permute(u8, u8),
  /// flip the same bit in two bytes `dist` apart (dist from {1,2,4,8,16})
  FlipTwo(u16, u8),
  /// local protocols only: both keys are parsed from hexadecimal strings by the library; K has only the digits 0-5,
  /// K' replaces the nibbles selected by the mask with a-f, spelled in the given letter case
  HexSpelling(u64, bool),
  /// v*.local, v2/v4.public: K' is built by `Key::<32>::from(&[u8])` from key material of another length:
  /// kind 0 = K followed by n more bytes, kind 1 = K without its last n bytes, kind 2 = n bytes followed by K
  WrongLength(u8, u8),
  /// first byte of the parse-side public key replaced by this value (P-384: every SEC1 tag - compact 05, hybrid 06/07,
  /// uncompressed 04, infinity 00 ...; Ed25519: the low byte of y)
  FirstByte(u8),
  /// v2/v4.public: the token is SIGNED with 64 secret-key bytes whose halves do not belong together (seed of another
  /// pair, public half of this one). Refusing to sign is fine; a token that comes out belongs to the public key the secret
  /// key carries - it must not verify under the other pair's public key.
  SecretHalvesMismatch,
  /// v3.public: K' is a public key RECOVERED from the token's own ECDSA signature (every recovery id) for the byte
  /// string the specification signs and for the one an implementation that leaves the public key out of it would sign
  Recovered(u8),
}

#[derive(Clone, Debug, Serialize, Deserialize)]
pub struct KeyCase {
  pub tok: TokSpec,
  pub alt: KeyAlt,
}

pub struct KeyBinding {
  pub proto: Proto,
  pub layer: Layer,
  pub kind: &'static str,
}

/// the alternative parse-side key bytes, or None when the alternative does not apply / equals the original
fn alt_public(p: Proto, seed: &[u8; 32], alt: &KeyAlt) -> Option<Vec<u8>> {
  let (_, pk) = keys::key_bytes(p, seed);
  let out = match alt {
    KeyAlt::OtherSeed(s) => {
      let s2 = gen::arr32(s);
      if p == Proto::V1P && keys::rsa_index(&s2) == keys::rsa_index(seed) {
        return None;
      }
      keys::key_bytes(p, &s2).1
    }
    KeyAlt::FlipBit(i) => {
      let mut k = pk.clone();
      let (lo, len) = match p {
        Proto::V3P => (1usize, 48usize),
        // PKCS#1 RSAPublicKey: 30 82 01 0a 02 82 01 01 00 <256 modulus bytes> 02 03 01 00 01
        Proto::V1P => (9, 256),
        _ => (0, 32),
      };
      let bit = (*i as usize) % (len * 8);
      k[lo + bit / 8] ^= 1 << (bit % 8);
      k
    }
    KeyAlt::AllZero => match p {
      Proto::V3P => {
        let mut k = vec![0u8; 49];
        k[0] = 2;
        k
      }
      Proto::V1P => return None,
      _ => vec![0u8; 32],
    },
    KeyAlt::AllOne => match p {
      Proto::V3P => {
        let mut k = vec![0xffu8; 49];
        k[0] = 3;
        k
      }
      Proto::V1P => return None,
      _ => vec![0xffu8; 32],
    },
    KeyAlt::Negate => match p {
      Proto::V3P => {
        let mut k = pk.clone();
        k[0] ^= 1;
        k
      }
      Proto::V2P | Proto::V4P => {
        let mut k = pk.clone();
        k[31] ^= 0x80;
        k
      }
      _ => return None,
    },
    KeyAlt::Degenerate => match p {
      Proto::V2P | Proto::V4P => {
        let mut k = vec![0u8; 32];
        k[0] = 1;
        k
      }
      Proto::V3P => {
        let mut k = vec![0u8; 49];
        k[0] = 4; // not a compressed-point prefix: the key constructor must refuse it
        k
      }
      _ => return None,
    },
    KeyAlt::Permute(kind, which) => {
      let mut k = pk.clone();
      let (lo, len) = match p {
        Proto::V3P => (1usize, 48usize),
        Proto::V1P => (9, 256),
        _ => (0, 32),
      };
      let body: Vec<u8> = k[lo..lo + len].to_vec();
      let groups = len / 8;
      let mut out = body.clone();
      match kind % 5 {
        0 => {
          let a = (*which as usize) % groups;
          let b = (a + 1 + (*which as usize / groups) % (groups - 1)) % groups;
          for i in 0..8 {
            out.swap(a * 8 + i, b * 8 + i);
          }
        }
        1 => {
          for g in 0..groups {
            out[g * 8..g * 8 + 8].copy_from_slice(&body[(groups - 1 - g) * 8..(groups - g) * 8]);
          }
        }
        2 => out.rotate_left(1 + (*which as usize) % (len - 1)),
        3 => out.reverse(),
        _ => out.rotate_left(len / 2),
      }
      k[lo..lo + len].copy_from_slice(&out);
      k
    }
    KeyAlt::FlipTwo(bit, d) => {
      let mut k = pk.clone();
      let (lo, len) = match p {
        Proto::V3P => (1usize, 48usize),
        Proto::V1P => (9, 256),
        _ => (0, 32),
      };
      let dist = [1usize, 2, 4, 8, 16][(*d as usize) % 5];
      let i = (*bit as usize / 8) % (len - dist);
      let m = 1u8 << (bit % 8);
      k[lo + i] ^= m;
      k[lo + i + dist] ^= m;
      k
    }
    KeyAlt::HexSpelling(..) => return None, // handled by `hex_spelling`
    KeyAlt::WrongLength(..) => return None, // handled by `wrong_length`
    KeyAlt::SecretHalvesMismatch => return None, // handled by `secret_halves_mismatch`
    KeyAlt::Recovered(_) => return None,           // handled by `recovered_keys`
    KeyAlt::FirstByte(b) => {
      if p.is_local() || p == Proto::V1P || pk[0] == *b {
        return None;
      }
      let mut k = pk.clone();
      k[0] = *b;
      k
    }
    KeyAlt::TorsionSibling(i) => {
      if !matches!(p, Proto::V2P | Proto::V4P) {
        return None;
      }
      use curve25519_dalek::edwards::CompressedEdwardsY;
      let a = CompressedEdwardsY::from_slice(&pk).ok()?.decompress()?;
      let t = curve25519_dalek::constants::EIGHT_TORSION[1 + (*i as usize) % 7];
      (a + t).compress().to_bytes().to_vec()
    }
    KeyAlt::RsaExponent(i) => {
      if p != Proto::V1P {
        return None;
      }
      // RSAPublicKey ::= SEQUENCE { modulus INTEGER, publicExponent INTEGER } - re-written with another exponent
      const EXPONENTS: [&[u8]; 8] = [&[0x03], &[0x01, 0x00, 0x03], &[0x01, 0x01, 0x00, 0x01], &[0x01, 0x00, 0x01, 0x00, 0x01], &[0x01, 0x00, 0x00, 0x00, 0x01], &[0x05], &[0x00, 0x01, 0x00, 0x01], &[0x01, 0x00, 0x01, 0x00]];
      let e = EXPONENTS[(*i as usize) % EXPONENTS.len()];
      // the modulus TLV starts at offset 4 (30 82 LL LL | 02 82 01 01 00 <256 bytes>)
      if pk.len() < 4 + 4 + 257 || pk[0] != 0x30 || pk[1] != 0x82 || pk[4] != 0x02 || pk[5] != 0x82 {
        return None;
      }
      let nlen = ((pk[6] as usize) << 8) | pk[7] as usize;
      let n_tlv = &pk[4..8 + nlen];
      let mut body = n_tlv.to_vec();
      body.push(0x02);
      body.push(e.len() as u8);
      body.extend_from_slice(e);
      let mut k = vec![0x30, 0x82, (body.len() >> 8) as u8, body.len() as u8];
      k.extend_from_slice(&body);
      k
    }
    KeyAlt::RsaPool(i) => {
      if p != Proto::V1P {
        return None;
      }
      let idx = (*i as usize) % keys::RSA_POOL.len();
      if idx == keys::rsa_index(seed) {
        return None;
      }
      keys::RSA_POOL[idx].1.to_vec()
    }
  };
  if out == pk {
    None
  } else {
    Some(out)
  }
}

impl Sub for KeyBinding {
  type Case = KeyCase;
  fn name(&self) -> String {
    format!("C04/{}/{}/{}", self.kind, self.proto.label(), self.layer.label())
  }
  fn check(&self, c: &KeyCase, cl: &mut Classes) -> Verdict {
    let s = &c.tok;
    let p = s.proto;
    let t = match s.token() {
      Ok(t) => t,
      Err(_) => return Verdict::Discard,
    };
    if let KeyAlt::HexSpelling(mask, upper) = &c.alt {
      return hex_spelling(s, *mask, *upper, cl);
    }
    if let KeyAlt::WrongLength(kind, n) = &c.alt {
      return wrong_length(s, &t, *kind, *n, cl);
    }
    if let KeyAlt::SecretHalvesMismatch = &c.alt {
      return secret_halves_mismatch(s, cl);
    }
    if let KeyAlt::Recovered(_) = &c.alt {
      return recovered_keys(s, &t, cl);
    }
    let seed = s.seed();
    let alt = match alt_public(p, &seed, &c.alt) {
      Some(a) => a,
      None => return Verdict::Discard,
    };
    cl.tag(format!("{}:{}", p.label(), s.layer.label()));
    cl.tag(format!("alt:{}", match &c.alt {
      KeyAlt::OtherSeed(_) => "other-seed",
      KeyAlt::FlipBit(_) => "single-bit-neighbour",
      KeyAlt::AllZero => "all-zero",
      KeyAlt::AllOne => "all-one",
      KeyAlt::Negate => "negated-point",
      KeyAlt::Degenerate => "degenerate",
      KeyAlt::RsaPool(_) => "rsa-pool",
      KeyAlt::RsaExponent(_) => "rsa-same-modulus-other-exponent",
      KeyAlt::TorsionSibling(_) => "ed25519-key-plus-torsion-point",
      KeyAlt::Permute(..) => "permuted-bytes",
      KeyAlt::FlipTwo(..) => "two-bit-flips",
      KeyAlt::HexSpelling(..) => "hex-spelled-keys",
      KeyAlt::WrongLength(..) => "material-of-another-length",
      KeyAlt::FirstByte(_) => "first-byte-replaced",
      KeyAlt::SecretHalvesMismatch => "secret-key-halves-mismatch",
      KeyAlt::Recovered(_) => "recovered-from-the-signature",
    }));
    let (f, a) = (s.footer.as_deref(), s.assertion());
    let describe = |o: &crate::rt::LayerOut| o.message();
    // (A) one parser object: control under K, then the same token under K' (two key objects)
    let mut km = keys::material(p, &seed);
    {
      let lk = km.lib().expect("valid key");
      let km2 = match KeyMaterial::new(p, None, &alt) {
        Ok(k) => k,
        Err(_) => return Verdict::Discard,
      };
      match km2.lib() {
        Err(_) => {
          cl.tag("rejected:key-constructor"); // failing to construct K' counts as rejection
          // the control still has to hold
          match layer_parse(p, s.layer, &lk, &t, f, a) {
            Ok(o) if o.message().as_deref() == Some(s.msg.as_str()) => {}
            _ => return Verdict::Discard,
          }
          cl.nontrivial(true);
          return Verdict::Pass;
        }
        Ok(lk2) => {
          if seed[1] % 8 == 0 && !p.is_local() && p != Proto::V1P {
            // the wrong-key object stays alive while the right key is wrapped again and again (a service that re-wraps its key per
            // request): whatever the wrappers register anywhere, K' stays K'
            for _ in 0..300 {
              let _ = km.lib();
            }
            cl.tag("300-wrappers-of-the-right-key-in-between");
          }
          let (r1, r2) = parse_twice(p, s.layer, (&t, &lk, f, a), (&t, &lk2, f, a));
          match r1 {
            Ok(o) if o.message().as_deref() == Some(s.msg.as_str()) => {}
            _ => return Verdict::Discard,
          }
          cl.nontrivial(true);
          match r2 {
            Err(e) => cl.tag(format!("rejected:{}", e.variant)),
            Ok(o) => vio!("C04:accepted-under-other-key:{}:{}", p.label(), s.layer.label();
              "token produced under key {} was accepted under {} ({:?}) by the parser that had just accepted it under the right key; returned {:?}", hex::encode(keys::key_bytes(p, &seed).1), hex::encode(&alt), c.alt, describe(&o)),
          }
        }
      }
    }
    // (B) one key object: after the control, its bytes are replaced in place by K' (same addresses)
    {
      let lk = km.lib().expect("valid key");
      if layer_parse(p, s.layer, &lk, &t, f, a).is_err() {
        return Verdict::Discard;
      }
    }
    if km.replace_public_in_place(&alt) {
      if let Ok(lk2) = km.lib() {
        if let Ok(o) = layer_parse(p, s.layer, &lk2, &t, f, a) {
          vio!("C04:accepted-under-key-replaced-in-place:{}:{}", p.label(), s.layer.label();
            "after a successful parse the key object was overwritten in place with {} ({:?}); the token produced under {} was still accepted, returned {:?}", hex::encode(&alt), c.alt, hex::encode(keys::key_bytes(p, &seed).1), describe(&o));
        }
        cl.tag("in-place-replacement-checked");
      }
    }
    Verdict::Pass
  }
}

/// ECDSA lets anyone compute, from a signature and a message, the public keys under which that signature is valid for
/// that message. v3.public signs the public key along with the message precisely so that such a key is of no use.
fn recovered_keys(s: &TokSpec, t: &str, cl: &mut Classes) -> Verdict {
  use ecdsa::RecoveryId;
  use p384::ecdsa::{Signature, VerifyingKey};
  let p = s.proto;
  if p != Proto::V3P {
    return Verdict::Discard;
  }
  let seed = s.seed();
  let pk = keys::key_bytes(p, &seed).1;
  let km = keys::material(p, &seed);
  let lk = km.lib().expect("valid key");
  let (f, a) = (s.footer.as_deref(), s.assertion());
  match layer_parse(p, s.layer, &lk, t, f, a) {
    Ok(o) if o.message().as_deref() == Some(s.msg.as_str()) => {}
    _ => return Verdict::Discard,
  }
  let (h, ps, _) = match split_token(t) {
    Some(x) => x,
    None => return Verdict::Discard,
  };
  let payload = match unb64(&ps) {
    Some(b) if b.len() >= 96 => b,
    _ => return Verdict::Discard,
  };
  let (m, sig) = payload.split_at(payload.len() - 96);
  let sig = match Signature::from_slice(sig) {
    Ok(s) => s,
    Err(_) => return Verdict::Discard,
  };
  let (fb, ab) = (f.unwrap_or("").as_bytes(), a.unwrap_or("").as_bytes());
  let signed: [Vec<u8>; 2] = [crate::specref::pae(&[&pk, h.as_bytes(), m, fb, ab]), crate::specref::pae(&[h.as_bytes(), m, fb, ab])];
  cl.tag(format!("{}:{}", p.label(), s.layer.label()));
  cl.tag("alt:recovered-from-the-signature");
  let mut tried = 0;
  for msg in &signed {
    for id in 0..4u8 {
      let q = match RecoveryId::from_byte(id).and_then(|r| VerifyingKey::recover_from_msg(msg, &sig, r).ok()) {
        Some(q) => q,
        None => continue,
      };
      let q_bytes = q.to_encoded_point(true).as_bytes().to_vec();
      if q_bytes == pk {
        continue;
      }
      tried += 1;
      let km2 = match KeyMaterial::new(p, None, &q_bytes) {
        Ok(k) => k,
        Err(_) => continue,
      };
      if let Ok(lk2) = km2.lib() {
        if let Ok(o) = layer_parse(p, s.layer, &lk2, t, f, a) {
          vio!("C04:accepted-under-other-key:{}:{}:recovered", p.label(), s.layer.label();
            "token produced under key {} was accepted under {} - a public key computed from the token's own signature; returned {:?}", hex::encode(&pk), hex::encode(&q_bytes), o.message());
        }
      }
    }
  }
  cl.nontrivial(tried > 0);
  Verdict::Pass
}

fn secret_halves_mismatch(s: &TokSpec, cl: &mut Classes) -> Verdict {
  let p = s.proto;
  if !matches!(p, Proto::V2P | Proto::V4P) {
    return Verdict::Discard;
  }
  let seed = s.seed();
  let mut other = seed;
  other[0] ^= 0xff; // the pair whose seed `unusable_signing_material` puts into the first half
  let bad = match keys::unusable_signing_material(p, &seed) {
    Some(k) => k,
    None => return Verdict::Discard,
  };
  cl.tag(format!("{}:{}", p.label(), s.layer.label()));
  cl.tag("alt:secret-key-halves-mismatch");
  cl.nontrivial(true);
  let (f, a) = (s.footer.as_deref(), s.assertion());
  let token = match bad.lib().and_then(|lk| crate::rt::layer_build(p, s.layer, &lk, &s.nonce, &s.msg, f, a)) {
    Ok(t) => t,
    Err(_) => {
      cl.tag("rejected:signing-refused");
      return Verdict::Pass;
    }
  };
  // a token came out: the key that "produced" it is the one whose public half the secret key carries
  let km_other = keys::material(p, &other);
  if let Ok(lk_other) = km_other.lib() {
    if let Ok(o) = layer_parse(p, s.layer, &lk_other, &token, f, a) {
      vio!("C04:accepted-under-other-key:{}:{}:secret-halves", p.label(), s.layer.label();
        "a token signed with secret-key bytes (seed of pair A, public half of pair B) verifies under A's public key {} although the secret key names B ({}); returned {:?}", hex::encode(keys::key_bytes(p, &other).1), hex::encode(keys::key_bytes(p, &seed).1), o.message());
    }
  }
  Verdict::Pass
}

/// Key material that differs from K in length (a longer secret that starts or ends with K, K cut short) handed to
/// `Key::<32>::from(&[u8])`: refusing to build a key from it (the pinned library panics) counts as rejection; a key
/// that is built must not open the token.
fn wrong_length(s: &TokSpec, t: &str, kind: u8, n: u8, cl: &mut Classes) -> Verdict {
  let p = s.proto;
  if !(p.is_local() || matches!(p, Proto::V2P | Proto::V4P)) {
    return Verdict::Discard;
  }
  let seed = s.seed();
  let kb = keys::key_bytes(p, &seed).1;
  let n = 1 + (n as usize % 32);
  let material: Vec<u8> = match kind % 3 {
    0 => kb.iter().copied().chain((0..n).map(|i| 0xa5u8.wrapping_add(i as u8))).collect(),
    1 => kb[..32 - n.min(31)].to_vec(),
    _ => (0..n).map(|i| 0x5au8.wrapping_add(i as u8)).chain(kb.iter().copied()).collect(),
  };
  cl.tag(format!("{}:{}", p.label(), s.layer.label()));
  cl.tag(format!("alt:material-of-another-length({})", ["K+suffix", "K cut short", "prefix+K"][kind as usize % 3]));
  let (f, a) = (s.footer.as_deref(), s.assertion());
  let km = keys::material(p, &seed);
  let lk = km.lib().expect("valid key");
  let km2 = match KeyMaterial::from_slice_any_length(p, &material) {
    Ok(k) => k,
    Err(_) => {
      cl.tag("rejected:key-constructor");
      match layer_parse(p, s.layer, &lk, t, f, a) {
        Ok(o) if o.message().as_deref() == Some(s.msg.as_str()) => {}
        _ => return Verdict::Discard,
      }
      cl.nontrivial(true);
      return Verdict::Pass;
    }
  };
  let lk2 = match km2.lib() {
    Ok(k) => k,
    Err(_) => return Verdict::Discard,
  };
  let (r1, r2) = parse_twice(p, s.layer, (t, &lk, f, a), (t, &lk2, f, a));
  match r1 {
    Ok(o) if o.message().as_deref() == Some(s.msg.as_str()) => {}
    _ => return Verdict::Discard,
  }
  cl.nontrivial(true);
  match r2 {
    Err(e) => cl.tag(format!("rejected:{}", e.variant)),
    Ok(o) => vio!("C04:accepted-under-material-of-another-length:{}:{}", p.label(), s.layer.label();
      "token produced under the 32-byte key {} was accepted under a key built from the {}-byte material {}; returned {:?}", hex::encode(&kb), material.len(), hex::encode(&material), o.message()),
  }
  Verdict::Pass
}

/// K and K' both come from `Key::<32>::try_from(&str)`; they differ as byte strings (per the `hex` crate, the
/// oracle's decoder), so the token built under K must be refused under K'.
fn hex_spelling(s: &TokSpec, mask: u64, upper: bool, cl: &mut Classes) -> Verdict {
  let p = s.proto;
  if !p.is_local() || mask == 0 {
    return Verdict::Discard;
  }
  let nibbles: Vec<u8> = s.seed().iter().flat_map(|b| [(b >> 4) % 6, (b & 15) % 6]).collect();
  let k_hex: String = nibbles.iter().map(|n| char::from_digit(*n as u32, 16).unwrap()).collect();
  let k2_hex: String = nibbles
    .iter()
    .enumerate()
    .map(|(i, n)| {
      let v = if mask >> (i % 64) & 1 == 1 { n + 10 } else { *n };
      let c = char::from_digit(v as u32, 16).unwrap();
      if upper { c.to_ascii_uppercase() } else { c }
    })
    .collect();
  let (kb, k2b) = (hex::decode(&k_hex).unwrap(), hex::decode(&k2_hex).unwrap());
  if kb == k2b {
    return Verdict::Discard;
  }
  let (km, km2) = match (KeyMaterial::local_from_hex(p, &k_hex), KeyMaterial::local_from_hex(p, &k2_hex)) {
    (Ok(a), Ok(b)) => (a, b),
    (Err(e), _) | (_, Err(e)) => vio!("C04:hex-key-rejected:{}", p.label(); "a well-formed 64-digit hexadecimal key was refused: {}", e.text),
  };
  let (lk, lk2) = (km.lib().unwrap(), km2.lib().unwrap());
  cl.tag(format!("{}:{}", p.label(), s.layer.label()));
  cl.tag(if upper { "alt:hex-spelled-keys(upper-case)" } else { "alt:hex-spelled-keys(lower-case)" });
  let (f, a) = (s.footer.as_deref(), s.assertion());
  let t = match crate::rt::layer_build(p, s.layer, &lk, &s.nonce, &s.msg, f, a) {
    Ok(t) => t,
    Err(_) => return Verdict::Discard,
  };
  let (r1, r2) = parse_twice(p, s.layer, (&t, &lk, f, a), (&t, &lk2, f, a));
  match r1 {
    Ok(o) if o.message().as_deref() == Some(s.msg.as_str()) => {}
    _ => return Verdict::Discard,
  }
  cl.nontrivial(true);
  match r2 {
    Err(e) => {
      cl.tag(format!("rejected:{}", e.variant));
      Verdict::Pass
    }
    Ok(o) => vio!("C04:accepted-under-other-key:{}:{}", p.label(), s.layer.label();
      "token produced under the key parsed from {:?} was accepted under the key parsed from {:?}; returned {:?}", k_hex, k2_hex, o.message()),
  }
}

fn alt_strategy(p: Proto) -> BoxedStrategy<KeyAlt> {
  let ed = matches!(p, Proto::V2P | Proto::V4P);
  let options: Vec<(u32, BoxedStrategy<KeyAlt>)> = vec![
    (6, gen::bytes32().prop_map(KeyAlt::OtherSeed).boxed()),
    (6, any::<u16>().prop_map(KeyAlt::FlipBit).boxed()),
    (1, Just(KeyAlt::AllZero).boxed()),
    (1, Just(KeyAlt::AllOne).boxed()),
    (if p.is_local() { 0 } else { 1 }, Just(KeyAlt::Negate).boxed()),
    (if p.is_local() { 0 } else { 1 }, Just(KeyAlt::Degenerate).boxed()),
    (if p == Proto::V1P { 4 } else { 0 }, any::<u8>().prop_map(KeyAlt::RsaPool).boxed()),
    (if p == Proto::V1P { 4 } else { 0 }, any::<u8>().prop_map(KeyAlt::RsaExponent).boxed()),
    (if matches!(p, Proto::V2P | Proto::V4P) { 4 } else { 0 }, (0u8..7).prop_map(KeyAlt::TorsionSibling).boxed()),
    (3, (0u8..5, any::<u8>()).prop_map(|(k, w)| KeyAlt::Permute(k, w)).boxed()),
    (3, (any::<u16>(), 0u8..5).prop_map(|(b, d)| KeyAlt::FlipTwo(b, d)).boxed()),
    (if p.is_local() || ed { 2 } else { 0 }, (0u8..3, any::<u8>()).prop_map(|(k, n)| KeyAlt::WrongLength(k, n)).boxed()),
    (if p == Proto::V3P { 3 } else if ed { 1 } else { 0 }, prop_oneof![3 => 0u8..8, 1 => any::<u8>()].prop_map(KeyAlt::FirstByte).boxed()),
    (if ed { 1 } else { 0 }, Just(KeyAlt::SecretHalvesMismatch).boxed()),
    (if p == Proto::V3P { 3 } else { 0 }, any::<u8>().prop_map(KeyAlt::Recovered).boxed()),
    (if p.is_local() { 3 } else { 0 }, (prop_oneof![any::<u64>(), Just(u64::MAX), (0u32..64).prop_map(|i| 1u64 << i)], any::<bool>()).prop_map(|(m, u)| KeyAlt::HexSpelling(m, u)).boxed()),
  ];
  proptest::strategy::Union::new_weighted(options.into_iter().filter(|(w, _)| *w > 0).collect()).boxed()
}

fn all_subs() -> Vec<KeyBinding> {
  let mut v = vec![];
  for proto in Proto::ALL {
    for layer in Layer::ALL {
      for kind in ["neighbours", "random"] {
        v.push(KeyBinding { proto, layer, kind });
      }
    }
  }
  v
}

pub fn subs() -> Vec<Box<dyn DynSub>> {
  all_subs().into_iter().map(|s| Box::new(s) as Box<dyn DynSub>).collect()
}

pub fn run(ctx: &Ctx) -> EvidenceMeta {
  let subs = all_subs();
  let mut jobs: Vec<Job> = vec![];
  for s in &subs {
    if s.kind == "neighbours" {
      let ntok = ctx.n(1, 6) as u8;
      jobs.push(Box::new(move || {
        let mut cases = vec![];
        for variant in 0..ntok {
          let spec = fixed_spec(s.proto, s.layer, variant + 1);
          let bits: u16 = match s.proto {
            Proto::V3P => 384,
            Proto::V1P => 2048,
            _ => 256,
          };
          // exhaustive single-bit neighbours (RSA modulus and P-384 thinned in the quick tier)
          let step = match (s.proto, ctx.quick()) {
            (Proto::V1P, true) => 16,
            (Proto::V3P, true) => 4,
            (Proto::V1P, false) => 2,
            _ => 1,
          };
          for i in (0..bits).step_by(step) {
            cases.push(KeyCase { tok: spec.clone(), alt: KeyAlt::FlipBit(i) });
          }
          for alt in [KeyAlt::AllZero, KeyAlt::AllOne, KeyAlt::Negate, KeyAlt::Degenerate] {
            cases.push(KeyCase { tok: spec.clone(), alt });
          }
          for i in 0..7u8 {
            cases.push(KeyCase { tok: spec.clone(), alt: KeyAlt::TorsionSibling(i) });
          }
          // the same neighbourhood again around tokens that seal one or two bytes, nothing, or "{}" (what a wrong key turns
          // so short a message into is text - or even JSON - by chance: only authentication keeps it out)
          if spec.layer != Layer::Prelude && matches!(spec.proto, Proto::V4L | Proto::V2L | Proto::V3L | Proto::V1L) {
            for (mi, m) in ["7", "ok", "", "{}", "a", "1e"].into_iter().enumerate() {
              let mut tiny = spec.clone();
              tiny.msg = m.to_string();
              tiny.footer = None;
              tiny.assertion = None;
              tiny.core_payload = if spec.layer == Layer::Core { None } else { Some(if m == "{}" || m == "7" { m.to_string() } else { format!("{{\"data\":\"{m}\"}}") }) };
              if spec.layer != Layer::Core && !(m == "{}" || mi == 1) {
                continue;
              }
              for i in (0..bits).step_by(if ctx.quick() { 3 } else { 1 }) {
                cases.push(KeyCase { tok: tiny.clone(), alt: KeyAlt::FlipBit(i) });
              }
              for sd in 0..if ctx.quick() { 120u16 } else { 2000 } {
                cases.push(KeyCase { tok: tiny.clone(), alt: KeyAlt::OtherSeed((0..32).map(|j| (j as u8).wrapping_mul(41).wrapping_add(sd as u8).wrapping_add(((sd >> 8) as u8).wrapping_mul(97))).collect()) });
              }
            }
          }
          if matches!(spec.proto, Proto::V3P | Proto::V2P | Proto::V4P) {
            // every value of the first key byte (for P-384 that is every SEC1 tag)
            for b in 0..=255u8 {
              cases.push(KeyCase { tok: spec.clone(), alt: KeyAlt::FirstByte(b) });
            }
            cases.push(KeyCase { tok: spec.clone(), alt: KeyAlt::Recovered(0) });
            // the SEC1 tags again under other key pairs (either parity of y)
            if spec.proto == Proto::V3P {
              for k in 0..6u8 {
                let mut other = spec.clone();
                other.key_seed = (0..32).map(|i| (i as u8).wrapping_mul(31).wrapping_add(k * 17 + 5)).collect();
                for b in 0..=7u8 {
                  cases.push(KeyCase { tok: other.clone(), alt: KeyAlt::FirstByte(b) });
                }
              }
            }
          }
          for kind in 0..5u8 {
            for which in 0..12u8 {
              cases.push(KeyCase { tok: spec.clone(), alt: KeyAlt::Permute(kind, which) });
            }
          }
          for d in 0..5u8 {
            for bit in (0..256u16).step_by(if ctx.quick() { 5 } else { 1 }) {
              cases.push(KeyCase { tok: spec.clone(), alt: KeyAlt::FlipTwo(bit, d) });
            }
          }
          for i in 0..keys::RSA_POOL.len() as u8 {
            cases.push(KeyCase { tok: spec.clone(), alt: KeyAlt::RsaPool(i) });
            cases.push(KeyCase { tok: spec.clone(), alt: KeyAlt::RsaExponent(i) });
          }
        }
        ctx.enumerate(s, cases.into_iter(), false);
      }));
    } else {
      let n = (ctx.n(6000, 60_000) / s.proto.cost().min(20)).max(150);
      jobs.push(Box::new(move || {
        ctx.prop(s, (tok_spec(s.proto, s.layer), alt_strategy(s.proto)).prop_map(|(tok, alt)| KeyCase { tok, alt }), n)
      }));
    }
  }
  run_jobs(jobs);
  EvidenceMeta {
    rule: "authentic token under key K (any protocol, layer, message, footer, assertion); K' != K from: a key (pair) derived from another generated seed, every single-bit neighbour of the parse-side key bytes \
           (symmetric key, Ed25519 public key, P-384 x coordinate, RSA modulus inside the DER), all-zero, all-one, the negated point (P-384 02<->03, Ed25519 sign bit), degenerate encodings, every other RSA pool key. \
           Oracle: parse under K' is an error (a key constructor refusing K' counts as rejection); the control parse under K returns the message first. \
           Non-trivial = every evaluated case (K' != K as bytes and the control succeeded); distinct by (token spec, K'). Alternative encodings of the same group element are never generated (they would need y < 19)."
      .into(),
    assumptions: vec!["rejection of unrelated keys rests on the MAC/signature primitives; the check detects keys that are ignored, truncated or not bound".into()],
  }
}
