//! C18 – custom claims cannot shadow registered claims; time-claim constructors validate their input.
use crate::engine::*;
use crate::gen;
use crate::keys;
use crate::proto::*;
use crate::rt::{layer_parse, LayerOut};
use crate::tgen::{self, Rendering};
use proptest::prelude::*;
use rusty_paseto::prelude::*;
use serde::{Deserialize, Serialize};
use serde_json::{json, Value};

const RESERVED: [&str; 7] = ["iss", "sub", "aud", "exp", "nbf", "iat", "jti"];
/// letters of the seven reserved keys + 'E', space, NUL
const ALPHABET: [char; 16] = ['i', 's', 'u', 'b', 'a', 'd', 'e', 'x', 'p', 'n', 'f', 't', 'j', 'E', ' ', '\0'];

#[derive(Clone, Debug, Serialize, Deserialize)]
pub struct KeyCase {
  pub key: String,
  /// also push the claim through a built token (sampled)
  pub through_token: bool,
}

#[derive(serde::Serialize, Clone)]
struct Point {
  x: i32,
  y: String,
}

pub struct ReservedKeys {
  pub kind: &'static str,
}

fn judge_ctor<T>(form: &str, key: &str, r: Result<CustomClaim<T>, PasetoClaimError>) -> Result<(), Verdict>
where
  CustomClaim<T>: PasetoClaim,
{
  let reserved = RESERVED.contains(&key);
  match r {
    Err(PasetoClaimError::Reserved(k)) if reserved && k == key => Ok(()),
    Err(e) if reserved => Err(Verdict::violation(format!("C18:reserved-key-wrong-error:{form}"), format!("CustomClaim::try_from({form}) for reserved key {key:?} failed with {e:?} instead of Reserved({key:?})"))),
    Err(e) => Err(Verdict::violation(format!("C18:non-reserved-key-refused:{form}"), format!("CustomClaim::try_from({form}) refused the non-reserved key {key:?}: {e:?}"))),
    Ok(_) if reserved => Err(Verdict::violation(format!("C18:reserved-key-accepted:{form}:{key}"), format!("CustomClaim::try_from({form}) accepted the reserved key {key:?}"))),
    Ok(c) => {
      if c.get_key() != key {
        return Err(Verdict::violation(format!("C18:key-altered:{form}"), format!("CustomClaim::try_from({form}) turned key {key:?} into {:?}", c.get_key())));
      }
      Ok(())
    }
  }
}

impl Sub for ReservedKeys {
  type Case = KeyCase;
  fn name(&self) -> String {
    format!("C18/custom-claim-keys/{}", self.kind)
  }
  fn check(&self, c: &KeyCase, cl: &mut Classes) -> Verdict {
    let k = c.key.as_str();
    let near = RESERVED.iter().any(|r| edit_distance_le1(r, k));
    cl.tag(if RESERVED.contains(&k) { "reserved" } else if near { "near-miss" } else { "other" });
    cl.nontrivial(near);
    macro_rules! t {
      ($form:expr, $e:expr) => {
        if let Err(v) = judge_ctor($form, k, $e) {
          return v;
        }
      };
    }
    // the three constructor forms x value types
    t!("&str", CustomClaim::<&str>::try_from(k));
    t!("(&str,&str)", CustomClaim::try_from((k, "value")));
    t!("(&str,i64)", CustomClaim::try_from((k, -7i64)));
    t!("(&str,bool)", CustomClaim::try_from((k, true)));
    t!("(&str,Vec)", CustomClaim::try_from((k, vec![1, 2, 3])));
    t!("(&str,struct)", CustomClaim::try_from((k, Point { x: 1, y: "p".into() })));
    t!("(&str,Value)", CustomClaim::try_from((k, json!({"a": [1, null]}))));
    t!("(String,&str)", CustomClaim::try_from((crate::gen::owned(k, 1), "value")));
    t!("(String,i64)", CustomClaim::try_from((crate::gen::owned(k, 2), -7i64)));
    t!("(String,bool)", CustomClaim::try_from((crate::gen::owned(k, 3), false)));
    t!("(String,Vec)", CustomClaim::try_from((crate::gen::owned(k, 4), vec!["a".to_string()])));
    t!("(String,struct)", CustomClaim::try_from((crate::gen::owned(k, 5), Point { x: 2, y: "q".into() })));
    t!("(String,Option)", CustomClaim::try_from((crate::gen::owned(k, 6), Some(3u8))));
    // value types at the edge of (or beyond) what JSON can carry: constructing the claim succeeds all the same
    t!("(&str,u128)", CustomClaim::try_from((k, u128::MAX)));
    t!("(String,i128)", CustomClaim::try_from((crate::gen::owned(k, 7), i128::MIN)));
    t!("(&str,f64::NAN)", CustomClaim::try_from((k, f64::NAN)));
    t!("(&str,None)", CustomClaim::try_from((k, None::<String>)));
    t!("(String,unit)", CustomClaim::try_from((crate::gen::owned(k, 8), ())));
    t!("(&str,tuple-keyed map)", CustomClaim::try_from((k, std::collections::BTreeMap::from([((1u8, 2u8), 3u8)]))));
    t!("(String,u64::MAX)", CustomClaim::try_from((crate::gen::owned(k, 9), u64::MAX)));
    if c.through_token && !RESERVED.contains(&k) && !k.is_empty() {
      cl.tag("through-token");
      let km = keys::material(Proto::V4L, &[21u8; 32]);
      let lk = km.lib().unwrap();
      let spec = ClaimSpec::Custom(k.to_string(), json!({"v": [1, "two"]}));
      let mut b = new_builder(Proto::V4L, Layer::Generic);
      if let Err(e) = b.set(&spec) {
        vio!("C18:non-reserved-key-refused:builder"; "builder refused {:?}: {}", k, e.text);
      }
      let token = match b.build(&lk) {
        Ok(t) => t,
        Err(e) => vio!("C18:build-failed"; "build with custom key {:?} failed: {}", k, e.text),
      };
      match layer_parse(Proto::V4L, Layer::Generic, &lk, &token, None, None) {
        Ok(LayerOut::Json(v)) if v == json!({ k: {"v": [1, "two"]} }) => {}
        other => vio!("C18:custom-claim-not-under-its-key"; "claim set under {:?} came back as {:?}", k, other.map(|o| match o { LayerOut::Json(v) => v.to_string(), LayerOut::Text(t) => t }).map_err(|e| e.text)),
      }
    }
    Verdict::Pass
  }
}

fn edit_distance_le1(a: &str, b: &str) -> bool {
  let (a, b): (Vec<char>, Vec<char>) = (a.chars().collect(), b.chars().collect());
  if a == b {
    return true;
  }
  let (la, lb) = (a.len(), b.len());
  if la.abs_diff(lb) > 1 {
    return false;
  }
  let mut i = 0;
  while i < la.min(lb) && a[i] == b[i] {
    i += 1;
  }
  if la == lb {
    a[i + 1..] == b[i + 1..]
  } else if la > lb {
    a[i + 1..] == b[i..]
  } else {
    a[i..] == b[i + 1..]
  }
}

fn sweep_keys(max_len: usize) -> Vec<KeyCase> {
  let mut out = vec![KeyCase { key: String::new(), through_token: false }];
  let mut frontier = vec![String::new()];
  let mut n = 0usize;
  for _ in 0..max_len {
    let mut next = vec![];
    for s in &frontier {
      for ch in ALPHABET {
        let mut t = s.clone();
        t.push(ch);
        n += 1;
        out.push(KeyCase { key: t.clone(), through_token: n % 97 == 0 });
        next.push(t);
      }
    }
    frontier = next;
  }
  out
}

/// claim names in common use elsewhere (JWT / OIDC / PASETO footers): none of them is reserved here
const WELL_KNOWN: [&str; 40] = [
  "kid", "wpk", "typ", "alg", "cty", "azp", "nonce", "scope", "scp", "roles", "groups", "email", "name", "auth_time", "acr", "amr", "sid", "cnf", "jwk", "x5t", "zip", "enc",
  "iss2", "subject", "audience", "expires", "exp_", "not_before", "issued_at", "id", "uid", "tid", "oid", "ver", "client_id", "tenant", "data", "claims", "footer", "key",
];

/// every lower-case key of 1-3 letters (18 278) + the well-known names
fn short_key_sweep() -> Vec<KeyCase> {
  let mut out = vec![];
  let letters: Vec<char> = ('a'..='z').collect();
  for a in &letters {
    out.push(KeyCase { key: a.to_string(), through_token: false });
    for b in &letters {
      out.push(KeyCase { key: format!("{a}{b}"), through_token: false });
      for c in &letters {
        out.push(KeyCase { key: format!("{a}{b}{c}"), through_token: false });
      }
    }
  }
  for k in WELL_KNOWN {
    out.push(KeyCase { key: k.to_string(), through_token: true });
  }
  out
}

fn decorated_key() -> BoxedStrategy<KeyCase> {
  let base = any::<u16>().prop_map(|i| RESERVED[pick(i, 7)].to_string());
  prop_oneof![
    3 => (base.clone(), 0u8..12, any::<char>()).prop_map(|(k, how, ch)| match how {
      0 => k.to_uppercase(),
      1 => { let mut c: Vec<char> = k.chars().collect(); c[0] = c[0].to_ascii_uppercase(); c.into_iter().collect() }
      2 => format!(" {k}"),
      3 => format!("{k} "),
      4 => format!("{k}\0"),
      5 => format!("\0{k}"),
      6 => format!("{k}\u{0301}"),
      7 => format!("{k}\n"),
      8 => format!("\u{feff}{k}"),
      9 => format!("{k}{ch}"),
      10 => format!("{ch}{k}"),
      _ => k.chars().rev().collect(),
    }),
    1 => base.clone(),
    2 => gen::unicode(8),
    1 => gen::json_key(),
    // very long keys that start or end with a reserved key (not reserved themselves)
    1 => (base, any::<u16>(), any::<bool>()).prop_map(|(k, i, front)| {
      let n = [255usize, 256, 65535, 65536, 70_000][pick(i, 5)];
      if front { format!("{k}{}", "x".repeat(n)) } else { format!("{}{k}", "x".repeat(n)) }
    }),
  ]
  .prop_map(|key| KeyCase { key, through_token: true })
  .boxed()
}

// ---------------------------------------------------------------- time-claim constructors

#[derive(Clone, Debug, Serialize, Deserialize)]
pub struct TimeCtorCase {
  pub text: String,
  /// true: generated RFC 3339 (must be accepted and kept verbatim); false: must-reject domain
  pub valid: bool,
  pub through_token: bool,
}

pub struct TimeCtors;

impl Sub for TimeCtors {
  type Case = TimeCtorCase;
  fn name(&self) -> String {
    "C18/time-claim-constructors".into()
  }
  fn check(&self, c: &TimeCtorCase, cl: &mut Classes) -> Verdict {
    let s = c.text.as_str();
    cl.tag(if c.valid { "rfc3339" } else { "not-a-date" });
    if c.valid {
      cl.tag(if s.ends_with('Z') { "zone:Z" } else { "zone:offset" });
      cl.tag(if s.contains('.') { "fraction:yes" } else { "fraction:no" });
    }
    cl.nontrivial(!c.valid || !s.ends_with('Z') || s.contains('.'));
    macro_rules! ctor {
      ($name:literal, $key:literal, $e:expr) => {
        match $e {
          Ok(claim) => {
            if !c.valid {
              vio!("C18:time-claim-accepted-non-date:{}", $name; "{}::try_from({:?}) accepted a string that does not start with an ISO 8601 date", $name, s);
            }
            let (k, v): &(String, String) = claim.as_ref();
            if k != $key || v != s {
              vio!("C18:time-claim-not-verbatim:{}", $name; "{}::try_from({:?}) stores ({:?}, {:?})", $name, s, k, v);
            }
          }
          Err(e) => {
            if c.valid {
              vio!("C18:time-claim-rejected-rfc3339:{}", $name; "{}::try_from({:?}) rejected an RFC 3339 date-time: {:?}", $name, s, e);
            }
            if !matches!(e, PasetoClaimError::RFC3339Date(_)) {
              vio!("C18:time-claim-wrong-error:{}", $name; "{}::try_from({:?}) failed with {:?}", $name, s, e);
            }
          }
        }
      };
    }
    ctor!("ExpirationClaim(&str)", "exp", ExpirationClaim::try_from(s));
    ctor!("ExpirationClaim(String)", "exp", ExpirationClaim::try_from(crate::gen::owned(s, s.len() as u8)));
    ctor!("NotBeforeClaim(&str)", "nbf", NotBeforeClaim::try_from(s));
    ctor!("NotBeforeClaim(String)", "nbf", NotBeforeClaim::try_from(crate::gen::owned(s, 1 + s.len() as u8)));
    ctor!("IssuedAtClaim(&str)", "iat", IssuedAtClaim::try_from(s));
    ctor!("IssuedAtClaim(String)", "iat", IssuedAtClaim::try_from(crate::gen::owned(s, 2 + s.len() as u8)));
    if c.valid && c.through_token {
      cl.tag("through-token");
      let km = keys::material(Proto::V4L, &[22u8; 32]);
      let lk = km.lib().unwrap();
      let specs = [ClaimSpec::Exp(s.to_string()), ClaimSpec::NbfOwned(s.to_string()), ClaimSpec::Iat(s.to_string())];
      let mut b = new_builder(Proto::V4L, Layer::Generic);
      for sp in &specs {
        if let Err(e) = b.set(sp) {
          vio!("C18:time-claim-rejected-rfc3339:builder"; "{}", e.text);
        }
      }
      let token = match b.build(&lk) {
        Ok(t) => t,
        Err(e) => vio!("C18:build-failed"; "{}", e.text),
      };
      match layer_parse(Proto::V4L, Layer::Generic, &lk, &token, None, None) {
        Ok(LayerOut::Json(v)) if v == json!({"exp": s, "nbf": s, "iat": s}) => {}
        other => vio!("C18:time-claim-not-verbatim:token"; "time claims {:?} came back as {:?}", s, other.map(|o| match o { LayerOut::Json(v) => v.to_string(), LayerOut::Text(t) => t }).map_err(|e| e.text)),
      }
    }
    Verdict::Pass
  }
}

/// RFC 3339 date-time with upper-case 'T' and 'Z' (or numeric offset), years 0000-9999, 0-30 fraction digits, optional leap second
fn rfc3339_text() -> BoxedStrategy<String> {
  (0i64..=9999, 1u32..=12, prop_oneof![6 => 1u32..=28, 3 => 29u32..=31], 0u32..24, 0u32..60, prop_oneof![9 => 0u32..60, 1 => Just(60u32)], proptest::collection::vec(0u8..10, 0..=30), prop_oneof![4 => Just(None), 12 => (-1439i32..=1439).prop_map(Some), 1 => Just(Some(i32::MIN)), 1 => Just(Some(0))])
    .prop_map(|(y, mo, d, h, mi, se, frac, off)| {
      // the last days of a month exist or not depending on month and year: clamp to the calendar
      let d = d.min(days_in_month(y, mo));
      // RFC 3339 allows :60 at any local time (a leap second is 23:59:60Z, i.e. another wall-clock time elsewhere)
      let mut s = format!("{:04}-{:02}-{:02}T{:02}:{:02}:{:02}", y, mo, d, h, mi, se);
      if !frac.is_empty() {
        s.push('.');
        for dgt in frac {
          s.push((b'0' + dgt) as char);
        }
      }
      match off {
        None => s.push('Z'),
        // RFC 3339 section 4.3: "-00:00" = UTC, local offset unknown
        Some(i32::MIN) => s.push_str("-00:00"),
        Some(o) => {
          s.push(if o < 0 { '-' } else { '+' });
          s.push_str(&format!("{:02}:{:02}", o.abs() / 60, o.abs() % 60));
        }
      }
      s
    })
    .boxed()
}

fn is_leap(y: i64) -> bool {
  (y % 4 == 0 && y % 100 != 0) || y % 400 == 0
}
fn days_in_month(y: i64, m: u32) -> u32 {
  match m {
    4 | 6 | 9 | 11 => 30,
    2 => if is_leap(y) { 29 } else { 28 },
    _ => 31,
  }
}

/// every 29 February of the years 0000-9999 (2425 of them, the centuries divisible by 400 included) and the last day of
/// every month of a leap, a common, a century and a 400-year year - in `Z` and offset spellings
fn calendar_edge_cases() -> Vec<TimeCtorCase> {
  let mut v = vec![];
  for y in 0i64..=9999 {
    if is_leap(y) {
      let zone = ["Z", "+00:00", "-03:00", "+14:00"][(y / 4 % 4) as usize];
      v.push(TimeCtorCase { text: format!("{:04}-02-29T{:02}:15:00{}", y, y % 24, zone), valid: true, through_token: y % 400 == 0 });
    }
  }
  for y in [1600i64, 1900, 2000, 2023, 2024, 2100, 2400, 9999, 0, 4] {
    for m in 1..=12u32 {
      v.push(TimeCtorCase { text: format!("{:04}-{:02}-{:02}T23:59:59Z", y, m, days_in_month(y, m)), valid: true, through_token: false });
      v.push(TimeCtorCase { text: format!("{:04}-{:02}-01T00:00:00.000+01:00", y, m), valid: true, through_token: false });
    }
  }
  v
}

/// a well-formed RFC 3339 date-time whose DATE part is spoilt so that it is no ISO 8601 date any more: a sign, a blank
/// or a letter inside the year, month or day field (field widths kept)
fn spoilt_date() -> BoxedStrategy<String> {
  (rfc3339_text(), 0u8..12).prop_map(|(t, kind)| {
    let (y, rest) = t.split_at(4);
    let (mo, d, tail) = (&rest[1..3], &rest[4..6], &rest[6..]);
    match kind {
      0 => format!("+{}-{mo}-{d}{tail}", &y[1..]),
      1 => format!("-{}-{mo}-{d}{tail}", &y[1..]),
      2 => format!("{y}-+{}-{d}{tail}", &mo[1..]),
      3 => format!("{y}--{}-{d}{tail}", &mo[1..]),
      4 => format!("{y}-{mo}-+{}{tail}", &d[1..]),
      5 => format!("{y}-{mo}--{}{tail}", &d[1..]),
      6 => format!("{} {}-{mo}-{d}{tail}", &y[..2], &y[3..]),
      7 => format!("{y}- {}-{d}{tail}", &mo[1..]),
      8 => format!("{y}-{mo}- {}{tail}", &d[1..]),
      9 => format!("{y}-{}x-{d}{tail}", &mo[..1]),
      10 => format!("{}O{}-{mo}-{d}{tail}", &y[..1], &y[2..]),
      _ => format!("{y}-{mo}-{}l{tail}", &d[..1]),
    }
  }).boxed()
}

/// strings whose first four characters are not all ASCII digits and which do not begin with a sign
fn not_a_date() -> BoxedStrategy<String> {
  prop_oneof![
    3 => gen::unicode(12),
    3 => gen::jsonish(16),
    1 => Just(String::new()),
    1 => Just("T00:00:00Z".to_string()),
    1 => Just("202".to_string()),
    1 => Just("20a0-01-01T00:00:00Z".to_string()),
    1 => Just(" 2020-01-01T00:00:00Z".to_string()),
    1 => Just("tomorrow".to_string()),
    1 => Just("１９９９-01-01T00:00:00Z".to_string()),
    // the rest of ISO 8601 and what other libraries take for a time: durations, intervals, recurrences, bare times, week and
    // ordinal dates behind a letter, relative words, epoch numbers spelt out - none of them is a date-time
    4 => (any::<u16>(), 0u32..400, 0u32..60).prop_map(|(i, a, b)| {
      let forms: [String; 22] = [
        format!("P{a}D"), format!("PT{a}M"), format!("P{a}W"), format!("P1Y2M{a}DT4H5M{b}S"), format!("PT{a}.{b}S"), format!("P{a}D and a bit"), "P".to_string(), "PT".to_string(),
        format!("P0001-02-03T04:05:{:02}", b), format!("R5/2020-01-01T00:00:00Z/P{a}D"), format!("P{a}D/2020-01-01T00:00:00Z"), format!("T{:02}:{:02}:00Z", a % 24, b), format!("T{:02}{:02}", a % 24, b),
        format!("W{:02}-1", 1 + a % 52), format!("now+{a}s"), format!("in {a} minutes"), format!("{a}h"), format!("{a}d"), "never".to_string(), "max".to_string(), format!("@{a}"), format!("epoch:{a}"),
      ];
      forms[pick(i, forms.len())].clone()
    }),
  ]
  .prop_filter("outside the ISO 8601 date prefix domain", |s| {
    let c: Vec<char> = s.chars().collect();
    !(c.len() >= 4 && c[..4].iter().all(|x| x.is_ascii_digit())) && !matches!(c.first(), Some('+') | Some('-'))
  })
  .boxed()
}

/// keys that become a reserved key when every character is cut down to its low byte (or low 16 bits): one character of a
/// reserved key replaced by each code point congruent to it modulo 256, and all three replaced at once
fn byte_truncation_confusables() -> Vec<KeyCase> {
  let mut v = vec![];
  // what a normalising or case-folding comparison would take for a reserved key: ordinary keys, all of them
  for r in ["iss", "sub", "aud", "exp", "nbf", "iat", "jti"] {
    for how in 0..8u8 {
      if let Some(k) = crate::gen::confusable(r, how) {
        v.push(KeyCase { key: k, through_token: false });
      }
    }
    let chars: Vec<char> = r.chars().collect();
    let wide = |c: char| char::from_u32(c as u32 - 0x20 + 0xff00).unwrap_or(c);
    v.push(KeyCase { key: chars.iter().map(|c| wide(*c)).collect(), through_token: false });
    v.push(KeyCase { key: chars.iter().map(|c| wide(c.to_ascii_uppercase())).collect(), through_token: false });
    for i in 0..3 {
      let mut one = chars.clone();
      one[i] = wide(one[i]);
      v.push(KeyCase { key: one.iter().collect(), through_token: i == 0 });
    }
    for z in ['\u{200b}', '\u{200c}', '\u{200d}', '\u{2060}', '\u{feff}', '\u{ad}', '\u{fe0f}', '\u{34f}', '\u{61c}', '\u{180e}'] {
      for i in 0..=3 {
        let mut k: Vec<char> = chars.clone();
        k.insert(i, z);
        v.push(KeyCase { key: k.iter().collect(), through_token: false });
      }
    }
  }
  // keys whose TEXT is a JSON / Rust / URL escape spelling of a reserved key (backslash-u, percent, HTML entity ...): as key
  // text they are ordinary keys
  for r in ["iss", "sub", "aud", "exp", "nbf", "iat", "jti"] {
    let chars: Vec<char> = r.chars().collect();
    for pos in 0..=3usize {
      for style in 0..6u8 {
        let key: String = chars
          .iter()
          .enumerate()
          .map(|(i, c)| {
            if pos == 3 || i == pos {
              match style {
                0 => format!("\\u{:04x}", *c as u32),
                1 => format!("\\u{:04X}", *c as u32),
                2 => format!("%{:02x}", *c as u32),
                3 => format!("&#{};", *c as u32),
                4 => format!("\\x{:02x}", *c as u32),
                _ => format!("\\u{{{:x}}}", *c as u32),
              }
            } else {
              c.to_string()
            }
          })
          .collect();
        v.push(KeyCase { key, through_token: style == 0 && pos == 0 });
      }
    }
    for deco in ["\"{}\"", "{}\\", "\\{}", "/{}", "{}/", "{}\u{0}"] {
      v.push(KeyCase { key: deco.replace("{}", r), through_token: false });
    }
  }
  for r in ["iss", "sub", "aud", "exp", "nbf", "iat", "jti"] {
    let chars: Vec<char> = r.chars().collect();
    for pos in 0..3 {
      let mut cp = chars[pos] as u32 + 0x100;
      while cp <= 0x10ffff {
        if let Some(ch) = char::from_u32(cp) {
          let mut k = chars.clone();
          k[pos] = ch;
          v.push(KeyCase { key: k.into_iter().collect(), through_token: cp % 0x40000 == chars[pos] as u32 + 0x100 });
        }
        cp += 0x100;
      }
    }
    for hi in [0x100u32, 0x7300, 0x10000, 0xff00, 0x20000] {
      let k: String = chars.iter().filter_map(|c| char::from_u32(*c as u32 + hi)).collect();
      if k.chars().count() == 3 {
        v.push(KeyCase { key: k, through_token: false });
      }
    }
  }
  v
}

// ---------------------------------------------------------------- long inputs in a helper process

/// Very long keys and time strings (64 KiB .. 4 MiB): handled in a helper process on a 2 MiB-stack thread, once by the
/// optimised and once by the unoptimised build, each case announced before it runs - a constructor that dies on them
/// (stack overflow) is caught there.
#[derive(Clone, Debug, serde::Serialize, serde::Deserialize)]
pub struct LongCase {
  pub index: u32,
}
pub struct LongInputs;

/// (text, is a time string that must be accepted, description)
fn long_case(i: usize) -> Option<(String, Option<bool>, String)> {
  let sizes = [20_000usize, 65_536, 1 << 20, 4 << 20];
  let n = sizes[i % 4];
  Some(match i / 4 {
    0 => ("a".repeat(n), Some(false), format!("{n} letters into the time-claim constructors")),
    1 => (" ".repeat(n), Some(false), format!("{n} blanks into the time-claim constructors")),
    2 => (format!("{}Tx", "9".repeat(n)), Some(false), format!("{n} digits then Tx into the time-claim constructors")),
    3 => (format!("2019-01-01T00:00:00.{}Z", "1".repeat(n)), Some(true), format!("a timestamp with {n} fraction digits")),
    4 => (format!("{}2019-01-01T00:00:00Z", "-".repeat(n)), Some(false), format!("{n} minus signs before a timestamp")),
    5 => ("k".repeat(n), None, format!("a custom-claim key of {n} letters")),
    6 => (format!("{}exp", " ".repeat(n)), None, format!("a custom-claim key of {n} blanks followed by exp")),
    _ => return None,
  })
}

/// Body of `pv c18-long all|<index>`
pub fn long_child_main(args: &[String]) -> i32 {
  use std::io::Write;
  let only: Option<usize> = args.first().and_then(|a| a.parse().ok());
  let worker = std::thread::Builder::new().stack_size(2 * 1024 * 1024).spawn(move || {
    let mut i = only.unwrap_or(0);
    while let Some((text, time_expect, desc)) = long_case(i) {
      println!("CASE {i} {desc}");
      let _ = std::io::stdout().flush();
      let r = crate::engine::catch(|| match time_expect {
        Some(valid) => {
          let a = ExpirationClaim::try_from(text.as_str()).is_ok();
          let b = NotBeforeClaim::try_from(text.clone()).is_ok();
          let c = IssuedAtClaim::try_from(text.as_str()).is_ok();
          if (a, b, c) == (valid, valid, valid) { "returned".to_string() } else { format!("PANIC - wrong-verdict accepted=({a},{b},{c})") }
        }
        None => {
          let a = CustomClaim::<&str>::try_from(text.as_str()).is_ok();
          let b = CustomClaim::try_from((text.clone(), 1)).is_ok();
          if a && b { "returned".to_string() } else { "PANIC - wrong-verdict long key refused".to_string() }
        }
      });
      match r {
        Ok(line) => println!("RESULT {i} {line}"),
        Err((loc, msg)) => println!("RESULT {i} PANIC {loc} {msg}"),
      }
      let _ = std::io::stdout().flush();
      if only.is_some() {
        break;
      }
      i += 1;
    }
    println!("DONE");
  });
  match worker.map(|w| w.join()) {
    Ok(Ok(())) => 0,
    _ => 3,
  }
}

impl Sub for LongInputs {
  type Case = LongCase;
  fn name(&self) -> String {
    "C18/long-inputs-in-a-helper-process".into()
  }
  fn check(&self, c: &LongCase, cl: &mut Classes) -> Verdict {
    helper_verdict("C18", "c18-long", c.index, cl)
  }
}

// ---------------------------------------------------------------- the very first constructions in a process, on several threads

/// `runs` fresh processes; in each, `threads` threads released together construct custom claims as the first use of the
/// library in that process: each thread one of the seven reserved names (refused) and one other name (accepted).
#[derive(Clone, Debug, serde::Serialize, serde::Deserialize)]
pub struct FirstUseCase {
  pub runs: u32,
  pub threads: u8,
  pub shift: u8,
  /// use the unoptimised build of the helper (target/debug/pv) when it exists: nothing inlined, every window wider
  #[serde(default)]
  pub unoptimised: bool,
}
pub struct FirstUse;

const SEVEN: [&str; 7] = ["iss", "sub", "aud", "exp", "nbf", "iat", "jti"];

/// Body of `pv c18-first <threads> <shift>`: nothing of the library runs before the threads are released
pub fn first_use_child_main(args: &[String]) -> i32 {
  use std::sync::atomic::{AtomicU32, Ordering};
  let threads: u32 = args.first().and_then(|a| a.parse().ok()).unwrap_or(12).clamp(1, 64);
  let shift: usize = args.get(1).and_then(|a| a.parse().ok()).unwrap_or(0);
  let arrived = AtomicU32::new(0);
  let lines: Vec<String> = std::thread::scope(|sc| {
    let hs: Vec<_> = (0..threads as usize)
      .map(|t| {
        let arrived = &arrived;
        sc.spawn(move || {
          let name = SEVEN[(t + shift) % 7];
          let other = format!("first-use-{t}");
          arrived.fetch_add(1, Ordering::AcqRel);
          while arrived.load(Ordering::Acquire) < threads {
            std::hint::spin_loop();
          }
          let mut out = vec![];
          match t % 3 {
            0 => {
              if CustomClaim::try_from((name, 1)).is_ok() { out.push(format!("ACCEPTED {name} (&str, i32) thread {t}")) }
            }
            1 => {
              if CustomClaim::<&str>::try_from(name).is_ok() { out.push(format!("ACCEPTED {name} &str thread {t}")) }
            }
            _ => {
              if CustomClaim::try_from((name.to_string(), "v")).is_ok() { out.push(format!("ACCEPTED {name} (String, &str) thread {t}")) }
            }
          }
          if CustomClaim::try_from((other.as_str(), 1)).is_err() { out.push(format!("REFUSED {other} thread {t}")) }
          out
        })
      })
      .collect();
    hs.into_iter().flat_map(|h| h.join().unwrap_or_else(|_| vec!["ACCEPTED ? a thread panicked".into()])).collect()
  });
  for l in &lines {
    println!("{l}");
  }
  println!("DONE");
  if lines.is_empty() { 0 } else { 3 }
}

impl Sub for FirstUse {
  type Case = FirstUseCase;
  fn name(&self) -> String {
    "C18/first-use-in-a-process".into()
  }
  fn check(&self, c: &FirstUseCase, cl: &mut Classes) -> Verdict {
    let exe = match std::env::current_exe() {
      Ok(e) => e,
      Err(_) => return Verdict::Discard,
    };
    let dev = exe.parent().and_then(|p| p.parent()).map(|p| p.join("debug").join("pv")).filter(|p| p.exists());
    let (exe, build) = match (c.unoptimised, dev) {
      (true, Some(d)) => (d, "unoptimised"),
      _ => (exe, "optimised"),
    };
    let mut done = 0;
    for run in 0..c.runs.min(5000) {
      let out = match run_helper(std::process::Command::new(&exe).args(["c18-first", &c.threads.to_string(), &((c.shift as u32 + run) % 7).to_string()]).env_remove("LD_PRELOAD"), 30, "C18 first-use helper") {
        Some(o) if !o.timed_out => o,
        _ => continue,
      };
      let text = out.stdout.clone();
      if let Some(l) = text.lines().find(|l| l.starts_with("ACCEPTED ")) {
        vio!("C18:reserved-key-accepted:first-use-in-a-process"; "process #{} of {}, {} threads constructing claims as the first use of the library: {}", run, c.runs, c.threads, l);
      }
      if let Some(l) = text.lines().find(|l| l.starts_with("REFUSED ")) {
        vio!("C18:unreserved-key-refused:first-use-in-a-process"; "process #{} of {}, {} threads constructing claims as the first use of the library: {}", run, c.runs, c.threads, l);
      }
      if !text.lines().any(|l| l == "DONE") {
        vio!("C18:process-died:first-use-in-a-process"; "process #{} of {} ended with {:?} before finishing", run, c.runs, out.status);
      }
      done += 1;
    }
    cl.tag(format!("fresh processes ({} build): threads={}", build, c.threads));
    cl.nontrivial(done >= 10);
    Verdict::Pass
  }
}

pub fn subs() -> Vec<Box<dyn DynSub>> {
  vec![Box::new(FirstUse), Box::new(LongInputs), Box::new(ReservedKeys { kind: "alphabet-sweep" }), Box::new(ReservedKeys { kind: "short-lowercase-sweep" }), Box::new(ReservedKeys { kind: "decorated" }), Box::new(TimeCtors)]
}

pub fn run(ctx: &Ctx) -> EvidenceMeta {
  let sweep = ReservedKeys { kind: "alphabet-sweep" };
  let decorated = ReservedKeys { kind: "decorated" };
  let short = ReservedKeys { kind: "short-lowercase-sweep" };
  let tc = TimeCtors;
  let jobs: Vec<Job> = vec![
    Box::new(|| ctx.enumerate(&sweep, sweep_keys(4).into_iter(), true)),
    Box::new(|| ctx.enumerate(&short, short_key_sweep().into_iter(), true)),
    Box::new(|| ctx.prop(&decorated, decorated_key(), ctx.n(30_000, 300_000))),
    Box::new(|| ctx.prop(&tc, (rfc3339_text(), any::<u8>()).prop_map(|(text, b)| TimeCtorCase { text, valid: true, through_token: b % 8 == 0 }), ctx.n(30_000, 300_000))),
    Box::new(|| ctx.enumerate(&tc, calendar_edge_cases().into_iter(), false)),
    Box::new(|| {
      if !ctx.is_child() {
        ctx.enumerate(&LongInputs, std::iter::once(LongCase { index: u32::MAX }), false)
      }
    }),
    Box::new(|| ctx.prop(&tc, spoilt_date().prop_map(|text| TimeCtorCase { text, valid: false, through_token: false }), ctx.n(12_000, 120_000))),
    Box::new(|| ctx.enumerate(&sweep, byte_truncation_confusables().into_iter(), false)),
    Box::new(|| ctx.prop(&tc, not_a_date().prop_map(|text| TimeCtorCase { text, valid: false, through_token: false }), ctx.n(20_000, 200_000))),
    Box::new(|| {
      // the C11 rendering space, strict renderings only
      let strat = (tgen::rendering(), 0i64..253_000_000_000, 0u32..1_000_000_000).prop_map(|(mut r, secs, n): (Rendering, i64, u32)| {
        r.sep = 0;
        if r.zulu == 2 {
          r.zulu = 1;
        }
        TimeCtorCase { text: tgen::render(secs, n, &r), valid: true, through_token: false }
      });
      ctx.prop(&tc, strat, ctx.n(20_000, 200_000))
    }),
  ];
  run_jobs(jobs);
  if !ctx.is_child() {
    // alone on the machine: the threads of each fresh process spin at a gate
    let runs = ctx.n(120, 1200) as u32;
    let cases = vec![
      FirstUseCase { runs, threads: 32, shift: 0, unoptimised: true },
      FirstUseCase { runs, threads: 12, shift: 2, unoptimised: true },
      FirstUseCase { runs: runs / 2, threads: 3, shift: 3, unoptimised: true },
      FirstUseCase { runs: runs / 2, threads: 3, shift: 4, unoptimised: false },
      FirstUseCase { runs: runs / 2, threads: 12, shift: 5, unoptimised: false },
    ];
    run_jobs(vec![Box::new(move || ctx.enumerate(&FirstUse, cases.into_iter(), false))]);
  }
  EvidenceMeta {
    rule: "custom-claim keys: every string of length <= 4 over the 16-symbol alphabet {letters of iss/sub/aud/exp/nbf/iat/jti, 'E', space, NUL} (69,905 keys, exhaustive), every lower-case key of 1-3 letters (18,278, exhaustive), 40 claim names in common use elsewhere, every key obtained from a reserved key by replacing one character with a code point congruent to it modulo 256 (about 91 000), escape spellings of the reserved keys as key text (backslash-u, percent, entity), and generated case/whitespace/NUL/combining-mark/BOM decorations of the reserved keys and random Unicode keys, \
           each through the three constructor forms (&str; (&str, T); (String, T)) with T in {&str, i64, bool, Vec, struct, serde_json::Value, Option, u128::MAX, i128::MIN, NaN, None, (), a tuple-keyed map, u64::MAX}; oracle: Err(Reserved(k)) iff the key is exactly one of the seven, otherwise Ok with get_key() unchanged, and (sampled) the value arrives under that key through a built token. \
           time claims: generated RFC 3339 date-times (upper-case T/Z or numeric offset, years 0000-9999, every day of the calendar, 0-30 fraction digits, leap seconds; every 29 February of the years 0000-9999 and every month end of ten chosen years) into the &str and String forms of ExpirationClaim/NotBeforeClaim/IssuedAtClaim: Ok, stored verbatim, verbatim in the token payload; \
           strings whose first four characters are not all ASCII digits and that do not begin with a sign, and RFC 3339 strings whose date part is spoilt by a sign, blank or letter inside the year / month / day field: Err(RFC3339Date); keys and time strings of 20 000 .. 4 Mi characters in a helper process (optimised and unoptimised build); first use in a process: 420 (thorough 4200) fresh processes of the unoptimised and the optimised helper with 3 / 12 / 32 threads, in each the threads are released together and construct, as the first use of the library in that process, one reserved name each (all three constructor forms) and one other name => every reserved name refused, every other accepted. Non-trivial = key within edit distance 1 of a reserved key, or a time string with an offset/fraction or from the must-reject domain; distinct by input."
      .into(),
    assumptions: vec!["strings between the accepted and the must-reject domain (e.g. ISO 8601 forms that are not RFC 3339) are not judged".into()],
  }
}
