//! C11 – the default parser rejects expired tokens; C12 – ... tokens that are not yet valid.
//! Payloads are crafted through the core layer (any JSON under exp/nbf), authentically signed/encrypted,
//! and parsed with `PasetoParser::default()`.
use crate::engine::*;
use crate::gen;
use crate::keys;
use crate::proto::*;
use crate::tgen::{self, Rendering};
use proptest::prelude::*;
use serde::{Deserialize, Serialize};
use serde_json::{json, Value};

#[derive(Clone, Debug, Serialize, Deserialize)]
pub enum TimeVal {
  Absent,
  /// explicit JSON null (don't-care)
  Null,
  /// now - delta seconds (delta >= 2)
  Past(u64, u32, Rendering),
  /// now + delta seconds (delta >= 60)
  Future(u64, u32, Rendering),
  /// an absolute instant (seconds since the epoch, nanoseconds); past or future is decided against the clock at check
  /// time, instants inside the (now - 2 s, now + 60 s) margin are discarded
  Abs(i64, u32, Rendering),
  /// present, non-null, not an RFC 3339 timestamp string
  NotATimestamp(Value),
  /// a strictly rendered instant that WOULD be acceptable (future when `future`, else past: now -/+ delta seconds)
  /// spoilt into something that is not RFC 3339 (suffix, prefix, missing or malformed component - see NEAR_MISS)
  NearMiss(bool, u64, u8),
  /// a literal, strictly written RFC 3339 timestamp at the edge of the calendar (index into EXTREMES): years 0000 and
  /// 9999 with offsets that push the UTC instant out of the four-digit range
  Extreme(u8),
  /// only under a FROZEN wall clock (§2.6): the instant `now + delta` nanoseconds, written with nine fraction digits.
  /// delta = 0 is "now" itself: not in the future (exp must be refused), not in the past either (nbf: not decided)
  Exact(i64, Rendering),
}

pub fn clock_is_frozen() -> bool {
  std::env::var("PV_CLOCK_FREEZE").is_ok()
}

/// (text, lies in the future)
pub const EXTREMES: [(&str, bool); 12] = [
  ("9999-12-31T23:59:59Z", true),
  ("9999-12-31T23:59:59-01:00", true),
  ("9999-12-31T12:00:00-12:00", true),
  ("9999-12-31T23:59:59.999999999-23:59", true),
  ("9999-12-31T00:00:00+23:59", true),
  ("9999-01-01T00:00:00.5+00:00", true),
  ("0000-01-01T00:00:00Z", false),
  ("0000-01-01T00:00:00+23:59", false),
  ("0000-01-01T00:00:00.000000001+12:00", false),
  ("0001-01-01T00:00:00+01:00", false),
  ("0000-12-31T23:59:59-23:59", false),
  ("0000-02-29T12:00:00Z", false),
];

/// ways of spoiling a valid `YYYY-MM-DDThh:mm:ss[.f](Z|+hh:mm)` string; every result is definitely not RFC 3339
pub const NEAR_MISS: usize = 29;
pub fn spoil(valid: &str, kind: u8) -> String {
  let date = &valid[..10];
  let time = &valid[11..19];
  let zone = &valid[19..];
  match kind as usize % NEAR_MISS {
    0 => format!("{valid}[UTC]"),
    1 => format!("{valid}[Europe/Paris]"),
    2 => format!("{valid}[]"),
    3 => format!("{valid} "),
    4 => format!("{valid}\n"),
    5 => format!(" {valid}"),
    6 => format!("{valid}Z"),
    7 => format!("{valid}x"),
    8 => format!("{valid} UTC"),
    9 => format!("{date}T{}{zone}", &time[..5]),                 // no seconds
    10 => date.to_string(),                                        // date only
    11 => format!("{date}T{time}"),                                // no zone
    12 => format!("{}T{}Z", date.replace('-', ""), time.replace(':', "")), // ISO 8601 basic format
    13 => format!("{date}T{time},5{zone}"),                        // comma fraction
    14 => format!("{date}T{time}.{zone}"),                         // empty fraction
    15 => format!("{date}T{time}+0100"),                           // offset without colon
    16 => format!("{date}T{time}+01"),                             // hour-only offset
    17 => format!("{date}T{time}+24:00"),
    18 => format!("{}-13-01T{time}{zone}", &date[..4]),            // month 13
    19 => format!("{}-02-30T{time}{zone}", &date[..4]),            // February 30th
    // Unicode look-alikes in timestamp position: none of them is an RFC 3339 character
    21 => valid.replace('-', "\u{2212}"),                          // MINUS SIGN for every hyphen
    22 => format!("{date}T{time}{}", zone.replace('-', "\u{2212}").replace('+', "\u{ff0b}").replace('Z', "\u{ff3a}")), // in the zone only
    23 => valid.chars().map(|c| if c.is_ascii_digit() { char::from_u32(c as u32 - 0x30 + 0xff10).unwrap() } else { c }).collect(), // full-width digits
    24 => valid.replace(':', "\u{ff1a}"),                          // full-width colon
    25 => valid.replace('T', "\u{ff34}"),                          // full-width T
    26 => valid.chars().map(|c| if c.is_ascii_digit() { char::from_u32(c as u32 - 0x30 + 0x660).unwrap() } else { c }).collect(), // Arabic-Indic digits
    27 => valid.replace('-', "\u{2010}"),                          // HYPHEN
    28 => format!("{}\u{200b}{}", &valid[..10], &valid[10..]),      // a zero-width space inside
    // (another separator character than 'T' is not in this list: RFC 3339 section 5.6 lets applications choose
    // one, and the `time` crate accepts any - that is leniency, a don't-care here)
    _ => format!("{date}T24:00:00{zone}"),
  }
}

impl TimeVal {
  fn class(&self) -> &'static str {
    match self {
      TimeVal::Absent => "absent",
      TimeVal::Null => "null",
      TimeVal::Past(..) => "past",
      TimeVal::Future(..) => "future",
      TimeVal::Abs(..) => "absolute",
      TimeVal::NotATimestamp(_) => "not-a-timestamp",
      TimeVal::NearMiss(..) => "not-a-timestamp",
      TimeVal::Extreme(i) => if EXTREMES[*i as usize % EXTREMES.len()].1 { "future" } else { "past" },
      TimeVal::Exact(d, _) => if *d > 0 { "future" } else if *d < 0 { "past" } else { "exactly-now" },
    }
  }
  /// resolve an absolute instant into Past/Future relative to `now` (None inside the margin)
  fn resolve(&self, now: (i64, u32)) -> Option<TimeVal> {
    match self {
      TimeVal::Abs(s, n, r) => {
        if *s <= now.0 - 3 {
          Some(TimeVal::Past((now.0 - *s) as u64, *n, r.clone()))
        } else if *s >= now.0 + 61 {
          Some(TimeVal::Future((*s - now.0) as u64, *n, r.clone()))
        } else {
          None
        }
      }
      other => Some(other.clone()),
    }
  }
  /// JSON value to place in the payload (None = member absent) and whether the rendering is strict RFC 3339
  fn materialise(&self, now: (i64, u32)) -> (Option<Value>, bool) {
    match self {
      TimeVal::Absent => (None, true),
      TimeVal::Null => (Some(Value::Null), true),
      TimeVal::Past(d, n, r) => (Some(Value::String(tgen::render(now.0 - *d as i64, *n, r))), r.strict()),
      TimeVal::Future(d, n, r) => (Some(Value::String(tgen::render(now.0 + *d as i64, *n, r))), r.strict()),
      TimeVal::Abs(s, n, r) => (Some(Value::String(tgen::render(*s, *n, r))), r.strict()),
      TimeVal::NearMiss(future, d, kind) => {
        let at = if *future { now.0 + *d as i64 } else { now.0 - *d as i64 };
        let r = Rendering { offset_min: if kind % 3 == 0 { 0 } else { 60 }, digits: 0, sep: 0, zulu: if kind % 3 == 0 { 1 } else { 0 } };
        (Some(Value::String(spoil(&tgen::render(at, 0, &r), *kind))), true)
      }
      TimeVal::NotATimestamp(v) => (Some(v.clone()), true),
      TimeVal::Extreme(i) => (Some(Value::String(EXTREMES[*i as usize % EXTREMES.len()].0.to_string())), true),
      TimeVal::Exact(d, r) => {
        let t = now.0 as i128 * 1_000_000_000 + now.1 as i128 + *d as i128;
        let mut r = r.clone();
        r.digits = 9;
        r.sep = 0;
        if r.zulu == 2 {
          r.zulu = 1;
        }
        (Some(Value::String(tgen::render((t.div_euclid(1_000_000_000)) as i64, (t.rem_euclid(1_000_000_000)) as u32, &r))), true)
      }
    }
  }
}

#[derive(Clone, Debug, Serialize, Deserialize)]
pub struct TimeCase {
  pub proto: Proto,
  #[serde(with = "gen::hexser")]
  pub seed: Vec<u8>,
  pub exp: TimeVal,
  pub nbf: TimeVal,
  /// other payload members
  pub extra: Vec<(String, Value)>,
  pub footer: Option<String>,
  /// additionally call check_claim on the default parser: 1 with an ExpirationClaim, 2 with a NotBeforeClaim carrying
  /// exactly the token's value (the default time rule for that claim must stay in force)
  #[serde(default)]
  pub also_check: u8,
  /// the payload text carries a SECOND member of the same name: (0 = exp / 1 = nbf, its value, written before (true) or
  /// after (false) the main one). Which occurrence counts is not specified, so only cases where both occurrences agree are
  /// decided - plus the rule that claims handed back by a successful parse never show an expired exp / a future nbf.
  #[serde(default)]
  pub dup: Option<(u8, TimeVal, bool)>,
  /// the member names exp / nbf are written with JSON escapes (same names to every JSON reader):
  /// 1 first letter as \\u00XX, 2 middle letter, 3 all letters, 4 all letters with upper-case hex digits
  #[serde(default)]
  pub escaped_names: u8,
  /// the parser also expects a custom number claim (`check_claim(("seats", 4))`) and has just refused another
  /// authentic token for carrying another value; the token of this case carries the expected one
  #[serde(default)]
  pub after_failed_check: bool,
  /// just before the judged parse, THIS token was parsed on this thread by a parser whose application validator panicked
  #[serde(default)]
  pub after_panicking_validator: bool,
}

fn written_name(name: &str, how: u8) -> String {
  let esc = |c: char, upper: bool| if upper { format!("\\u{:04X}", c as u32) } else { format!("\\u{:04x}", c as u32) };
  let body: String = name
    .chars()
    .enumerate()
    .map(|(i, c)| match how % 5 {
      1 if i == 0 => esc(c, false),
      2 if i == 1 => esc(c, false),
      3 => esc(c, false),
      4 => esc(c, true),
      _ => c.to_string(),
    })
    .collect();
  format!("\"{}\"", body)
}

pub struct DefaultTimeRules {
  /// "C11" (exp varies, nbf absent) or "C12" (nbf varies, all exp x nbf combinations)
  pub pid: &'static str,
  pub proto: Proto,
}

#[derive(PartialEq, Debug, Clone, Copy)]
enum Want {
  Accept,
  Reject,
  DontCare,
}

fn want_exp(v: &TimeVal, strict: bool) -> Want {
  match v {
    TimeVal::Absent => Want::Accept,
    TimeVal::Null => Want::DontCare,
    TimeVal::Past(..) => Want::Reject,
    TimeVal::Future(..) => {
      if strict {
        Want::Accept
      } else {
        Want::DontCare
      }
    }
    TimeVal::NotATimestamp(_) | TimeVal::NearMiss(..) => Want::Reject,
    TimeVal::Abs(..) => Want::DontCare,
    TimeVal::Extreme(i) => if EXTREMES[*i as usize % EXTREMES.len()].1 { Want::Accept } else { Want::Reject },
    // "rejects every token whose exp instant is not in the future": now itself is not in the future
    TimeVal::Exact(d, _) => if *d > 0 { Want::Accept } else { Want::Reject },
  }
}
fn want_nbf(v: &TimeVal, strict: bool) -> Want {
  match v {
    TimeVal::Absent => Want::Accept,
    TimeVal::Null => Want::DontCare,
    TimeVal::Future(..) => Want::Reject,
    TimeVal::Past(..) => {
      if strict {
        Want::Accept
      } else {
        Want::DontCare
      }
    }
    TimeVal::NotATimestamp(_) | TimeVal::NearMiss(..) => Want::Reject,
    TimeVal::Abs(..) => Want::DontCare,
    TimeVal::Extreme(i) => if EXTREMES[*i as usize % EXTREMES.len()].1 { Want::Reject } else { Want::Accept },
    TimeVal::Exact(d, _) => if *d > 0 { Want::Reject } else if *d < 0 { Want::Accept } else { Want::DontCare },
  }
}

impl Sub for DefaultTimeRules {
  type Case = TimeCase;
  fn name(&self) -> String {
    format!("{}/{}", self.pid, self.proto.label())
  }
  fn check(&self, c: &TimeCase, cl: &mut Classes) -> Verdict {
    let pid = self.pid;
    let p = c.proto;
    let now = tgen::now();
    // absolute instants are rendered as they are and classified against the clock
    let (exp, exp_strict) = c.exp.materialise(now);
    let (nbf, nbf_strict) = c.nbf.materialise(now);
    if (matches!(c.exp, TimeVal::Exact(..)) || matches!(c.nbf, TimeVal::Exact(..))) && !clock_is_frozen() {
      return Verdict::Discard; // an instant relative to "now" in nanoseconds means something only while the clock stands still
    }
    let (c_exp, c_nbf) = match (c.exp.resolve(now), c.nbf.resolve(now)) {
      (Some(e), Some(n)) => (e, n),
      _ => return Verdict::Discard,
    };
    let absolute = matches!(c.exp, TimeVal::Abs(..)) || matches!(c.nbf, TimeVal::Abs(..));
    // the payload text is written member by member (so that a name can occur twice)
    let mut members: Vec<(String, Value)> = vec![];
    let dup = match &c.dup {
      Some((which, v, before)) => match v.resolve(now) {
        Some(r) => Some((*which % 2, r, v.materialise(now), *before)),
        None => return Verdict::Discard,
      },
      None => None,
    };
    if let Some((which, _, (Some(v), _), true)) = &dup {
      members.push((if *which == 0 { "exp" } else { "nbf" }.to_string(), v.clone()));
    }
    for (k, v) in &c.extra {
      if k != "exp" && k != "nbf" {
        members.push((k.clone(), v.clone()));
      }
    }
    if let Some(v) = &exp {
      members.push(("exp".into(), v.clone()));
    }
    if let Some(v) = &nbf {
      members.push(("nbf".into(), v.clone()));
    }
    if let Some((which, _, (Some(v), _), false)) = &dup {
      members.push((if *which == 0 { "exp" } else { "nbf" }.to_string(), v.clone()));
    }
    if c.after_failed_check {
      members.push(("seats".into(), json!(4)));
    }
    let payload = format!(
      "{{{}}}",
      members.iter().map(|(k, v)| format!("{}:{}", if c.escaped_names % 5 != 0 && (k == "exp" || k == "nbf") { written_name(k, c.escaped_names) } else { Value::String(k.clone()).to_string() }, v)).collect::<Vec<_>>().join(",")
    );
    if c.escaped_names % 5 != 0 && (exp.is_some() || nbf.is_some()) {
      cl.tag("member-names-written-with-escapes");
    }
    let km = keys::material(p, &gen::arr32(&c.seed));
    let lk = km.lib().expect("valid key");
    let token = match core_build(&lk, &[3u8; 32][..if p == Proto::V2L { 24 } else { 32 }], &payload, c.footer.as_deref(), None) {
      Ok(t) => t,
      Err(_) => return Verdict::Discard,
    };
    cl.tag(format!("{}", p.label()));
    cl.tag(format!("exp:{} nbf:{}", c_exp.class(), c_nbf.class()));
    if absolute { cl.tag("absolute-special-instant"); }
    for v in [&c_exp, &c_nbf] {
      match v {
        TimeVal::Past(d, _, r) | TimeVal::Future(d, _, r) => {
          cl.tag(r.class());
          cl.tag(if *d > 3_000_000_000 { "distance:far(>95y)" } else if *d > 86_400 * 366 { "distance:years" } else if *d > 86_400 { "distance:days" } else { "distance:<1d" });
        }
        TimeVal::NearMiss(_, _, k) => cl.tag(format!("near-miss:{}", *k as usize % NEAR_MISS)),
        TimeVal::Extreme(_) => cl.tag("calendar-extreme"),
        TimeVal::Exact(d, _) => cl.tag(format!("frozen-clock:now{}", if *d == 0 { "".to_string() } else { format!("{:+}ns", d) })),
        TimeVal::NotATimestamp(j) => cl.tag(format!("type:{}", match j { Value::Number(_) => "number", Value::Bool(_) => "bool", Value::Array(_) => "array", Value::Object(_) => "object", Value::String(s) if s.is_empty() => "empty-string", Value::String(_) => "text", Value::Null => "null" })),
        _ => {}
      }
    }
    cl.nontrivial(!matches!(c_exp, TimeVal::Absent) || !matches!(c_nbf, TimeVal::Absent));
    let check_spec = match (c.also_check, &exp, &nbf) {
      (1, Some(Value::String(s)), _) => Some(ClaimSpec::Exp(s.clone())),
      (2, _, Some(Value::String(s))) => Some(ClaimSpec::NbfOwned(s.clone())),
      _ => None,
    };
    let seats_spec = ClaimSpec::Custom("seats".into(), json!(4));
    let other_token = if c.after_failed_check { core_build(&lk, &[5u8; 32][..if p == Proto::V2L { 24 } else { 32 }], "{\"seats\":5}", c.footer.as_deref(), None).ok() } else { None };
    let mut parser = new_parser(p, Layer::Prelude);
    if let Some(f) = c.footer.as_deref() {
      parser.footer(f);
    }
    if let Some(other) = &other_token {
      if parser.check(&seats_spec).is_ok() {
        let refused = parser.parse(other, &lk);
        cl.tag(if refused.is_err() { "after-a-refused-token" } else { "after-an-accepted-token" });
      }
    }
    if let Some(spec) = &check_spec {
      if parser.check(spec).is_ok() {
        cl.tag("check_claim-on-time-claim-too");
      }
    }
    if c.after_panicking_validator {
      let bomb = ClaimSpec::Custom("no-such-claim".into(), Value::Null);
      for f in [VALIDATOR_PANICS_TEXT, VALIDATOR_PANICS_VALUE] {
        let _ = crate::engine::catch(|| {
          let mut other = new_parser(p, Layer::Prelude);
          if let Some(fo) = c.footer.as_deref() {
            other.footer(fo);
          }
          let _ = other.validate(&bomb, f);
          other.parse(&token, &lk).is_ok()
        });
      }
      cl.tag("after-a-panicking-validator-on-this-token");
    }
    let r = parser.parse(&token, &lk);
    let (mut we, mut wn) = (want_exp(&c_exp, exp_strict), want_nbf(&c_nbf, nbf_strict));
    if let Some((which, v, (val, strict), _)) = &dup {
      if val.is_some() {
        cl.tag(format!("member-written-twice:{}", if *which == 0 { "exp" } else { "nbf" }));
        // decided only when both occurrences agree
        if *which == 0 {
          let w2 = want_exp(v, *strict);
          if w2 != we { we = Want::DontCare; }
        } else {
          let w2 = want_nbf(v, *strict);
          if w2 != wn { wn = Want::DontCare; }
        }
      }
    }
    // whatever was decided above: claims handed back by a successful parse must not themselves be expired / not yet valid
    if let Ok(json) = &r {
      if let Some((secs, _)) = json.get("exp").and_then(|v| v.as_str()).and_then(tgen::parse_rfc3339) {
        if secs <= now.0 - 2 {
          vio!("{}:returned-claims-carry-expired-exp", pid; "the default parser accepted payload {} and handed back claims whose exp {} is in the past ({}; now = {})", payload, json["exp"], p.label(), tgen::render(now.0, now.1, &Rendering { offset_min: 0, digits: 3, sep: 0, zulu: 1 }));
        }
      }
      if let Some((secs, _)) = json.get("nbf").and_then(|v| v.as_str()).and_then(tgen::parse_rfc3339) {
        if secs >= now.0 + 60 {
          vio!("{}:returned-claims-carry-future-nbf", pid; "the default parser accepted payload {} and handed back claims whose nbf {} is in the future ({}; now = {})", payload, json["nbf"], p.label(), tgen::render(now.0, now.1, &Rendering { offset_min: 0, digits: 3, sep: 0, zulu: 1 }));
        }
      }
    }
    let want = if we == Want::Reject || wn == Want::Reject {
      Want::Reject
    } else if we == Want::DontCare || wn == Want::DontCare {
      Want::DontCare
    } else {
      Want::Accept
    };
    match (want, r) {
      (Want::DontCare, _) => Verdict::Pass,
      (Want::Reject, Err(e)) => {
        cl.tag(format!("rejected:{}", e.variant));
        if e.class != ErrClass::Claim {
          vio!("{}:rejected-for-another-reason:{}:{}", pid, p.label(), e.variant; "payload {} rejected, but by {} rather than a claim error", payload, e.text);
        }
        Verdict::Pass
      }
      (Want::Reject, Ok(_)) => {
        let which = if we == Want::Reject { format!("exp:{}", c_exp.class()) } else { format!("nbf:{}", c_nbf.class()) };
        let detail_type = match (&c_exp, &c_nbf) {
          (TimeVal::NotATimestamp(v), _) if we == Want::Reject => type_name(v),
          (TimeVal::NearMiss(..), _) if we == Want::Reject => "spoilt-timestamp",
          (_, TimeVal::NotATimestamp(v)) => type_name(v),
          (_, TimeVal::NearMiss(..)) => "spoilt-timestamp",
          _ => "timestamp",
        };
        vio!("{}:accepted:{}:{}", pid, which, detail_type; "the default parser accepted payload {} ({}; now = {})", payload, p.label(), tgen::render(now.0, now.1, &Rendering { offset_min: 0, digits: 3, sep: 0, zulu: 1 }));
      }
      // (what JSON the parser returns on acceptance is C14's subject, not judged here)
      (Want::Accept, Ok(_)) => Verdict::Pass,
      (Want::Accept, Err(e)) => vio!("{}:rejected-valid:{}:exp={}:nbf={}", pid, e.variant, c_exp.class(), c_nbf.class(); "the default parser rejected payload {} ({}): {}", payload, p.label(), e.text),
    }
  }
}

fn type_name(v: &Value) -> &'static str {
  match v {
    Value::Number(_) => "number",
    Value::Bool(_) => "bool",
    Value::Array(_) => "array",
    Value::Object(_) => "object",
    Value::String(s) if s.is_empty() => "empty-string",
    Value::String(_) => "text",
    Value::Null => "null",
  }
}

fn not_a_timestamp() -> BoxedStrategy<Value> {
  prop_oneof![
    2 => any::<i64>().prop_map(|i| json!(i)),
    2 => (0u64..4_000_000_000).prop_map(|i| json!(i)),
    1 => Just(json!(99999999999u64)),
    1 => Just(json!(1.5)),
    2 => any::<bool>().prop_map(Value::Bool),
    1 => Just(json!([])),
    1 => Just(json!([1])),
    1 => Just(json!(["2999-01-01T00:00:00Z"])),
    1 => Just(json!({})),
    1 => Just(json!({"exp": "2999-01-01T00:00:00Z"})),
    // the shapes a date-time takes in serde's native (non-string) representations
    1 => Just(json!([2999, 1, 0, 0, 0, 0, 0, 0, 0])),
    1 => Just(json!([1999, 1, 0, 0, 0, 0, 0, 0, 0])),
    1 => Just(json!([2999, 1, 0, 0, 0, 0])),
    1 => Just(json!([2999, 1])),
    1 => Just(json!({"secs_since_epoch": 32503680000u64, "nanos_since_epoch": 0})),
    1 => Just(json!("32503680000")),
    1 => Just(json!(32503680000.5)),
    3 => Just(json!("")),
    // text that does not begin with a digit or a sign
    3 => ("[A-Za-z _:TZ.]{1,12}").prop_map(Value::String),
    1 => Just(json!("never")),
    1 => Just(json!("T00:00:00Z")),
    1 => Just(json!(" 2999-01-01T00:00:00Z")),
  ]
  .boxed()
}

fn past() -> BoxedStrategy<TimeVal> {
  let max = (tgen::now().0 - tgen::Y1971) as u64;
  (tgen::log_delta(2, max), 0u32..1_000_000_000, tgen::rendering()).prop_map(|(d, n, r)| TimeVal::Past(d, n, r)).boxed()
}
fn future() -> BoxedStrategy<TimeVal> {
  let max = (tgen::y9000() - tgen::now().0) as u64;
  (tgen::log_delta(60, max), 0u32..1_000_000_000, tgen::rendering()).prop_map(|(d, n, r)| TimeVal::Future(d, n, r)).boxed()
}

/// calendar and representation corner cases as absolute instants
fn absolute() -> BoxedStrategy<TimeVal> {
  let d = |y: i64, m: u32, dd: u32, secs: i64| tgen::days_from_civil(y, m, dd) * 86400 + secs;
  let specials: Vec<i64> = vec![
    d(1971, 1, 1, 0), d(1999, 12, 31, 86399), d(2000, 1, 1, 0), d(2000, 2, 29, 43200), d(2001, 9, 9, 6400), // 1e9
    (1i64 << 31) - 1, 1i64 << 31, (1i64 << 31) + 1, (1i64 << 32) - 1, 1i64 << 32, d(2028, 2, 29, 0), d(2100, 2, 28, 86399), d(2100, 3, 1, 0),
    d(2026, 12, 31, 86399), d(2027, 1, 1, 0), d(2400, 2, 29, 1), d(8999, 12, 31, 86399), d(3000, 1, 1, 0), d(1972, 6, 30, 86399), d(2016, 12, 31, 86399),
    d(2038, 1, 19, 11647), d(2262, 4, 11, 85636), d(2262, 4, 11, 85637), // i64 nanoseconds overflow region
  ];
  (any::<u16>(), prop_oneof![Just(0u32), Just(1u32), Just(999_999_999u32), Just(500_000_000u32), 0u32..1_000_000_000], tgen::rendering(), -2i64..=2)
    .prop_map(move |(i, n, r, delta)| TimeVal::Abs(specials[pick(i, specials.len())] + delta, n, r))
    .boxed()
}

fn near_miss(future: bool) -> BoxedStrategy<TimeVal> {
  (tgen::log_delta(3600, 3_000_000_000), 0u8..NEAR_MISS as u8).prop_map(move |(d, k)| TimeVal::NearMiss(future, d, k)).boxed()
}

/// `for_exp`: values for exp (near-misses built on a future instant) or for nbf (on a past instant)
fn time_val(for_exp: bool) -> BoxedStrategy<TimeVal> {
  prop_oneof![2 => Just(TimeVal::Absent), 1 => Just(TimeVal::Null), 6 => past(), 6 => future(), 2 => absolute(), 4 => not_a_timestamp().prop_map(TimeVal::NotATimestamp), 3 => near_miss(for_exp), 1 => (0u8..EXTREMES.len() as u8).prop_map(TimeVal::Extreme)].boxed()
}

/// other members: plain ones, and decoys - nested objects / arrays / strings that repeat the registered names and carry
/// timestamps of either direction, names one character away from exp / nbf. None of them is the top-level exp / nbf.
fn extras() -> BoxedStrategy<Vec<(String, Value)>> {
  let stamp = || prop_oneof![Just(json!("1999-01-01T00:00:00Z")), Just(json!("2999-01-01T00:00:00Z")), Just(json!(0)), Just(Value::Null), Just(json!("never"))];
  let decoy = prop_oneof![
    2 => (stamp(), stamp()).prop_map(|(a, b)| json!({"exp": a, "nbf": b})),
    1 => (stamp(), stamp()).prop_map(|(a, b)| json!([{"exp": a}, {"nbf": b}, {"nbf": "2999-01-01T00:00:00Z", "exp": "1999-01-01T00:00:00Z"}])),
    1 => stamp().prop_map(|a| json!({"token": {"claims": {"exp": a, "iat": "2999-01-01T00:00:00Z"}}})),
    1 => Just(json!("{\"exp\":\"1999-01-01T00:00:00Z\",\"nbf\":\"2999-01-01T00:00:00Z\"}")),
    1 => Just(json!("\"exp\":")),
    1 => stamp(),
  ];
  let name = prop_oneof![3 => "[a-z]{1,5}".prop_map(|s: String| s), 2 => Just("iat".to_string()), 1 => Just("jti".to_string()), 1 => Just("renewed_from".to_string()), 1 => Just("Exp".to_string()), 1 => Just("exp ".to_string()), 1 => Just("NBF".to_string()), 1 => Just("expires".to_string()), 1 => Just("nbf\u{0}".to_string()), 1 => Just("ex".to_string()),
    // names that a normalising lookup would take for exp / nbf: zero-width characters, variation selectors, full-width letters
    3 => (any::<u16>(), any::<bool>()).prop_map(|(i, which)| {
      let base = if which { "exp" } else { "nbf" };
      const FORMS: usize = 10;
      match pick(i, FORMS) {
        0 => format!("{base}\u{200b}"), 1 => format!("\u{2060}{base}"), 2 => format!("{}\u{200d}{}", &base[..1], &base[1..]), 3 => format!("{base}\u{fe0f}"),
        4 => base.chars().map(|c| char::from_u32(c as u32 - 0x20 + 0xff00).unwrap()).collect(), 5 => format!("{base}\u{200c}"), 6 => format!("\u{feff}{base}"), 7 => format!("{base}\u{ad}"),
        8 => crate::gen::confusable(base, 1).unwrap_or_else(|| base.to_uppercase()), _ => crate::gen::confusable(base, 0).unwrap_or_else(|| base.to_uppercase()),
      }
    })];
  // (an `iat` of any instant - also far in the future - says nothing about whether the token may be used)
  let far = prop_oneof![Just(serde_json::json!("2999-01-01T00:00:00Z")), Just(serde_json::json!("2035-06-01T12:00:00+02:00")), Just(serde_json::json!("1999-01-01T00:00:00Z")), Just(serde_json::json!(1893456000))];
  proptest::collection::vec((name, prop_oneof![3 => gen::json_leaf(), 2 => decoy, 2 => far]), 0..4).boxed()
}

fn dup(for_exp_only: bool) -> BoxedStrategy<Option<(u8, TimeVal, bool)>> {
  let which: BoxedStrategy<u8> = if for_exp_only { Just(0u8).boxed() } else { (0u8..2).boxed() };
  prop_oneof![
    6 => Just(None),
    1 => (which, prop_oneof![3 => past(), 3 => future(), 1 => not_a_timestamp().prop_map(TimeVal::NotATimestamp), 1 => Just(TimeVal::Null)], any::<bool>()).prop_map(|(w, v, b)| Some((w, v, b))),
  ]
  .boxed()
}

fn case(pid: &'static str, proto: Proto) -> BoxedStrategy<TimeCase> {
  let (e, n): (BoxedStrategy<TimeVal>, BoxedStrategy<TimeVal>) = if pid == "C11" { (time_val(true), Just(TimeVal::Absent).boxed()) } else { (prop_oneof![3 => Just(TimeVal::Absent), 2 => past(), 3 => future(), 1 => not_a_timestamp().prop_map(TimeVal::NotATimestamp), 1 => Just(TimeVal::Null)].boxed(), time_val(false)) };
  (gen::bytes32(), e, n, extras(), prop_oneof![Just(None), Just(Some("f".to_string()))], prop_oneof![4 => Just(0u8), 1 => Just(1u8), 1 => Just(2u8)], dup(pid == "C11"), prop_oneof![5 => Just(0u8), 1 => 1u8..5], prop_oneof![5 => Just(false), 1 => Just(true)], prop_oneof![7 => Just(false), 1 => Just(true)]).prop_map(move |(seed, exp, nbf, extra, footer, also_check, dup, escaped_names, after_failed_check, after_panicking_validator)| TimeCase { proto, seed, exp, nbf, extra, footer, also_check, dup, escaped_names, after_failed_check, after_panicking_validator }).boxed()
}

/// deterministic grid: every UTC offset hour -23..=23 (+ :59) x fractional digits x {past, future} near the boundary margins
fn grid(pid: &'static str, proto: Proto) -> Vec<TimeCase> {
  let mut out = vec![];
  let mk = |exp: TimeVal, nbf: TimeVal| TimeCase { proto, seed: vec![5u8; 32], exp, nbf, extra: vec![("sub".into(), json!("grid"))], footer: None, also_check: 0, dup: None, escaped_names: 0, after_failed_check: false, after_panicking_validator: false };
  for h in -23i16..=23 {
    for (mi, digits) in [(0i16, 0u8), (59, 3), (30, 9)] {
      let off = h * 60 + if h < 0 { -mi } else { mi };
      let r = Rendering { offset_min: off, digits, sep: 0, zulu: 0 };
      for d in [2u64, 3600, 86_400 * 400] {
        if pid == "C11" {
          out.push(mk(TimeVal::Past(d, 123_456_789, r.clone()), TimeVal::Absent));
          out.push(mk(TimeVal::Future(d.max(60), 987_654_321, r.clone()), TimeVal::Absent));
        } else {
          out.push(mk(TimeVal::Absent, TimeVal::Past(d, 123_456_789, r.clone())));
          out.push(mk(TimeVal::Absent, TimeVal::Future(d.max(60), 987_654_321, r.clone())));
        }
      }
    }
  }
  // under a frozen clock: exp / nbf on "now" to the nanosecond, and one nanosecond / microsecond / second either side
  if clock_is_frozen() {
    for d in [0i64, 1, -1, 1_000, -1_000, 1_000_000, -1_000_000, 499_999_999, -500_000_000, 999_999_999, -999_999_999, 1_000_000_000, -1_000_000_000] {
      for off in [0i16, 60, -300, 1439, -1439, 345] {
        let r = Rendering { offset_min: off, digits: 9, sep: 0, zulu: if off == 0 { 1 } else { 0 } };
        if pid == "C11" {
          out.push(mk(TimeVal::Exact(d, r.clone()), TimeVal::Absent));
        } else {
          out.push(mk(TimeVal::Absent, TimeVal::Exact(d, r.clone())));
          out.push(mk(TimeVal::Exact(d.abs() + 5, r.clone()), TimeVal::Exact(d, r.clone())));
        }
      }
    }
  }
  // every calendar extreme, deterministically
  for i in 0..EXTREMES.len() as u8 {
    if pid == "C11" {
      out.push(mk(TimeVal::Extreme(i), TimeVal::Absent));
    } else {
      out.push(mk(TimeVal::Absent, TimeVal::Extreme(i)));
    }
  }
  // the 25 (exp class x nbf class) combinations with fixed representatives
  if pid == "C12" {
    let reps = |past: bool| -> Vec<TimeVal> {
      vec![
        TimeVal::Absent,
        TimeVal::Null,
        TimeVal::Past(5, 0, Rendering::utc()),
        TimeVal::Future(90, 0, Rendering::utc()),
        TimeVal::NotATimestamp(if past { json!(12345) } else { json!(true) }),
      ]
    };
    for e in reps(true) {
      for n in reps(false) {
        out.push(mk(e.clone(), n.clone()));
      }
    }
  }
  out
}

// ---------------------------------------------------------------- the clock crosses the claim while a parser lives

#[derive(Clone, Debug, Serialize, Deserialize)]
pub struct CrossingCase {
  pub proto: Proto,
  /// milliseconds from "now" to the claim's instant (the first parse happens before it)
  pub lead_ms: u32,
  /// fractional digits written (3..=9)
  pub digits: u8,
  /// what this thread's parsers have been through before the parser under test is created: 0 nothing; 1 an authentic
  /// token whose payload is not JSON; 2 authentic tokens with a non-object payload and with ill-typed exp / nbf;
  /// 3 an expired and a not-yet-valid token; 4 unauthenticated and garbage tokens; 5 all of these
  #[serde(default)]
  pub before: u8,
}

/// Parses that fail (or succeed) for their own reasons, on the calling thread, through fresh default and generic parsers.
pub fn thread_history(p: Proto, lk: &LibKeys, kind: u8) {
  let nonce = &[9u8; 32][..if p == Proto::V2L { 24 } else { 32 }];
  let mut payloads: Vec<String> = vec![];
  if kind == 1 || kind >= 5 {
    payloads.push("this is not json".into());
    payloads.push("{\"exp\":".into());
  }
  if kind == 2 || kind >= 5 {
    payloads.extend(["[1,2]", "\"text\"", "{\"exp\":12345}", "{\"nbf\":true,\"exp\":[]}", "{\"exp\":\"never\"}"].map(String::from));
  }
  if kind == 3 || kind >= 5 {
    payloads.extend(["{\"exp\":\"1999-01-01T00:00:00Z\"}", "{\"nbf\":\"2999-01-01T00:00:00Z\"}"].map(String::from));
  }
  for pl in &payloads {
    if let Ok(t) = core_build(lk, nonce, pl, None, None) {
      let _ = new_parser(p, Layer::Prelude).parse(&t, lk);
      let _ = new_parser(p, Layer::Generic).parse(&t, lk);
    }
  }
  if kind >= 5 {
    let _ = callbacks_misbehave(p, lk, 7);
  }
  if kind == 4 || kind >= 5 {
    if let Ok(t) = core_build(lk, nonce, "{\"exp\":\"2999-01-01T00:00:00Z\"}", None, None) {
      let mut broken = t.clone();
      broken.pop();
      for bad in [broken.as_str(), "v4.local.AAAA", "", "garbage"] {
        let _ = new_parser(p, Layer::Prelude).parse(bad, lk);
      }
      let mut with_footer = new_parser(p, Layer::Prelude);
      with_footer.footer("a footer the token does not carry");
      let _ = with_footer.parse(&t, lk);
    }
  }
}

/// One parser object parses the same token before and after the clock has passed the claim's instant.
pub struct ClockCrossing {
  pub pid: &'static str,
}

impl Sub for ClockCrossing {
  type Case = CrossingCase;
  fn name(&self) -> String {
    format!("{}/clock-crossing", self.pid)
  }
  fn check(&self, c: &CrossingCase, cl: &mut Classes) -> Verdict {
    let p = c.proto;
    let key = if self.pid == "C11" { "exp" } else { "nbf" };
    let start = tgen::now();
    let at_ns = start.0 as i128 * 1_000_000_000 + start.1 as i128 + c.lead_ms as i128 * 1_000_000;
    let (s, n) = ((at_ns / 1_000_000_000) as i64, (at_ns % 1_000_000_000) as u32);
    let text = tgen::render(s, n, &Rendering { offset_min: 0, digits: c.digits.clamp(3, 9), sep: 0, zulu: 1 });
    let payload = json!({ key: text, "data": "crossing" }).to_string();
    let km = keys::material(p, &[6u8; 32]);
    let lk = km.lib().expect("valid key");
    let token = match core_build(&lk, &[4u8; 32][..if p == Proto::V2L { 24 } else { 32 }], &payload, None, None) {
      Ok(t) => t,
      Err(_) => return Verdict::Discard,
    };
    cl.tag(p.label());
    cl.nontrivial(true);
    if c.before > 0 && c.before != 7 {
      thread_history(p, &lk, c.before);
      cl.tag(format!("thread-history:{}", c.before.min(5)));
    }
    let mut parser = new_parser(p, Layer::Prelude);
    let first = parser.parse(&token, &lk); // inside the margin: not judged
    cl.tag(format!("first-parse:{}", if first.is_ok() { "accepted" } else { "rejected" }));
    if c.before == 7 {
      // application callbacks panic on this thread right before the wait: whatever they leave behind must not outlive them
      let _ = callbacks_misbehave(p, &lk, 1);
      cl.tag("thread-history:callbacks-panic-before-the-wait");
    }
    // wait until the instant is at least 2.1 s in the past
    let target = std::time::Duration::from_millis(c.lead_ms as u64 + 2100);
    let elapsed = {
      let now = tgen::now();
      let ns = (now.0 as i128 - start.0 as i128) * 1_000_000_000 + (now.1 as i128 - start.1 as i128);
      std::time::Duration::from_nanos(ns.max(0) as u64)
    };
    if target > elapsed {
      std::thread::sleep(target - elapsed);
    }
    let second = parser.parse(&token, &lk);
    let fresh = new_parser(p, Layer::Prelude).parse(&token, &lk);
    if self.pid == "C11" {
      if fresh.is_ok() {
        vio!("C11:accepted:exp:past:timestamp"; "a fresh default parser accepted a token whose exp {} is more than 2 s in the past", text);
      }
      if second.is_ok() {
        vio!("C11:accepted-after-expiry-by-reused-parser:{}", p.label(); "a parser that had parsed the token before its exp ({}) still accepted it {} ms later, after it expired", text, target.as_millis());
      }
    } else {
      if let Err(e) = &fresh {
        vio!("C12:rejected-valid:{}:exp=absent:nbf=past", e.variant; "a fresh default parser rejected a token whose nbf {} is more than 2 s in the past: {}", text, e.text);
      }
      if let Err(e) = &second {
        vio!("C12:rejected-after-nbf-by-reused-parser:{}", p.label(); "a parser that had parsed the token before its nbf ({}) still rejected it {} ms later: {}", text, target.as_millis(), e.text);
      }
    }
    Verdict::Pass
  }
}

// ---------------------------------------------------------------- many parsers validating at the same time

/// `threads` parsers are held inside an application validator (each on its own thread, all at once) while one more
/// default parser judges tokens: what the others are doing is none of its business.
#[derive(Clone, Debug, Serialize, Deserialize)]
pub struct BusyCase {
  pub proto: Proto,
  pub threads: u8,
}
pub struct WhileOthersValidate {
  pub pid: &'static str,
}

static GATE_OPEN: std::sync::atomic::AtomicBool = std::sync::atomic::AtomicBool::new(false);
static WAITING: std::sync::atomic::AtomicUsize = std::sync::atomic::AtomicUsize::new(0);
fn validator_that_waits(_k: &str, _v: &Value) -> Result<(), rusty_paseto::prelude::PasetoClaimError> {
  WAITING.fetch_add(1, std::sync::atomic::Ordering::SeqCst);
  let t0 = std::time::Instant::now();
  while !GATE_OPEN.load(std::sync::atomic::Ordering::SeqCst) && t0.elapsed() < std::time::Duration::from_secs(5) {
    std::thread::sleep(std::time::Duration::from_millis(1));
  }
  Ok(())
}

impl Sub for WhileOthersValidate {
  type Case = BusyCase;
  fn name(&self) -> String {
    format!("{}/while-other-parsers-validate", self.pid)
  }
  fn check(&self, c: &BusyCase, cl: &mut Classes) -> Verdict {
    use rusty_paseto::prelude::ValidatorFn;
    static SERIAL: std::sync::Mutex<()> = std::sync::Mutex::new(());
    let _one_at_a_time = SERIAL.lock().unwrap_or_else(|e| e.into_inner());
    let p = c.proto;
    let km = keys::material(p, &[8u8; 32]);
    let lk = km.lib().expect("valid key");
    let nonce = &[4u8; 32][..if p == Proto::V2L { 24 } else { 32 }];
    let mk = |payload: &str| core_build(&lk, nonce, payload, None, None).ok();
    let (busy, fut, none, past, nbf_future) = match (mk("{\"jti\":\"busy\"}"), mk("{\"exp\":\"2999-01-01T00:00:00Z\"}"), mk("{\"sub\":\"no exp\"}"), mk("{\"exp\":\"1999-01-01T00:00:00Z\"}"), mk("{\"nbf\":\"2999-01-01T00:00:00Z\"}")) {
      (Some(a), Some(b), Some(c2), Some(d), Some(e)) => (a, b, c2, d, e),
      _ => return Verdict::Discard,
    };
    GATE_OPEN.store(false, std::sync::atomic::Ordering::SeqCst);
    WAITING.store(0, std::sync::atomic::Ordering::SeqCst);
    let n = c.threads.clamp(1, 32) as usize;
    cl.tag(format!("{}:{}-parsers-inside-a-validator", p.label(), n));
    cl.nontrivial(true);
    let jti = ClaimSpec::Jti("busy".into());
    let verdicts = std::thread::scope(|sc| {
      for _ in 0..n {
        sc.spawn(|| {
          let km2 = keys::material(p, &[8u8; 32]);
          let lk2 = km2.lib().expect("valid key");
          let waits: &'static ValidatorFn = &validator_that_waits;
          let mut parser = new_parser(p, Layer::Generic);
          let _ = parser.validate(&jti, waits);
          let _ = parser.parse(&busy, &lk2);
        });
      }
      let t0 = std::time::Instant::now();
      while WAITING.load(std::sync::atomic::Ordering::SeqCst) < n && t0.elapsed() < std::time::Duration::from_secs(4) {
        std::thread::sleep(std::time::Duration::from_millis(1));
      }
      let r = [&fut, &none, &past, &nbf_future].map(|t| new_parser(p, Layer::Prelude).parse(t, &lk).map(|_| ()).map_err(|e| e.text));
      GATE_OPEN.store(true, std::sync::atomic::Ordering::SeqCst);
      r
    });
    let [r_fut, r_none, r_past, r_nbf] = verdicts;
    if let Err(e) = r_fut {
      vio!("{}:rejected-valid:while-others-validate:exp=future", self.pid; "with {} other parsers inside their validators, the default parser rejected a token whose exp is 2999: {}", n, e);
    }
    if let Err(e) = r_none {
      vio!("{}:rejected-valid:while-others-validate:exp=absent", self.pid; "with {} other parsers inside their validators, the default parser rejected a token without exp / nbf: {}", n, e);
    }
    if r_past.is_ok() {
      vio!("{}:accepted:exp:past:while-others-validate", self.pid; "with {} other parsers inside their validators, the default parser accepted a token that expired in 1999", n);
    }
    if r_nbf.is_ok() {
      vio!("{}:accepted:nbf:future:while-others-validate", self.pid; "with {} other parsers inside their validators, the default parser accepted a token not valid before 2999", n);
    }
    Verdict::Pass
  }
}

pub fn crossing_cases() -> Vec<CrossingCase> {
  let mut v = vec![];
  for (i, proto) in [Proto::V4L, Proto::V2P, Proto::V3L, Proto::V1L].into_iter().enumerate() {
    v.push(CrossingCase { proto, lead_ms: 1100 + 150 * i as u32, digits: 3 + 2 * i as u8, before: 0 });
  }
  // the same with parsers of this thread having failed in various ways beforehand
  for (i, proto) in [Proto::V4L, Proto::V4P, Proto::V2L, Proto::V3L].into_iter().enumerate() {
    v.push(CrossingCase { proto, lead_ms: 1500 + 100 * i as u32, digits: 9 - i as u8, before: [1u8, 2, 5, 4][i] });
  }
  v.push(CrossingCase { proto: Proto::V4L, lead_ms: 1300, digits: 6, before: 7 });
  v.push(CrossingCase { proto: Proto::V2P, lead_ms: 1700, digits: 4, before: 7 });
  v
}

/// Many parses in a tight loop while the clock runs across the claim's instant, a fresh token and a fresh crossing every few
/// hundred microseconds: every parse returns (never unwinds), and the verdict flips ONCE - an exp token is accepted, then
/// refused for good; an nbf token is refused, then accepted for good. Whatever the library computes from two readings of the
/// clock (a remaining time, an age) sees every order of the two readings relative to the instant here.
#[derive(Clone, Debug, Serialize, Deserialize)]
pub struct TightCase {
  pub proto: Proto,
  pub lead_us: u32,
  pub crossings: u32,
}
pub struct TightCrossing {
  pub pid: &'static str,
}
impl Sub for TightCrossing {
  type Case = TightCase;
  fn name(&self) -> String {
    format!("{}/tight-loop-across-the-instant", self.pid)
  }
  fn check(&self, c: &TightCase, cl: &mut Classes) -> Verdict {
    if clock_is_frozen() {
      return Verdict::Discard;
    }
    let p = c.proto;
    let key = if self.pid == "C11" { "exp" } else { "nbf" };
    let km = keys::material(p, &[6u8; 32]);
    let lk = km.lib().expect("valid key");
    let nonce = &[4u8; 32][..if p == Proto::V2L { 24 } else { 32 }];
    let mut flips = 0u32;
    let mut parses = 0u64;
    for round in 0..c.crossings.min(100_000) {
      let start = tgen::now();
      let at_ns = start.0 as i128 * 1_000_000_000 + start.1 as i128 + (c.lead_us as i128 + (round % 7) as i128 * 13) * 1_000;
      let (s, n) = ((at_ns / 1_000_000_000) as i64, (at_ns % 1_000_000_000) as u32);
      let text = tgen::render(s, n, &Rendering { offset_min: if round % 3 == 0 { 0 } else { 60 * (round as i16 % 11) - 300 }, digits: 9, sep: 0, zulu: if round % 3 == 0 { 1 } else { 0 } });
      let payload = json!({ key: text, "data": "tight" }).to_string();
      let token = match core_build(&lk, nonce, &payload, None, None) {
        Ok(t) => t,
        Err(_) => return Verdict::Discard,
      };
      // accepted so far? (exp: starts accepted, ends refused; nbf: the reverse)
      let mut flipped = false;
      let mut after_flip = 0;
      for _ in 0..20_000 {
        let r = catch(|| new_parser(p, Layer::Prelude).parse(&token, &lk).is_ok());
        parses += 1;
        let accepted = match r {
          Ok(a) => a,
          Err((loc, msg)) => vio!("{}:panic-at-the-boundary:{}", self.pid, loc; "PasetoParser::default() panicked at {} while the clock ran across the token's {} ({}): {}", loc, key, text, msg),
        };
        let now_after = accepted == (key == "nbf");
        if flipped && !now_after && self.pid != "C09" {
          vio!("{}:verdict-flipped-back:{}", self.pid, p.label(); "a token with {} = {} was {} again after it had already been {} (parses a few microseconds apart, clock running forward)", key, text, if accepted { "accepted" } else { "refused" }, if accepted { "refused" } else { "accepted" });
        }
        if now_after {
          flipped = true;
          after_flip += 1;
          if after_flip >= 4 {
            break;
          }
        }
      }
      if flipped {
        flips += 1;
      }
    }
    cl.tag(format!("{}:crossings-with-a-flip={}", p.label(), if flips as u64 * 10 >= c.crossings as u64 * 9 { ">=90%" } else { "<90%" }));
    cl.tag(format!("parses-per-crossing={}", if parses / (c.crossings.max(1) as u64) >= 10 { ">=10" } else { "<10" }));
    cl.nontrivial(flips > 0);
    Verdict::Pass
  }
}

pub fn all_subs(pid: &'static str) -> Vec<DefaultTimeRules> {
  Proto::ALL.iter().map(|p| DefaultTimeRules { pid, proto: *p }).collect()
}

pub fn subs() -> Vec<Box<dyn DynSub>> {
  let mut v: Vec<Box<dyn DynSub>> = all_subs("C11").into_iter().map(|s| Box::new(s) as Box<dyn DynSub>).collect();
  v.push(Box::new(ClockCrossing { pid: "C11" }));
  v.push(Box::new(TightCrossing { pid: "C11" }));
  v.push(Box::new(WhileOthersValidate { pid: "C11" }));
  v
}

pub fn run_for(ctx: &Ctx, pid: &'static str, subs: &[DefaultTimeRules]) {
  let mut jobs: Vec<Job> = vec![];
  let child = ctx.is_clock_child();
  // four parsers live through the instant of their token's claim (each case sleeps ~3.5 s; they run side by side)
  let crossing: &'static ClockCrossing = Box::leak(Box::new(ClockCrossing { pid }));
  if !child {
    for case in crossing_cases() {
      jobs.push(Box::new(move || ctx.enumerate(crossing, std::iter::once(case), false)));
    }
    let tight: &'static TightCrossing = Box::leak(Box::new(TightCrossing { pid }));
    let crossings = ctx.n(400, 6000);
    for (proto, lead_us) in [(Proto::V4L, 150u32), (Proto::V2L, 400), (Proto::V4P, 900), (Proto::V3L, 250)] {
      jobs.push(Box::new(move || ctx.enumerate(tight, std::iter::once(TightCase { proto, lead_us, crossings }), false)));
    }
    let busy: &'static WhileOthersValidate = Box::leak(Box::new(WhileOthersValidate { pid }));
    jobs.push(Box::new(move || ctx.enumerate(busy, [(Proto::V4L, 12u8), (Proto::V2P, 24), (Proto::V3L, 3)].into_iter().map(|(proto, threads)| BusyCase { proto, threads }), false)));
    // the same rules with the wall clock SET to calendar boundaries (child processes under tools/fakeclock.c)
    jobs.push(Box::new(move || ctx.clock_children(&crate::tgen::special_clocks(ctx.quick()))));
  }
  for s in subs {
    if s.proto == Proto::V4L || s.proto == Proto::V2P {
      jobs.push(Box::new(move || ctx.enumerate(s, grid(pid, s.proto).into_iter(), false)));
    }
    let n = match s.proto {
      Proto::V4L => ctx.n(30_000, 300_000),
      p if p.is_local() => ctx.n(5000, 50_000),
      Proto::V2P | Proto::V4P => ctx.n(3000, 30_000),
      Proto::V1P => ctx.n(1000, 10_000),
      _ => ctx.n(300, 3_000),
    };
    jobs.push(Box::new(move || ctx.prop(s, case(pid, s.proto), n)));
  }
  run_jobs(jobs);
}

pub fn run(ctx: &Ctx) -> EvidenceMeta {
  let subs = all_subs("C11");
  run_for(ctx, "C11", &subs);
  EvidenceMeta {
    rule: "authentic tokens of every protocol whose JSON payload is crafted through the core layer; exp is absent, null, a past instant (now - d, d log-uniform in [2 s, back to 1971]), a future instant (now + d, d in [60 s, up to year 9000]) \
           rendered with UTC offsets -23:59..+23:59 or Z/z, 0-9 fractional digits, separator T/space/t, or a non-timestamp value (numbers, booleans, arrays, objects, empty string, text not starting with a digit or sign); a deterministic grid covers every offset hour. \
           Oracle (model): PasetoParser::default() must reject every past exp and every non-timestamp exp with a claim error, must accept absent exp and strictly rendered future exp (returning the payload's JSON); lenient renderings of a future instant and JSON null are don't-care. \
           Non-trivial = exp present; distinct by (class, distance, rendering, protocol). Instants within 2 s (past) / 60 s (future) of now are not generated."
      .into(),
    assumptions: vec!["reads the wall clock (as the library does); margins of >= 2 s / >= 60 s keep the verdict independent of the exact time".into(), "the boundary instant itself (< vs <=) is not decided".into()],
  }
}
