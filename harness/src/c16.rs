//! C16 – custom validators see only authenticated values and their verdict is honoured.
use crate::engine::*;
use crate::gen;
use crate::keys;
use crate::proto::*;
use proptest::collection::vec;
use proptest::prelude::*;
use rusty_paseto::prelude::{PasetoClaimError, ValidatorFn};
use serde::{Deserialize, Serialize};
use serde_json::{json, Value};
use std::cell::RefCell;

thread_local! {
  static CONFIG: RefCell<[u8; 8]> = RefCell::new([0; 8]);
  static LOG: RefCell<Vec<(u8, String, Value)>> = RefCell::new(vec![]);
}

/// behaviours (kind % 5): 0 accept, 1 reject, 2 accept iff string, 3 accept iff even integer, 4 accept iff null (claim absent);
/// kind / 5 selects HOW a validator that does not accept refuses: one of six error variants, or (6, 7) by panicking -
/// with a message / with a typed value (an application bug; the caller contains the unwind)
fn refuses_by_panicking(kind: u8) -> bool {
  (kind / 5) % 8 >= 6
}
fn behaves(kind: u8, v: &Value) -> bool {
  match kind % 5 {
    0 => true,
    1 => false,
    2 => v.is_string(),
    3 => v.as_i64().map(|i| i % 2 == 0).unwrap_or(false),
    _ => v.is_null(),
  }
}

fn vcall(id: u8, key: &str, v: &Value) -> Result<(), PasetoClaimError> {
  LOG.with(|l| l.borrow_mut().push((id, key.to_string(), v.clone())));
  let kind = CONFIG.with(|c| c.borrow()[id as usize]);
  if behaves(kind, v) {
    Ok(())
  } else {
    if (kind / 5) % 8 == 6 {
      panic!("harness validator {id}: refusing by panicking");
    }
    if (kind / 5) % 8 == 7 {
      std::panic::panic_any(Refusal(400 + id as u16));
    }
    Err(match (kind / 5) % 8 {
      0 => PasetoClaimError::CustomValidation(key.to_string()),
      1 => PasetoClaimError::Unexpected(key.to_string()),
      2 => PasetoClaimError::Invalid(key.to_string(), "something else".to_string(), v.to_string()),
      3 => PasetoClaimError::Missing(key.to_string()),
      4 => PasetoClaimError::Expired,
      _ => PasetoClaimError::RFC3339Date(v.to_string()),
    })
  }
}

macro_rules! vfn {
  ($name:ident, $id:expr) => {
    fn $name(k: &str, v: &Value) -> Result<(), PasetoClaimError> {
      vcall($id, k, v)
    }
  };
}
vfn!(v0, 0);
vfn!(v1, 1);
vfn!(v2, 2);
vfn!(v3, 3);
vfn!(v4, 4);
vfn!(v5, 5);
vfn!(v6, 6);
vfn!(v7, 7);
const VALIDATORS: [&ValidatorFn; 8] = [&v0, &v1, &v2, &v3, &v4, &v5, &v6, &v7];

// the last four look like paths / pointers / indices into the payload: a validator registered under such a name is a
// validator for a member of exactly that name (normally absent), never for the member the "path" would lead to
const KEYS: [&str; 23] = ["iss", "sub", "aud", "jti", "a", "b", "c", "iat", "é", "exp", "nbf", "/iss", "/a", "a.b", "0",
  // names that differ from the ones above only by characters that do not render, or by their width: keys of their own
  "a\u{200b}", "\u{2060}b", "c\u{fe0f}", "s\u{200d}ub", "is\u{ad}s", "\u{ff41}", "\u{ff49}\u{ff53}\u{ff53}", "e\u{301}"];

#[derive(Clone, Debug, Serialize, Deserialize, PartialEq)]
pub enum Corruption {
  None,
  FlipBit(u32),
  WrongKey,
  WrongFooter,
  WrongAssertion,
  WrongHeader,
  Truncate(u8),
}

#[derive(Clone, Debug, Serialize, Deserialize)]
pub struct TokVar {
  pub members: Vec<(u8, Value)>,
  pub corruption: Corruption,
  /// when set the authentic payload is valid JSON but not an object: 0 array, 1 string, 2 number, 3 null, 4 bool
  #[serde(default)]
  pub non_object: Option<u8>,
}

#[derive(Clone, Debug, Serialize, Deserialize)]
pub struct ValCase {
  pub proto: Proto,
  pub layer: Layer,
  #[serde(with = "gen::hexser")]
  pub seed: Vec<u8>,
  /// (key index, behaviour) – at most one validator per key; validator id = position
  pub validators: Vec<(u8, u8)>,
  pub tokens: Vec<TokVar>,
  pub footer: Option<String>,
  pub assertion: Option<String>,
  /// register odd-numbered validators with check_claim + extend_validation_claims (generic parser only)
  #[serde(default)]
  pub via_extend: bool,
  /// validators with index >= `late_from` are registered only after the first parse of the history
  /// (validate_claim, or check_claim + extend_validation_claims) - they must be honoured from then on
  #[serde(default)]
  pub late_from: Option<u8>,
  /// expected claims registered with check_claim next to the validators, on keys that have no validator:
  /// (key index, relation of the payload member to the expected value E: 0 equal, 1 an array that contains E, 2 another value, 3 absent).
  /// They only matter here in one respect: whatever they decide, a rejecting validator's verdict stands.
  #[serde(default)]
  pub checks: Vec<(u8, u8)>,
}

pub struct Validators {
  pub proto: Proto,
  pub layer: Layer,
}

impl Sub for Validators {
  type Case = ValCase;
  fn name(&self) -> String {
    format!("C16/{}/{}", self.proto.label(), self.layer.label())
  }
  fn check(&self, c: &ValCase, cl: &mut Classes) -> Verdict {
    let p = c.proto;
    let seed = gen::arr32(&c.seed);
    let km = keys::material(p, &seed);
    let lk = km.lib().expect("valid key");
    let mut other_seed = seed;
    other_seed[0] ^= 0x55;
    other_seed[7] ^= 0x01;
    if p == Proto::V1P && keys::rsa_index(&other_seed) == keys::rsa_index(&seed) {
      other_seed[0] = other_seed[0].wrapping_add(1);
    }
    let km2 = keys::material(p, &other_seed);
    let lk2 = km2.lib().expect("valid key");
    let assertion = if p.has_assertion() { c.assertion.as_deref() } else { None };
    // distinct keys
    let mut vals: Vec<(usize, String, u8)> = vec![];
    for (ki, kind) in c.validators.iter().take(8) {
      let k = KEYS[(*ki as usize) % KEYS.len()].to_string();
      if vals.iter().any(|(_, kk, _)| *kk == k) {
        continue;
      }
      vals.push((vals.len(), k, *kind));
    }
    let mut checks: Vec<(String, u8)> = vec![];
    for (ki, rel) in c.checks.iter().take(3) {
      let k = KEYS[(*ki as usize) % KEYS.len()].to_string();
      if ["exp", "nbf", "iat"].contains(&k.as_str()) || vals.iter().any(|(_, kk, _)| *kk == k) || checks.iter().any(|(kk, _)| *kk == k) {
        continue;
      }
      checks.push((k, *rel % 4));
    }
    let expected_of = |k: &str| format!("member-{k}");
    let checks_hold = checks.iter().all(|(_, rel)| *rel == 0);
    CONFIG.with(|cfg| {
      let mut cfg = cfg.borrow_mut();
      *cfg = [0; 8];
      for (id, _, kind) in &vals {
        cfg[*id] = *kind;
      }
    });
    // claim objects the validators are registered with (their values are irrelevant)
    let claim_specs: Vec<ClaimSpec> = vals
      .iter()
      .map(|(id, k, _)| match k.as_str() {
        // every other validator on a registered claim is registered the way the crate's documentation does it: with `XClaim::default()`
        reg if id % 2 == 1 && DEFAULT_KEYS.contains(&reg) => ClaimSpec::DefaultOf(DEFAULT_KEYS.iter().position(|d| *d == reg).unwrap() as u8),
        "iss" => ClaimSpec::Iss("expected-issuer".into()),
        "sub" => ClaimSpec::Sub(String::new()),
        "aud" => ClaimSpec::Aud("x".into()),
        "jti" => ClaimSpec::Jti("y".into()),
        "iat" => ClaimSpec::Iat("2020-01-01T00:00:00Z".into()),
        // a caller's own rule for exp / nbf (on the batteries-included parser it takes the place of the default rule)
        "exp" => ClaimSpec::Exp("2020-01-01T00:00:00Z".into()),
        "nbf" => ClaimSpec::NbfOwned("2020-01-01T00:00:00Z".into()),
        // the claim object a validator is registered with is only a carrier for the key; here its VALUE is one that
        // serde_json cannot hold (u128::MAX, i128::MIN, a map keyed by tuples): the parse may then fail for that reason,
        // but it may not succeed with the validator left out
        other if c.seed[5] % 4 == 0 && id % 2 == 1 => ClaimSpec::Native(other.to_string(), NativeVal::Unholdable(c.seed[6])),
        // or it is a caller-defined claim type whose serialised form is not {key: value}: its member carries another name,
        // there are several members, or none - the key it is registered under is what `get_key()` says
        other if c.seed[5] % 4 == 1 && id % 2 == 1 => ClaimSpec::Shaped(other.to_string(), json!({ "member-under-another-name": 1, "sub": "x", "list": [other] })),
        other if c.seed[5] % 4 == 2 && id % 2 == 1 => ClaimSpec::Shaped(other.to_string(), if c.seed[6] % 2 == 0 { json!({}) } else { json!({ other: 1, "sibling": 2 }) }),
        other if id % 2 == 0 => ClaimSpec::Custom(other.to_string(), json!(1)),
        other => ClaimSpec::Any(other.to_string(), Value::Null),
      })
      .collect();
    // tokens
    let mut built: Vec<(String, serde_json::Map<String, Value>, &Corruption)> = vec![];
    let late_from0 = c.late_from.map(|l| l as usize).unwrap_or(usize::MAX);
    let n_tokens = c.tokens.len();
    for (ti, tv) in c.tokens.iter().enumerate() {
      // validators in force when this token is parsed (late ones join after the first parse)
      let in_force = |vk: &str| vals.iter().any(|(id, k, _)| k == vk && (!(*id >= late_from0 && n_tokens > 1) || ti >= 1));
      let mut o = serde_json::Map::new();
      for (ki, v) in &tv.members {
        let k = KEYS[(*ki as usize) % KEYS.len()];
        // the batteries-included parser keeps its own rule for exp / nbf unless the caller registered one:
        // such members stay out of the payload so that the model below is only about the caller's validators
        if c.layer == Layer::Prelude && (k == "exp" || k == "nbf") && !in_force(k) {
          continue;
        }
        o.insert(k.to_string(), v.clone());
      }
      for (k, rel) in &checks {
        match rel {
          0 => o.insert(k.clone(), json!(expected_of(k))),
          1 => o.insert(k.clone(), json!([expected_of(k), "another"])),
          2 => o.insert(k.clone(), json!("zzz")),
          _ => o.remove(k),
        };
      }
      let (payload, o) = match tv.non_object {
        Some(k) => (
          match k % 5 {
            0 => Value::Array(o.values().cloned().collect()).to_string(),
            1 => "\"a string payload\"".to_string(),
            2 => "42".to_string(),
            3 => "null".to_string(),
            _ => "true".to_string(),
          },
          serde_json::Map::new(), // no member is visible to a validator
        ),
        None => (Value::Object(o.clone()).to_string(), o),
      };
      let t = match core_build(&lk, &[2u8; 32][..if p == Proto::V2L { 24 } else { 32 }], &payload, c.footer.as_deref(), assertion) {
        Ok(t) => t,
        Err(_) => return Verdict::Discard,
      };
      let t = match &tv.corruption {
        Corruption::FlipBit(i) => {
          let (h, ps, fs) = split_token(&t).unwrap();
          let mut b = unb64(&ps).unwrap();
          let i = (*i as usize) % (b.len() * 8);
          b[i / 8] ^= 1 << (i % 8);
          join_token(&h, &b, fs.as_deref())
        }
        Corruption::WrongHeader => {
          let (h, ps, fs) = split_token(&t).unwrap();
          let other = Proto::ALL.iter().find(|q| **q != p && q.is_local() == p.is_local()).unwrap();
          let _ = h;
          match fs {
            Some(f) => format!("{}{}.{}", other.header(), ps, f),
            None => format!("{}{}", other.header(), ps),
          }
        }
        Corruption::Truncate(n) => {
          let (h, ps, fs) = split_token(&t).unwrap();
          let b = unb64(&ps).unwrap();
          let keep = b.len().saturating_sub(1 + (*n as usize) % 40);
          join_token(&h, &b[..keep], fs.as_deref())
        }
        _ => t,
      };
      built.push((t, o, &tv.corruption));
    }
    let check_specs: Vec<ClaimSpec> = checks
      .iter()
      .map(|(k, _)| match k.as_str() {
        "iss" => ClaimSpec::Iss(expected_of(k)),
        "sub" => ClaimSpec::Sub(expected_of(k)),
        "aud" => ClaimSpec::Aud(expected_of(k)),
        "jti" => ClaimSpec::Jti(expected_of(k)),
        other => ClaimSpec::Custom(other.to_string(), json!(expected_of(other))),
      })
      .collect();
    let tv_non_object: Vec<Option<u8>> = c.tokens.iter().map(|t| t.non_object).collect();
    let mut parser = new_parser(p, c.layer);
    let wrong_footer = format!("{}x", c.footer.clone().unwrap_or_default());
    let wrong_assertion = format!("{}x", c.assertion.clone().unwrap_or_default());
    if let Some(f) = c.footer.as_deref() {
      parser.footer(f);
    }
    if let Some(a) = assertion {
      parser.assertion(a);
    }
    let late_from = c.late_from.map(|l| l as usize).unwrap_or(usize::MAX);
    for ((id, k, _), spec) in vals.iter().zip(claim_specs.iter()) {
      if *id >= late_from && built.len() > 1 {
        continue; // registered after the first parse, below
      }
      if c.via_extend && id % 2 == 1 && c.layer == Layer::Generic {
        // the other public way: the claim is checked, its validator arrives through extend_validation_claims
        // (the two calls in either order: they are independent settings)
        let validator_first = c.seed[8] % 2 == 1;
        if validator_first && !parser.extend_validators(&[(k.clone(), VALIDATORS[*id])]) {
          return Verdict::Discard;
        }
        if parser.check(spec).is_err() || (!validator_first && !parser.extend_validators(&[(k.clone(), VALIDATORS[*id])])) {
          return Verdict::Discard;
        }
        cl.tag(if validator_first { "registered-via-extend_validation_claims:validator-before-claim" } else { "registered-via-extend_validation_claims" });
      } else if parser.validate(spec, VALIDATORS[*id]).is_err() {
        return Verdict::Discard;
      } else if c.via_extend && id % 3 == 2 && c.layer == Layer::Generic {
        // ... and the same key is then listed once more in a bulk registration of expected claims, followed by the validator
        // again: one key, one validator, whatever the order and number of registrations
        let _ = if c.seed[7] % 2 == 0 { parser.extend_checks(&[(k.clone(), Value::Null)]) } else { parser.extend_checks_verbatim(&[(k.clone(), json!({ "boxed-claim-has-another-name": 1 }))]) };
        let _ = parser.extend_validators(&[(k.clone(), VALIDATORS[*id])]);
        cl.tag("key-registered-again-through-extend_check_claims");
      }
    }
    for spec in &check_specs {
      if parser.check(spec).is_err() {
        return Verdict::Discard;
      }
    }
    if !checks.is_empty() {
      cl.tag(if checks_hold { "expected-claims-too:all-hold" } else { "expected-claims-too:some-fail" });
    }
    cl.tag(format!("{}:{}", p.label(), c.layer.label()));
    cl.tag(format!("validators={}", vals.len()));
    let mut interesting = false;
    let mut active: Vec<(usize, String, u8)> = vals.iter().filter(|(id, _, _)| !(*id >= late_from && built.len() > 1)).cloned().collect();
    for (i, (t, payload, corruption)) in built.iter().enumerate() {
      if i == 1 && active.len() < vals.len() {
        for ((id, k, kind), spec) in vals.iter().zip(claim_specs.iter()) {
          if *id >= late_from {
            // the late registration goes through validate_claim, or - generic parser - only through the two extend_* entry points
            let ok = if c.via_extend && c.layer == Layer::Generic {
              parser.extend_checks(&[(k.clone(), Value::Null)]) && parser.extend_validators(&[(k.clone(), VALIDATORS[*id])])
            } else {
              parser.validate(spec, VALIDATORS[*id]).is_ok()
            };
            if !ok {
              return Verdict::Discard;
            }
            active.push((*id, k.clone(), *kind));
          }
        }
        cl.tag("validator-registered-between-parses");
      }
      let vals = active.clone();
      LOG.with(|l| l.borrow_mut().clear());
      // per-parse overrides for the wrong-footer / wrong-assertion / wrong-key variants need their own parser
      // the parse is contained: a validator of this case may refuse by panicking (its unwind comes back here); a panic that
      // started in the library is a violation like anywhere else
      if **corruption == Corruption::WrongAssertion && !p.has_assertion() {
        continue;
      }
      let contained = crate::engine::catch(|| match corruption {
        Corruption::WrongKey => parser.parse(t, &lk2),
        Corruption::WrongFooter | Corruption::WrongAssertion => {
          let mut p2 = new_parser(p, c.layer);
          if **corruption == Corruption::WrongFooter {
            p2.footer(&wrong_footer);
            if let Some(a) = assertion {
              p2.assertion(a);
            }
          } else {
            if let Some(f) = c.footer.as_deref() {
              p2.footer(f);
            }
            p2.assertion(&wrong_assertion);
          }
          for (id, _, _) in vals.iter() {
            let _ = p2.validate(&claim_specs[*id], VALIDATORS[*id]);
          }
          p2.parse(t, &lk)
        }
        _ => parser.parse(t, &lk),
      });
      let log: Vec<(u8, String, Value)> = LOG.with(|l| l.borrow().clone());
      let r = match contained {
        Ok(r) => r,
        Err((loc, msg)) if loc.starts_with("harness:") => {
          // an application validator panicked: allowed only if one of those in force refuses this payload by panicking
          let expected = **corruption == Corruption::None && vals.iter().any(|(_, k, kind)| refuses_by_panicking(*kind) && !behaves(*kind, &payload.get(k).cloned().unwrap_or(Value::Null)));
          if !expected {
            vio!("C16:validator-ran-on-unauthenticated-token:{}", c.layer.label(); "token #{} ({:?}): a validator was called (and panicked: {}) although no panicking validator should have run - log {:?}", i + 1, corruption, msg, log);
          }
          cl.tag("authentic:validator-panicked");
          interesting = true;
          continue;
        }
        Err((loc, msg)) => vio!("C16:panic:{}", loc; "parse #{} panicked inside the library at {}: {}", i + 1, loc, msg),
      };
      cl.tag(format!("token:{}", match corruption { Corruption::None => "authentic", Corruption::FlipBit(_) => "bit-flipped", Corruption::WrongKey => "wrong-key", Corruption::WrongFooter => "wrong-footer", Corruption::WrongAssertion => "wrong-assertion", Corruption::WrongHeader => "wrong-header", Corruption::Truncate(_) => "truncated" }));
      if **corruption != Corruption::None {
        interesting = true;
        if !log.is_empty() {
          vio!("C16:validator-ran-on-unauthenticated-token:{}", c.layer.label(); "token #{} ({:?}) did not authenticate, yet validators were called: {:?}", i + 1, corruption, log);
        }
        match r {
          Err(e) if e.before_plaintext() => {}
          Err(e) => vio!("C16:unauthenticated-token-late-error:{}:{}", c.layer.label(), e.variant; "token #{} ({:?}) was rejected only by {}", i + 1, corruption, e.text),
          Ok(_) => vio!("C16:unauthenticated-token-accepted:{}", c.layer.label(); "token #{} ({:?}) was accepted", i + 1, corruption),
        }
        continue;
      }
      // authentic token
      let mut model_rejects = vec![];
      for (id, k, kind) in &vals {
        let v = payload.get(k).cloned().unwrap_or(Value::Null);
        if !behaves(*kind, &v) {
          model_rejects.push((*id, k.clone()));
        }
        if kind % 5 != 0 {
          interesting = true;
        }
      }
      for (id, k, v) in &log {
        let reg = vals.iter().find(|(i2, _, _)| *i2 == *id as usize);
        match reg {
          Some((_, rk, _)) if rk == k => {}
          _ => vio!("C16:validator-called-with-wrong-key"; "validator {} registered for {:?} was called with key {:?}", id, reg.map(|r| r.1.clone()), k),
        }
        let actual = payload.get(k).cloned().unwrap_or(Value::Null);
        if *v != actual {
          vio!("C16:validator-saw-wrong-value:{}", c.layer.label(); "validator for {:?} was called with {} but the payload has {} (payload {})", k, v, actual, Value::Object(payload.clone()));
        }
      }
      for (id, k, _) in &vals {
        let n = log.iter().filter(|(i2, _, _)| *i2 as usize == *id).count();
        if n > 1 {
          vio!("C16:validator-ran-twice"; "validator for {:?} ran {} times in one parse", k, n);
        }
      }
      // expected claims registered next to the validators: when one of them does not hold (or the payload is no object) the
      // parse may fail for that reason - then only "a rejecting validator is never overruled" is judged here
      let checks_ok = checks.is_empty() || (checks_hold && tv_non_object[i].is_none());
      if !checks_ok {
        if r.is_ok() && !model_rejects.is_empty() {
          vio!("C16:rejecting-validator-ignored:{}", c.layer.label(); "validators for {:?} must reject payload {} but parse #{} succeeded (expected claims {:?} were registered too; log {:?})", model_rejects, Value::Object(payload.clone()), i + 1, checks, log);
        }
        continue;
      }
      let unholdable = claim_specs.iter().zip(vals.iter()).any(|(sp, _)| matches!(sp, ClaimSpec::Native(_, NativeVal::Unholdable(_))));
      if unholdable {
        cl.tag("validator-registered-with-a-value-json-cannot-hold");
        if r.is_err() {
          continue; // refusing to work with such a registration (with whatever error) is not judged
        }
      }
      match (&r, model_rejects.is_empty()) {
        (Ok(_), true) => {
          for (id, k, _) in &vals {
            if !log.iter().any(|(i2, _, _)| *i2 as usize == *id) {
              vio!("C16:validator-skipped:{}", c.layer.label(); "parse #{} succeeded but the validator registered for {:?} never ran (log {:?})", i + 1, k, log);
            }
          }
          cl.tag("authentic:accepted");
        }
        (Ok(_), false) => vio!("C16:rejecting-validator-ignored:{}", c.layer.label(); "validators for {:?} must reject payload {} but parse #{} succeeded (log {:?})", model_rejects, Value::Object(payload.clone()), i + 1, log),
        (Err(e), false) => {
          if e.class != ErrClass::Claim {
            vio!("C16:rejection-not-a-claim-error:{}", e.variant; "validator rejected but the error is {}", e.text);
          }
          cl.tag("authentic:rejected-by-validator");
        }
        (Err(e), true) => vio!("C16:all-validators-accept-but-parse-failed:{}:{}", c.layer.label(), e.variant; "every validator accepts payload {} yet parse #{} failed: {}", Value::Object(payload.clone()), i + 1, e.text),
      }
    }
    cl.nontrivial(!vals.is_empty() && interesting);
    Verdict::Pass
  }
}

fn member_value() -> BoxedStrategy<Value> {
  prop_oneof![3 => gen::jsonish(6).prop_map(Value::String), 3 => (-4i64..5).prop_map(|i| json!(i)), 1 => Just(Value::Null), 1 => any::<bool>().prop_map(Value::Bool), 1 => Just(json!([2])), 1 => Just(json!({"x": 2}))].boxed()
}

fn case(proto: Proto, layer: Layer) -> BoxedStrategy<ValCase> {
  let corruption = prop_oneof![
    6 => Just(Corruption::None),
    2 => any::<u32>().prop_map(Corruption::FlipBit),
    1 => Just(Corruption::WrongKey),
    1 => Just(Corruption::WrongFooter),
    1 => Just(Corruption::WrongAssertion),
    1 => Just(Corruption::WrongHeader),
    1 => any::<u8>().prop_map(Corruption::Truncate),
  ];
  // the batteries-included parser has its own validators for exp/nbf; iat (index 7) only carries plain values here
  let tok = (vec((0u8..23, member_value()), 0..5), corruption, prop_oneof![12 => Just(None), 1 => (0u8..5).prop_map(Some)]).prop_map(|(members, corruption, non_object)| TokVar { members, corruption, non_object });
  // histories: some tokens repeat the previous one verbatim (same text), authentic again or presented under a wrong key /
  // footer / assertion - a parser that remembers its last token must not behave differently
  let toks = vec((tok, 0u8..8), 1..=6).prop_map(|v| {
    let mut out: Vec<TokVar> = vec![];
    for (t, rep) in v {
      match (rep, out.last().cloned()) {
        (0, Some(prev)) => out.push(TokVar { members: prev.members, corruption: Corruption::None, non_object: prev.non_object }),
        (1, Some(prev)) => out.push(TokVar { members: prev.members, corruption: Corruption::WrongKey, non_object: prev.non_object }),
        (2, Some(prev)) => out.push(TokVar { members: prev.members, corruption: Corruption::WrongFooter, non_object: prev.non_object }),
        _ => out.push(t),
      }
    }
    out
  });
  let behaviour = prop_oneof![3 => 0u8..5, 2 => 5u8..30, 1 => 30u8..40];
  (gen::bytes32(), vec((0u8..23, behaviour), 0..5), toks, prop_oneof![Just(None), gen::jsonish(6).prop_map(Some)], prop_oneof![Just(None), gen::jsonish(6).prop_map(Some)], any::<bool>(), prop_oneof![3 => Just(None), 1 => (0u8..4).prop_map(Some)], prop_oneof![3 => Just(vec![]), 1 => vec((0u8..23, 0u8..4), 1..3)])
    .prop_map(move |(seed, validators, tokens, footer, assertion, via_extend, late_from, checks)| ValCase { proto, layer, seed, validators, tokens, footer, assertion, via_extend, late_from, checks })
    .boxed()
}

fn all_subs() -> Vec<Validators> {
  let mut v = vec![];
  for proto in Proto::ALL {
    for layer in [Layer::Generic, Layer::Prelude] {
      v.push(Validators { proto, layer });
    }
  }
  v
}

pub fn subs() -> Vec<Box<dyn DynSub>> {
  all_subs().into_iter().map(|s| Box::new(s) as Box<dyn DynSub>).collect()
}

pub fn run(ctx: &Ctx) -> EvidenceMeta {
  let subs = all_subs();
  let mut jobs: Vec<Job> = vec![];
  for s in &subs {
    let n = match s.proto {
      Proto::V4L | Proto::V2L => ctx.n(10_000, 100_000),
      p if p.is_local() => ctx.n(3500, 35_000),
      Proto::V2P | Proto::V4P => ctx.n(2000, 20_000),
      Proto::V1P => ctx.n(500, 5000),
      _ => ctx.n(150, 1500),
    };
    jobs.push(Box::new(move || ctx.prop(s, case(s.proto, s.layer), n)));
  }
  run_jobs(jobs);
  EvidenceMeta {
    rule: "0-5 validators registered with validate_claim on distinct keys (registered iss/sub/aud/jti/iat/exp/nbf through typed claims - built from a value or with XClaim::default() as in the crate's documentation -, custom keys through CustomClaim and a caller-defined claim); behaviours accept / reject / accept-iff-string / accept-iff-even-integer / accept-iff-null, implemented as 'static functions that log (id, key, value); \
           sequences of 1-6 tokens parsed by one GenericParser or PasetoParser: authentic (claim present / absent / of another type) and unauthenticated (bit flipped, truncated, wrong key, wrong footer, wrong assertion, wrong header). \
           Oracle: unauthenticated => Err with a format/authentication error and an empty call log; authentic => every logged call carries the validator's registered key and exactly payload[key] (null when absent), no validator runs twice; some validator rejects per the model => Err(claim error); \
           all accept => Ok and the log contains every registered validator exactly once. Non-trivial = at least one validator and (a rejecting or value-dependent validator, or an unauthenticated token); distinct by case."
      .into(),
    assumptions: vec!["validators are registered with validate_claim (extend_validation_claims alone never attaches a validator to a checked claim and is not part of the property)".into()],
  }
}
