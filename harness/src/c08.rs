//! C08 – tokens are exactly those defined by the PASETO specification (differential against `specref`).
use crate::engine::*;
use crate::keys;
use crate::proto::*;
use crate::rt::*;
use crate::specref::{self, RefPublic, RefSecret};
use proptest::collection::vec;
use proptest::prelude::*;
use serde::{Deserialize, Serialize};

#[derive(Clone, Debug, Serialize, Deserialize)]
pub struct ConfCase {
  rt: RtCase,
  /// arbitrary wire nonce for the "reference token -> library decrypt" direction (local only)
  #[serde(with = "crate::gen::hexser")]
  wire_nonce: Vec<u8>,
}

pub struct Conformance {
  pub proto: Proto,
  pub kind: &'static str,
}

impl Sub for Conformance {
  type Case = ConfCase;
  fn name(&self) -> String {
    format!("C08/{}/{}", self.kind, self.proto.label())
  }
  fn check(&self, cc: &ConfCase, cl: &mut Classes) -> Verdict {
    let c = &cc.rt;
    let p = c.proto;
    let v = p.version();
    let msg = c.msg.render();
    let footer_opt = c.footer.as_ref().map(|t| t.render());
    let assertion_opt = if p.has_assertion() { c.assertion.as_ref().map(|t| t.render()) } else { None };
    let footer = footer_opt.clone().unwrap_or_default();
    let assertion = assertion_opt.clone().unwrap_or_default();
    c.tags(cl);
    cl.nontrivial(!msg.is_empty() && (msg.len() >= 65 || !footer.is_empty() || !assertion.is_empty() || !msg.is_ascii()));
    let seed = c.seed();
    let km = keys::material(p, &seed);
    let lk = match km.lib() {
      Ok(k) => k,
      Err(e) => vio!("C08:key-rejected:{}", p.label(); "library rejected a valid key: {:?}", e),
    };
    let lib_token = match core_build(&lk, &c.nonce, &msg, footer_opt.as_deref(), assertion_opt.as_deref()) {
      Ok(t) => t,
      Err(e) => vio!("C08:build-failed:{}:{}", p.label(), e.variant; "build failed: {}", e.text),
    };
    // structure: footer segment present iff the footer is non-empty
    let segments = lib_token.split('.').count();
    if footer.is_empty() && segments != 3 {
      let how = if footer_opt.is_some() { "explicit-empty" } else { "absent" };
      vio!("C08:empty-footer-segment:{}", how; "{} token for an {} footer has {} segments: {:?}", p.label(), how, segments, tail(&lib_token));
    }
    if !footer.is_empty() && (segments != 4 || lib_token.rsplit('.').next() != Some(specref::b64e(footer.as_bytes()).as_str())) {
      vio!("C08:footer-segment:{}", p.label(); "footer {:?} is not carried as its unpadded base64url: {:?}", footer, tail(&lib_token));
    }
    if p.is_local() {
      let ref_token = specref::local_encrypt(v, &seed, &c.nonce, msg.as_bytes(), footer.as_bytes(), assertion.as_bytes());
      if ref_token != lib_token {
        vio!("C08:local-token-differs:{}", p.label(); "library token differs from the specification's for key {} nonce {} msg {:?} footer {:?} assertion {:?}: lib {} / ref {}",
          hex::encode(seed), hex::encode(&c.nonce), short(&msg), short(&footer), short(&assertion), mid(&lib_token), mid(&ref_token));
      }
      // every token of the specification (arbitrary wire nonce) is decrypted by the library
      let wn = &cc.wire_nonce[..p.nonce_len()];
      let t2 = specref::local_encrypt_wire(v, &seed, wn, msg.as_bytes(), footer.as_bytes(), assertion.as_bytes());
      match core_parse(&lk, &t2, footer_opt.as_deref(), assertion_opt.as_deref()) {
        Ok(m) if m == msg => {}
        Ok(m) => vio!("C08:ref-token-decrypts-differently:{}", p.label(); "library decrypted a reference token to {:?} instead of {:?}", short(&m), short(&msg)),
        Err(e) => vio!("C08:ref-token-rejected:{}:{}", p.label(), e.variant; "library rejects a token built by the specification's algorithm (wire nonce {}): {}", hex::encode(wn), e.text),
      }
      // and the reference decrypts the library's token
      match specref::local_decrypt(v, &seed, &lib_token, footer.as_bytes(), assertion.as_bytes()) {
        Ok(m) if m == msg.as_bytes() => {}
        other => vio!("C08:ref-rejects-lib-token:{}", p.label(); "reference decrypt of the library's token gave {:?}", other.map(|m| String::from_utf8_lossy(&m).chars().take(40).collect::<String>())),
      }
    } else {
      let (sk, pk) = keys::key_bytes(p, &seed);
      let unc;
      let (rs, rp) = match p {
        Proto::V1P => (RefSecret::Rsa(&sk), RefPublic::Rsa(&pk)),
        Proto::V3P => {
          unc = keys::p384_from_seed(&seed).2;
          (RefSecret::P384 { scalar: &sk, uncompressed: &unc, compressed: &pk }, RefPublic::P384 { uncompressed: &unc, compressed: &pk })
        }
        _ => (RefSecret::Ed { seed: &sk[..32], public: &pk }, RefPublic::Ed(&pk)),
      };
      match specref::public_verify(v, &rp, &lib_token, footer.as_bytes(), assertion.as_bytes()) {
        Ok(m) if m == msg.as_bytes() => {}
        other => vio!("C08:ref-rejects-lib-signature:{}", p.label(); "independent verification of the library's token gave {:?} (msg {:?} footer {:?} assertion {:?})", other.map(|m| m.len()), short(&msg), short(&footer), short(&assertion)),
      }
      let ref_token = match specref::public_sign(v, &rs, msg.as_bytes(), footer.as_bytes(), assertion.as_bytes()) {
        Ok(t) => t,
        Err(e) => return Verdict::violation("C08:harness", format!("reference signing failed: {e}")),
      };
      match core_parse(&lk, &ref_token, footer_opt.as_deref(), assertion_opt.as_deref()) {
        Ok(m) if m == msg => {}
        Ok(m) => vio!("C08:ref-token-verifies-differently:{}", p.label(); "library verified a reference token to {:?}", short(&m)),
        Err(e) => vio!("C08:ref-signature-rejected:{}:{}", p.label(), e.variant; "library rejects a token signed by the independent implementation: {} (msg {:?} footer {:?} assertion {:?})", e.text, short(&msg), short(&footer), short(&assertion)),
      }
      if matches!(p, Proto::V2P | Proto::V4P) && ref_token != lib_token {
        vio!("C08:ed25519-token-differs:{}", p.label(); "deterministic Ed25519 tokens differ: lib {} / ref {}", mid(&lib_token), mid(&ref_token));
      }
    }
    Verdict::Pass
  }
}

fn short(s: &str) -> String {
  if s.chars().count() > 48 {
    format!("{}…({} bytes)", s.chars().take(40).collect::<String>(), s.len())
  } else {
    s.to_string()
  }
}
fn mid(s: &str) -> String {
  if s.len() > 160 {
    format!("{}…{}", &s[..80], &s[s.len() - 60..])
  } else {
    s.to_string()
  }
}
fn tail(s: &str) -> String {
  if s.len() > 60 {
    format!("…{}", &s[s.len() - 50..])
  } else {
    s.to_string()
  }
}

fn conf_case(proto: Proto) -> BoxedStrategy<ConfCase> {
  // wire nonces: random, and ones whose trailing bytes are 0xff so that a block counter derived from them
  // carries across the 64-bit (and 32-bit) boundary within a message of a few blocks
  let wire = prop_oneof![
    6 => vec(any::<u8>(), 32),
    2 => (vec(any::<u8>(), 32), 1usize..=16, 0u8..4).prop_map(|(mut n, k, d)| {
      for b in n[32 - k..].iter_mut() {
        *b = 0xff;
      }
      n[31] = 0xff - d;
      // v2's wire nonce is the first 24 bytes
      for b in n[24 - k.min(8)..24].iter_mut() {
        *b = 0xff;
      }
      n
    }),
    1 => Just(vec![0xffu8; 32]),
  ];
  (rt_case(proto, Layer::Core), wire).prop_map(|(rt, wire_nonce)| ConfCase { rt, wire_nonce }).boxed()
}

/// v1.public with RSA keys of a size the specification does not use (3072 / 4096 bits; it prescribes 2048): whatever the
/// library hands back as a token has to be a token of the specification - `message || 256-byte signature` that the
/// independent implementation verifies - or signing is refused.
#[derive(Clone, Debug, Serialize, Deserialize)]
pub struct UnusualKeyCase {
  which: u8,
  msg_len: u32,
  footer: bool,
}
pub struct UnusualKeys;
impl Sub for UnusualKeys {
  type Case = UnusualKeyCase;
  fn name(&self) -> String {
    "C08/v1.public-keys-of-another-size".into()
  }
  fn check(&self, c: &UnusualKeyCase, cl: &mut Classes) -> Verdict {
    let (sk, pk) = keys::RSA_UNUSUAL[c.which as usize % 2];
    let bits = if c.which % 2 == 0 { 3072 } else { 4096 };
    let km = match KeyMaterial::new(Proto::V1P, Some(sk), pk) {
      Ok(k) => k,
      Err(_) => return Verdict::Discard,
    };
    let lk = match km.lib() {
      Ok(k) => k,
      Err(_) => {
        cl.tag("key-refused");
        return Verdict::Pass;
      }
    };
    let msg = "m".repeat(c.msg_len as usize);
    let footer = if c.footer { Some("kid") } else { None };
    cl.tag(format!("rsa-{bits}"));
    cl.nontrivial(true);
    match core_build(&lk, &[0u8; 32], &msg, footer, None) {
      Err(_) => {
        cl.tag("signing-refused");
        Verdict::Pass
      }
      Ok(token) => {
        cl.tag("signed");
        let body = split_token(&token).and_then(|(_, b, _)| unb64(&b)).unwrap_or_default();
        if body.len() != msg.len() + 256 {
          vio!("C08:not-a-token-of-the-specification:v1.public:rsa-{}", bits; "signing with an RSA-{} key returned a token whose body has {} bytes for a {}-byte message: the specification's v1.public body is message || 256-byte signature", bits, body.len(), msg.len());
        }
        match specref::public_verify(1, &RefPublic::Rsa(pk), &token, footer.unwrap_or("").as_bytes(), b"") {
          Ok(m) if m == msg.as_bytes() => Verdict::Pass,
          other => vio!("C08:ref-rejects-lib-signature:v1.public:rsa-{}", bits; "independent verification of a token signed with an RSA-{} key gave {:?}", bits, other.map(|m| m.len())),
        }
      }
    }
  }
}

fn all_subs() -> Vec<Conformance> {
  let mut v = vec![];
  for proto in Proto::ALL {
    for kind in ["sweep", "random", "dense"] {
      v.push(Conformance { proto, kind });
    }
  }
  v
}

pub fn subs() -> Vec<Box<dyn DynSub>> {
  let mut v: Vec<Box<dyn DynSub>> = all_subs().into_iter().map(|s| Box::new(s) as Box<dyn DynSub>).collect();
  v.push(Box::new(UnusualKeys));
  v
}

pub fn run(ctx: &Ctx) -> EvidenceMeta {
  if let Err(e) = specref::selftest() {
    println!("INCONCLUSIVE: reference self-test failed: {e}");
    std::process::exit(2);
  }
  let subs = all_subs();
  let mut jobs: Vec<Job> = vec![];
  for s in &subs {
    if s.kind == "sweep" {
      let cases: Vec<ConfCase> = boundary_sweep(s.proto, Layer::Core, 100_000)
        .into_iter()
        .enumerate()
        .flat_map(|(i, rt)| {
          // the sweep also covers the explicit-empty footer
          let mut v = vec![ConfCase { rt: rt.clone(), wire_nonce: (0..32).map(|j| (j * 3 + i) as u8).collect() }];
          if rt.footer.is_none() && i % 6 == 0 {
            let mut e = rt.clone();
            e.footer = Some(crate::gen::Text::Lit(String::new()));
            v.push(ConfCase { rt: e, wire_nonce: vec![0xa5; 32] });
          }
          v
        })
        .collect();
      jobs.push(Box::new(move || ctx.enumerate(s, cases.into_iter(), true)));
    } else if s.kind == "dense" {
      let max = match s.proto.cost() { 40 => ctx.n(150, 1100), 8 => ctx.n(300, 1100), _ => ctx.n(1100, 4200) };
      let cases: Vec<ConfCase> = dense_sweep(s.proto, Layer::Core, max).into_iter().enumerate().map(|(i, rt)| ConfCase { rt, wire_nonce: (0..32).map(|j| (j * 5 + i) as u8).collect() }).collect();
      jobs.push(Box::new(move || ctx.enumerate(s, cases.into_iter(), true)));
    } else {
      let n = (ctx.n(12_000, 120_000) / s.proto.cost().min(20)).max(300);
      jobs.push(Box::new(move || ctx.prop(s, conf_case(s.proto), n)));
    }
  }
  let uk = &UnusualKeys;
  jobs.push(Box::new(move || ctx.enumerate(uk, (0..ctx.n(24, 200)).map(|i| UnusualKeyCase { which: (i % 2) as u8, msg_len: [0u32, 1, 69, 200, 255, 256, 257, 383, 384, 511, 512, 1000][(i as usize / 2) % 12], footer: i % 3 == 0 }), false)));
  run_jobs(jobs);
  EvidenceMeta {
    rule: "input space of C01/C02 at the core layer (version, purpose, key or key pair, nonce material, message incl. all boundary lengths, footer/assertion in {none, explicit empty, text}). \
           Oracle (differential against specref, an executable transcription of Version1-4.md + Common.md pinned to all 45 official vectors before every run): \
           local - library token == reference token byte for byte; library decrypts reference tokens built with an arbitrary wire nonce; reference decrypts library tokens; \
           public - reference verifies library tokens and library verifies reference tokens; Ed25519 tokens byte-identical; \
           structure - footer segment present iff footer non-empty and equal to its unpadded base64url; v1.public under RSA keys of 3072 / 4096 bits - signing is refused or the token is message || 256-byte signature that the reference verifies. \
           Non-trivial = beyond what the official vectors exercise: message non-empty and (>= 65 bytes or non-ASCII or footer/assertion non-empty); distinct by case."
      .into(),
    assumptions: vec![
      "RSA-PSS (ring) and the Poly1305 primitive are shared with the library; protocol composition and every other primitive are independent (hand-written BLAKE2b/ChaCha20/HChaCha20, RustCrypto hkdf/aes 0.8/ctr 0.9, ring HMAC/Ed25519/ECDSA)".into(),
    ],
  }
}
