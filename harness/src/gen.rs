//! Generators shared by the property modules. All random choices are proptest strategies.
#![allow(dead_code)]

use proptest::collection::vec;
use proptest::prelude::*;
use serde::{Deserialize, Serialize};
use serde_json::Value;

/// Text that a normalising or case-folding comparison takes for `text` although it is another string: one character
/// replaced by its full-width form, by a compatibility / case-folding twin (Kelvin sign for K, long s for s, dotless i ...), a
/// precomposed letter by its decomposition (or the reverse), or a variation selector / zero-width joiner added.
pub fn confusable(text: &str, how: u8) -> Option<String> {
  let chars: Vec<char> = text.chars().collect();
  let swap = |pred: &dyn Fn(char) -> Option<String>| -> Option<String> {
    for (i, c) in chars.iter().enumerate() {
      if let Some(r) = pred(*c) {
        let mut out: String = chars[..i].iter().collect();
        out.push_str(&r);
        out.extend(chars[i + 1..].iter());
        return Some(out);
      }
    }
    None
  };
  let out = match how % 8 {
    0 => swap(&|c| if c.is_ascii_alphanumeric() { char::from_u32(c as u32 - 0x20 + 0xff00).map(|f| f.to_string()) } else { None }),
    1 => swap(&|c| match c { 'K' | 'k' => Some("\u{212a}".into()), 's' => Some("\u{17f}".into()), 'S' => Some("\u{17f}".into()), 'i' => Some("\u{131}".into()), 'I' => Some("\u{130}".into()), 'A' => Some("\u{391}".into()), 'a' => Some("\u{430}".into()), 'e' => Some("\u{435}".into()), 'o' => Some("\u{43e}".into()), _ => None }),
    2 => swap(&|c| match c { '\u{e9}' => Some("e\u{301}".into()), '\u{e8}' => Some("e\u{300}".into()), '\u{fc}' => Some("u\u{308}".into()), '\u{f1}' => Some("n\u{303}".into()), '\u{c5}' => Some("\u{212b}".into()), 'e' => Some("\u{e9}".into()), _ => None }),
    3 => swap(&|c| match c { 'f' => Some("\u{fb01}".into()), '1' => Some("\u{b9}".into()), '2' => Some("\u{b2}".into()), ' ' => Some("\u{a0}".into()), '-' => Some("\u{2010}".into()), '"' => Some("\u{201c}".into()), '.' => Some("\u{2024}".into()), ':' => Some("\u{a789}".into()), _ => None }),
    4 => Some(format!("{text}\u{fe0f}")),
    5 => if chars.len() >= 2 { Some(format!("{}\u{200d}{}", chars[..1].iter().collect::<String>(), chars[1..].iter().collect::<String>())) } else { None },
    6 => swap(&|c| if c.is_ascii_lowercase() { Some(c.to_ascii_uppercase().to_string()) } else { None }),
    _ => swap(&|c| match c { '\u{df}' => Some("ss".into()), 's' => Some("\u{df}".into()), _ => None }),
  }?;
  if out == text { None } else { Some(out) }
}

/// An owned String with the content of `s` and one of several allocation histories (exact capacity, spare capacity, grown
/// push by push, cut back from something longer, a re-used buffer): the content is all a callee may go by.
pub fn owned(s: &str, how: u8) -> String {
  match how % 5 {
    0 => s.to_string(),
    1 => {
      let mut o = String::with_capacity(s.len() + 17);
      o.push_str(s);
      o
    }
    2 => {
      let mut o = String::new();
      for c in s.chars() {
        o.push(c);
      }
      o
    }
    3 => {
      let mut o = format!("{s} and a tail that is cut off again");
      o.truncate(s.len());
      o
    }
    _ => {
      let mut o = String::from("an earlier content of this buffer, longer than most keys");
      o.clear();
      o.push_str(s);
      o
    }
  }
}

pub mod hexser {
  use serde::{Deserialize, Deserializer, Serializer};
  pub fn serialize<S: Serializer>(v: &Vec<u8>, s: S) -> Result<S::Ok, S::Error> {
    s.serialize_str(&hex::encode(v))
  }
  pub fn deserialize<'de, D: Deserializer<'de>>(d: D) -> Result<Vec<u8>, D::Error> {
    let s = String::deserialize(d)?;
    hex::decode(s).map_err(serde::de::Error::custom)
  }
}

/// message / footer / assertion lengths (UTF-8 bytes) the properties single out
pub const BOUNDARY_LENS: [u32; 27] =
  [0, 1, 15, 16, 17, 31, 32, 33, 47, 48, 49, 63, 64, 65, 127, 128, 129, 255, 256, 257, 4095, 4096, 4097, 65535, 65536, 65537, 100_000];

/// Text as data: literal, or a string of an exact UTF-8 byte length built deterministically.
#[derive(Clone, Debug, Serialize, Deserialize, Hash, PartialEq, Eq)]
pub enum Text {
  Lit(String),
  /// (byte length, flavour): 0 ASCII letters; 1 multi-byte prefix (é, 😀, NUL, '.') padded with ASCII;
  /// 2 a JSON object `{"d":"aaa…"}`; 3 4-byte code points padded with ASCII
  Sized(u32, u8),
  /// a JSON-looking document built deterministically from (shape, size, variant) - see `doc`
  Doc(u8, u16, u8),
}

impl Text {
  pub fn render(&self) -> String {
    match self {
      Text::Lit(s) => s.clone(),
      Text::Sized(len, flavour) => sized(*len as usize, *flavour),
      Text::Doc(shape, n, variant) => doc(*shape, *n as usize, *variant),
    }
  }
  pub fn len_bucket(&self) -> &'static str {
    let n = self.render().len();
    match n {
      0 => "len=0",
      1..=15 => "len=1..15",
      16..=64 => "len=16..64",
      65..=256 => "len=65..256",
      257..=4096 => "len=257..4096",
      4097..=65535 => "len=4097..65535",
      _ => "len>=65536",
    }
  }
}

pub fn sized(len: usize, flavour: u8) -> String {
  let mut s = String::with_capacity(len);
  match flavour % 4 {
    1 => {
      for piece in ["é", "😀", "\0", ".", "\u{7ff}", "\u{ffff}"] {
        if s.len() + piece.len() <= len {
          s.push_str(piece);
        }
      }
    }
    2 => {
      if len >= 8 {
        s.push_str("{\"d\":\"");
        while s.len() + 2 < len {
          s.push((b'a' + (s.len() % 26) as u8) as char);
        }
        s.push_str("\"}");
      }
    }
    3 => {
      while s.len() + 4 <= len {
        s.push(char::from_u32(0x1F600 + (s.len() as u32 / 4) % 64).unwrap());
      }
    }
    _ => {}
  }
  while s.len() < len {
    s.push((b'a' + (s.len() % 26) as u8) as char);
  }
  debug_assert_eq!(s.len(), len);
  s
}

/// JSON-looking documents of the kinds footers and messages carry in practice (key sets, nested metadata), plus
/// their broken relatives. shape 0: a key set with `n` entries, each holding arrays; 1: `n` levels of nesting
/// (objects, arrays or alternating); 2: `n` members whose values are empty containers; 3: shape 0/1/2 with brackets
/// unbalanced (one closer too many / too few / of the wrong kind, at the start, the end or in the middle);
/// 4: brackets and quotes inside string values; 5: a flat list of `n` scalars.
pub fn doc(shape: u8, n: usize, variant: u8) -> String {
  let v = variant as usize;
  match shape % 6 {
    0 => {
      let mut s = String::from("{\"keys\":[");
      for i in 0..n {
        if i > 0 {
          s.push(',');
        }
        match v % 3 {
          0 => s.push_str(&format!("{{\"kid\":\"k{i}\",\"ops\":[\"verify\"]}}")),
          1 => s.push_str(&format!("{{\"kid\":\"k{i}\",\"ops\":[\"sign\",\"verify\"],\"x\":[],\"y\":[[{i}]]}}")),
          _ => s.push_str(&format!("[\"k{i}\",[{i}]]")),
        }
      }
      s.push_str("]}");
      s
    }
    1 => {
      let (open, close): (Vec<char>, Vec<char>) = (0..n)
        .map(|i| match v % 3 {
          0 => ('{', '}'),
          1 => ('[', ']'),
          _ => if i % 2 == 0 { ('{', '}') } else { ('[', ']') },
        })
        .unzip();
      let mut s = String::new();
      for c in &open {
        s.push(*c);
        if *c == '{' {
          s.push_str("\"a\":");
        }
      }
      s.push_str(if v % 2 == 0 { "1" } else { "\"x\"" });
      for c in close.iter().rev() {
        s.push(*c);
      }
      if n == 0 || open[0] != '{' {
        // documents that do not start with an object are documents too
      }
      s
    }
    2 => {
      let mut s = String::from("{");
      for i in 0..n {
        if i > 0 {
          s.push(',');
        }
        s.push_str(&format!("\"m{i}\":{}", ["{}", "[]", "{\"meta\":{}}", "[[],{}]"][(v + i * (v / 4 % 2)) % 4]));
      }
      s.push('}');
      s
    }
    3 => {
      let base = doc((v % 3) as u8, n.min(40), (v / 3) as u8);
      let extra = ['}', ']', '{', '[', ')', '"'][v / 9 % 6];
      match v % 5 {
        0 => format!("{base}{extra}"),
        1 => format!("{extra}{base}"),
        2 => base[..base.len().saturating_sub(1)].to_string(),
        3 => {
          let mid = base.len() / 2;
          format!("{}{extra}{}", &base[..mid], &base[mid..])
        }
        _ => format!("{{{extra}{extra}"),
      }
    }
    4 => {
      let inner = ["]", "}}", "}}\\\"}", "[[[", "{\\\"a\\\":1}", "]]}}]]", "\\u005d\\u007d", "/*]*/"][v % 8];
      let mut s = String::from("{");
      for i in 0..n.max(1) {
        if i > 0 {
          s.push(',');
        }
        s.push_str(&format!("\"a{i}\":\"{inner}\""));
      }
      s.push('}');
      s
    }
    _ => {
      let mut s = String::from(if v % 2 == 0 { "[" } else { "{\"l\":[" });
      for i in 0..n {
        if i > 0 {
          s.push(',');
        }
        s.push_str(&["0", "null", "true", "\"s\"", "-1.5e3", "[]"][(i + v) % 6].to_string());
      }
      s.push_str(if v % 2 == 0 { "]" } else { "]}" });
      s
    }
  }
}

/// structured documents: sizes concentrate on small values but reach the hundreds (many shallow containers) and depth 200
pub fn doc_text() -> impl Strategy<Value = Text> {
  (0u8..6, prop_oneof![4 => 0u16..8, 4 => 8u16..40, 3 => 40u16..200, 1 => 200u16..600], any::<u8>()).prop_map(|(shape, n, variant)| Text::Doc(shape, n, variant))
}

const JSONISH: &[u8] = b"{}[]\":, abcdefghijklmnopqrstuvwxyzABCXYZ0123456789.=-_+/\\%";

pub fn jsonish(max: usize) -> impl Strategy<Value = String> {
  vec(any::<u16>(), 0..=max).prop_map(|v| v.into_iter().map(|i| JSONISH[crate::engine::pick(i, JSONISH.len())] as char).collect())
}

fn mixed_char() -> impl Strategy<Value = char> {
  prop_oneof![
    4 => any::<char>(),
    3 => (0x20u32..0x7f).prop_map(|c| char::from_u32(c).unwrap()),
    1 => (0u32..0x20).prop_map(|c| char::from_u32(c).unwrap()),
    1 => (0x7fu32..0x100).prop_map(|c| char::from_u32(c).unwrap()),
    1 => any::<u16>().prop_map(|i| ['\\', '"', '.', '=', '\u{7ff}', '\u{800}', '\u{d7ff}', '\u{e000}', '\u{fffd}', '\u{ffff}', '\u{10000}', '\u{10ffff}', '\u{2028}', '\u{feff}', '\u{301}', '\0',
      // what "safe for JavaScript / HTML / logs" escapers single out
      '\u{2029}', '\u{85}', '\u{b}', '\u{c}', '/', '<', '>', '&', '\'', '\u{7f}',
      // beyond the basic plane (escapers that write \\uXXXX must use surrogate pairs there): tag characters, flags, private use, the last code points
      '\u{e0001}', '\u{e0067}', '\u{e007f}', '\u{1f3f4}', '\u{1f600}', '\u{f0000}', '\u{10fffd}', '\u{1d11e}'][crate::engine::pick(i, 34)]),
  ]
}

pub fn unicode(max: usize) -> impl Strategy<Value = String> {
  vec(mixed_char(), 0..=max).prop_map(|v| v.into_iter().collect())
}

const SPECIALS: [&str; 96] = [
  // strings that look like what footers carry in deployed systems: PASERK key ids and (mis-placed) serialised keys,
  // key-id JSON, URLs, another token
  "k4.lid.iVtYQDjr5gEijCSjJC3fQaJm7nCeQSeaty0Jixy8dbsk", "k4.pid.9ShR3xc8-qVJ_di0tc9nx0IDIqbatdeM2mqLFBJsKRHs", "k4.local.cHFyc3R1dnd4eXp7fH1-f4CBgoOEhYaHiImKi4yNjo8",
  "k4.public.cHFyc3R1dnd4eXp7fH1-f4CBgoOEhYaHiImKi4yNjo8", "k2.secret.cHFyc3R1dnd4eXp7fH1-f4CBgoOEhYaHiImKi4yNjo8", "k3.local-pw.AAAA", "k1.secret-pw.AAAA", "k4.seal.AAAA", "k4.local-wrap.pie.AAAA",
  "{\"kid\":\"k4.lid.iVtYQDjr5gEijCSjJC3fQaJm7nCeQSeaty0Jixy8dbsk\"}", "{\"wpk\":\"k4.local-wrap.pie.AAAA\",\"kid\":\"k4.lid.AAAA\"}",
  "https://example.com/.well-known/keys?kid=1&v=4#frag", "urn:uuid:6e8bc430-9c3a-11d9-9669-0800200c9a66", "v4.public.eyJhIjoxfQ.AAAA", "Bearer v2.local.AAAA", "2019-01-01T00:00:00+00:00",
  "", ".", "..", "\0", "a.b", "=", "==", "é", "😀", " ", "\u{feff}", "v4.local.", "AAAA", "null", "{}", "\"", "\u{0}\u{0}", "\u{10ffff}",
  "\\", "\u{2028}", "\u{d7ff}", "\u{e000}", "\u{ffff}", "\u{fffd}", "%00", "\r\n", "\t", "a\u{301}", "\u{200b}", "\u{202e}abc", "true", "0", "-0", "1e400", "[]",
  "{\"a\":1}", "\u{7f}", "\u{80}", "\u{7ff}\u{800}", "\u{1}\u{1f}",
  "\u{feff}{\"a\":1}", "\u{feff}abc", " {\"a\":1} ", "abc\n",
  // normalisation and case-mapping corner cases: NFC vs NFD, sharp s, dotted capital I, long s, Kelvin sign, ligature, titlecase digraph
  "\u{e9}", "e\u{301}", "\u{df}", "\u{130}", "\u{17f}", "\u{212a}", "\u{fb01}", "\u{1c5}", "\u{3a3}\u{3c2}", "\u{1e9e}",
  // text that is itself a complete JSON document, separators that escapers treat specially
  // text whose base64url SPELLS a word of the token grammar ("8publicg", "IOClocal", "QzAv35Ag", "Qk4g", "5pie", "85expzAg", "Qsub", "QzkidzAg" ...)
  "\u{9b6d6}' ", "\u{9b6d6}'0", " \u{961}\u{1a5}", " \u{1961}\u{1a5}", "C0/\u{7d0} ", "C0/\u{6d0}0", "BN ", "\u{661e}", "\u{d7c67}0 ", "B\u{2db}",
  // text ENDING in characters that do not render (what a "tolerant" trim would cut off)
  "tenant-42\u{200b}", "x\u{200d}", "a\u{2060}", "b\u{fe0f}", "kid-7\u{200c}", "\u{200b}\u{200d}", "id\u{ad}", "z\u{feff}",
  "[\"a\"]", " [ \"web\" , \"mobile\" ] ", "{\"role\":\"admin\"}", "[1,2,3]", "\"quoted\"", "\u{2029}", "a\u{2028}b\u{2029}c", "</script>\u{85}",
];

pub fn special() -> impl Strategy<Value = String> {
  any::<u16>().prop_map(|i| SPECIALS[crate::engine::pick(i, SPECIALS.len())].to_string())
}

/// boundary-length text; `max_idx` limits how far into BOUNDARY_LENS the generator reaches
pub fn boundary(max_idx: usize) -> impl Strategy<Value = Text> {
  (any::<u16>(), 0u8..4).prop_map(move |(i, f)| Text::Sized(BOUNDARY_LENS[crate::engine::pick(i, max_idx.min(BOUNDARY_LENS.len()))], f))
}

/// general text generator (messages, footers, assertions, claim strings)
pub fn text() -> BoxedStrategy<Text> {
  prop_oneof![
    4 => jsonish(64).prop_map(Text::Lit),
    3 => unicode(24).prop_map(Text::Lit),
    1 => special().prop_map(Text::Lit),
    2 => boundary(BOUNDARY_LENS.len()),
    1 => (0u32..300, 0u8..4).prop_map(|(l, f)| Text::Sized(l, f)),
    2 => doc_text(),
  ]
  .boxed()
}

/// text that is itself a complete JSON document (a list of names, an object, a quoted string, a number ...), written
/// compactly, spaced out or pretty-printed: as a claim VALUE or a footer it is a string like any other
pub fn json_looking() -> BoxedStrategy<String> {
  // (own small leaves: the general JSON generators draw their strings from `short_text`, which draws from here)
  let leaf = prop_oneof![
    3 => "[a-z]{0,6}".prop_map(|w| serde_json::json!(w)),
    1 => (-5i64..1000).prop_map(|i| serde_json::json!(i)),
    1 => Just(Value::Null),
    1 => Just(serde_json::json!(true)),
    1 => Just(serde_json::json!("a \"quoted\" word")),
  ];
  let doc = prop_oneof![
    3 => vec(leaf.clone(), 0..4).prop_map(Value::Array),
    3 => vec(("[a-z]{1,5}", leaf.clone()), 0..4).prop_map(|m| Value::Object(m.into_iter().collect())),
    1 => leaf.clone(),
    1 => vec(vec(leaf, 0..2).prop_map(Value::Array), 0..3).prop_map(Value::Array),
  ];
  (doc, 0u8..4)
    .prop_map(|(v, style)| match style {
      0 => v.to_string(),
      1 => format!(" {} ", v),
      2 => serde_json::to_string_pretty(&v).unwrap_or_default(),
      _ => v.to_string().replace(',', " , ").replace(':', " : "),
    })
    .boxed()
}

/// shorter texts (no large boundaries) for expensive protocols and builder-layer strings
pub fn short_text() -> BoxedStrategy<Text> {
  prop_oneof![
    1 => json_looking().prop_map(Text::Lit),
    4 => jsonish(40).prop_map(Text::Lit),
    3 => unicode(16).prop_map(Text::Lit),
    1 => special().prop_map(Text::Lit),
    1 => boundary(20),
    1 => doc_text(),
  ]
  .boxed()
}

/// None | Some("") | Some(text)
pub fn opt_text() -> BoxedStrategy<Option<Text>> {
  prop_oneof![
    3 => Just(None),
    1 => Just(Some(Text::Lit(String::new()))),
    5 => short_text().prop_map(Some),
    1 => text().prop_map(Some),
  ]
  .boxed()
}

/// 32 bytes: random, all-zero, all-one
pub fn bytes32() -> BoxedStrategy<Vec<u8>> {
  prop_oneof![
    8 => vec(any::<u8>(), 32),
    1 => Just(vec![0u8; 32]),
    1 => Just(vec![0xffu8; 32]),
    // one position forced to a boundary value, the rest random
    2 => (vec(any::<u8>(), 32), 0usize..32, prop_oneof![Just(0u8), Just(0xffu8), Just(0x80u8), Just(0x7fu8)]).prop_map(|(mut v, i, b)| {
      v[i] = b;
      v
    }),
    1 => Just(b"wubbalubbadubdubwubbalubbadubdub".to_vec()),
    1 => Just((0u8..32).collect::<Vec<u8>>()),
    1 => Just(vec![0x80u8; 32]),
  ]
  .boxed()
}

pub fn arr32(v: &[u8]) -> [u8; 32] {
  let mut a = [0u8; 32];
  a.copy_from_slice(&v[..32]);
  a
}

// ------------------------------------------------------------------------------------------------
// JSON values in the domain on which serde_json round-trips exactly

fn exact_float() -> impl Strategy<Value = f64> {
  // m / 10^d with |m| < 2^53 and at most 15 significant digits: the shortest representation of the
  // double nearest to it is that decimal, and parsing it yields the same double
  (-999_999_999_999_999i64..=999_999_999_999_999i64, 1u32..=15).prop_map(|(m, d)| {
    let s = format!("{}e-{}", m, d);
    s.parse::<f64>().unwrap()
  })
}

pub fn json_leaf() -> BoxedStrategy<Value> {
  prop_oneof![
    1 => Just(Value::Null),
    2 => any::<bool>().prop_map(Value::Bool),
    3 => any::<i64>().prop_map(|i| serde_json::json!(i)),
    2 => any::<u64>().prop_map(|i| serde_json::json!(i)),
    2 => (-1000i64..1000).prop_map(|i| serde_json::json!(i)),
    2 => exact_float().prop_map(|f| serde_json::Number::from_f64(f).map(Value::Number).unwrap_or(Value::Null)),
    1 => prop_oneof![Just(0.0f64), Just(-0.0f64), Just(1.0), Just(-1.0), Just(1e15), Just(1e-7), Just(u64::MAX as f64), Just(f64::MAX), Just(f64::MIN_POSITIVE)].prop_map(|f| serde_json::Number::from_f64(f).map(Value::Number).unwrap_or(Value::Null)),
    1 => prop_oneof![Just(i64::MIN), Just(i64::MAX), Just(-1i64), Just(0i64)].prop_map(|i| serde_json::json!(i)),
    1 => prop_oneof![Just(u64::MAX), Just(i64::MAX as u64 + 1), Just(1u64 << 53), Just((1u64 << 53) + 1)].prop_map(|i| serde_json::json!(i)),
    4 => short_text().prop_map(|t| Value::String(t.render())),
  ]
  .boxed()
}

pub fn json_key() -> BoxedStrategy<String> {
  prop_oneof![
    3 => "[a-z]{1,6}".prop_map(|s| s),
    2 => unicode(6).prop_filter("non-empty", |s| !s.is_empty()),
    1 => special().prop_filter("non-empty", |s| !s.is_empty()),
  ]
  .boxed()
}

/// large / regular JSON values: key sets with hundreds of small arrays, hundreds of empty containers, nesting to depth 60,
/// long flat lists, brackets inside strings (the well-formed shapes of `doc`)
pub fn json_doc_value() -> BoxedStrategy<Value> {
  (prop_oneof![Just(0u8), Just(1u8), Just(2u8), Just(4u8), Just(5u8)], prop_oneof![3 => 0u16..12, 3 => 12u16..130, 2 => 130u16..400], any::<u8>())
    .prop_map(|(shape, n, variant)| {
      let n = if shape == 1 { n.min(60) } else { n };
      serde_json::from_str::<Value>(&doc(shape, n as usize, variant)).unwrap_or(Value::Null)
    })
    .boxed()
}

pub fn json_value(depth: u32) -> BoxedStrategy<Value> {
  json_leaf()
    .prop_recursive(depth, 48, 6, |inner| {
      prop_oneof![
        vec(inner.clone(), 0..=6).prop_map(Value::Array),
        vec((json_key(), inner), 0..=6).prop_map(|kv| Value::Object(kv.into_iter().collect())),
      ]
    })
    .boxed()
}
