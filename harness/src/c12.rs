//! C12 – the default parser rejects tokens that are not yet valid (shares generator and model with C11).
use crate::c11::{all_subs, run_for};
use crate::engine::*;

pub fn subs() -> Vec<Box<dyn DynSub>> {
  let mut v: Vec<Box<dyn DynSub>> = all_subs("C12").into_iter().map(|s| Box::new(s) as Box<dyn DynSub>).collect();
  v.push(Box::new(crate::c11::ClockCrossing { pid: "C12" }));
  v.push(Box::new(crate::c11::TightCrossing { pid: "C12" }));
  v.push(Box::new(crate::c11::WhileOthersValidate { pid: "C12" }));
  v
}

pub fn run(ctx: &Ctx) -> EvidenceMeta {
  let subs = all_subs("C12");
  run_for(ctx, "C12", &subs);
  EvidenceMeta {
    rule: "same instant/rendering space as C11 with the direction reversed, applied to nbf, with independent (exp, nbf) combinations (all 25 class pairs deterministically, then generated): \
           accept iff exp in {absent, strictly rendered future} and nbf in {absent, strictly rendered past}; reject (claim error) when nbf is a future instant in any rendering or a non-timestamp value, or exp demands rejection; null and lenient renderings are don't-care. \
           Non-trivial = nbf or exp present; distinct by case."
      .into(),
    assumptions: vec!["reads the wall clock (as the library does); margins of >= 2 s / >= 60 s keep the verdict independent of the exact time".into()],
  }
}
