//! C03 – any alteration of an authentic token is detected before its content is used.
use crate::engine::*;
use crate::gen::{self, hexser};
use crate::keys;
use crate::proto::*;
use proptest::collection::vec;
use proptest::prelude::*;
use rusty_paseto::prelude::{PasetoClaimError, ValidatorFn};
use serde::{Deserialize, Serialize};
use serde_json::Value;
use std::cell::{Cell, RefCell};
use std::collections::HashMap;

// ------------------------------------------------------------------------------------------------
// token specifications and cache of authentic tokens

#[derive(Clone, Debug, Serialize, Deserialize, Hash, PartialEq, Eq)]
pub struct TokSpec {
  pub proto: Proto,
  /// layer whose build and parse entry points are used
  pub layer: Layer,
  #[serde(with = "hexser")]
  pub key_seed: Vec<u8>,
  #[serde(with = "hexser")]
  pub nonce: Vec<u8>,
  pub msg: String,
  pub footer: Option<String>,
  pub assertion: Option<String>,
  /// when set, the token is built through the core layer with exactly this payload (whatever `layer` parses it);
  /// `msg` is then what the parse layer must return (the payload itself at the core layer, its "data" claim otherwise)
  #[serde(default)]
  pub core_payload: Option<String>,
}

thread_local! {
  static TOKENS: RefCell<HashMap<u64, Result<String, String>>> = RefCell::new(HashMap::new());
  static VCOUNT: Cell<u32> = Cell::new(0);
}

fn counting(_k: &str, _v: &Value) -> Result<(), PasetoClaimError> {
  VCOUNT.with(|c| c.set(c.get() + 1));
  Ok(())
}
const COUNTING: &ValidatorFn = &counting;

impl TokSpec {
  pub fn seed(&self) -> [u8; 32] {
    gen::arr32(&self.key_seed)
  }
  pub fn assertion(&self) -> Option<&str> {
    if self.proto.has_assertion() {
      self.assertion.as_deref()
    } else {
      None
    }
  }
  /// the authentic token (cached per thread: RSA and P-384 signing are expensive)
  pub fn token(&self) -> Result<String, String> {
    let h = hash_of(self);
    if let Some(t) = TOKENS.with(|c| c.borrow().get(&h).cloned()) {
      return t;
    }
    let km = keys::material(self.proto, &self.seed());
    let r = match km.lib() {
      Ok(lk) => match &self.core_payload {
        Some(p) => core_build(&lk, &self.nonce, p, self.footer.as_deref(), self.assertion()).map_err(|e| e.text),
        None => crate::rt::layer_build(self.proto, self.layer, &lk, &self.nonce, &self.msg, self.footer.as_deref(), self.assertion()).map_err(|e| e.text),
      },
      Err(e) => Err(e.text),
    };
    TOKENS.with(|c| {
      let mut c = c.borrow_mut();
      if c.len() > 4096 {
        c.clear();
      }
      c.insert(h, r.clone());
    });
    r
  }
}

pub struct ParseOut {
  pub result: Result<Option<String>, LibErr>,
  pub validator_calls: u32,
}

/// parse `token` at the spec's layer with the spec's key, footer and assertion; at the parser layers a
/// counting validator is registered for the claim "data" (which is in the payload)
pub fn parse_with_counter(s: &TokSpec, token: &str) -> ParseOut {
  let km = keys::material(s.proto, &s.seed());
  let lk = match km.lib() {
    Ok(k) => k,
    Err(e) => return ParseOut { result: Err(e), validator_calls: 0 },
  };
  VCOUNT.with(|c| c.set(0));
  let data = ClaimSpec::Custom("data".into(), Value::String(String::new()));
  let result = match s.layer {
    Layer::Core => core_parse(&lk, token, s.footer.as_deref(), s.assertion()).map(Some),
    l => {
      let mut p = new_parser(s.proto, l);
      if let Some(f) = s.footer.as_deref() {
        p.footer(f);
      }
      if let Some(a) = s.assertion() {
        p.assertion(a);
      }
      let _ = p.validate(&data, COUNTING);
      p.parse(token, &lk).map(|v| crate::rt::message_of(&v))
    }
  };
  ParseOut { result, validator_calls: VCOUNT.with(|c| c.get()) }
}

// ------------------------------------------------------------------------------------------------
// mutations

pub const B64ALPHA: &[u8] = b"ABCDEFGHIJKLMNOPQRSTUVWXYZabcdefghijklmnopqrstuvwxyz0123456789-_";
pub const EXTRA_SYMS: [char; 6] = ['.', '=', '+', '/', ' ', 'é'];

#[derive(Clone, Debug, Serialize, Deserialize)]
pub enum Mut {
  /// flip bit i of the decoded payload
  FlipBit(u32),
  /// replace character j of the token text
  SubstChar(u32, char),
  PrefixText(u32),
  PrefixPayload(u32),
  AppendPayload(#[serde(with = "hexser")] Vec<u8>),
  AppendText(String),
  InsertByte(u32, u8),
  DeleteByte(u32),
  /// move the dot between payload and footer segment by k characters
  MoveFooterDot(i32),
  DropFooterDot,
  SwapPayloadAndFooter,
  /// segment 0 payload / 1 footer; kind 0..15 trailing-bit variant, 16 "=", 17 "==", 18 standard alphabet
  B64Variant(u8, u8),
  /// put text in front of the token (e.g. its own header once more)
  Prepend(String),
  /// insert text at a character position
  InsertText(u32, String),
  /// copy `len` characters starting at `start` and insert them at `at` (re-splicing the token with itself)
  DupRange(u32, u32, u32),
  /// splice with a second authentic token under the same key
  Splice(u8, Box<TokSpec>),
  Multi(Vec<Mut>),
  /// character j of the token text written another way that some transport or other would map back to it:
  /// style 0 `%41`, 1 `%2e` lower-case hex, 2 `&#65;`, 3 `\\u0041`, 4 the full-width / look-alike code point
  Respell(u32, u8),
  /// the footer segment replaced by the encoding of ANOTHER SPELLING of the same JSON object (applies to JSON-object footers)
  FooterJsonRespell(u8),
  /// the footer segment written k = 2..=4 times in a row (0: cut down to one period of itself, if it is periodic)
  FooterRepeat(u8),
  /// the footer segment replaced by the encoding of the footer text with one invisible / look-alike character inserted or
  /// swapped in at a position (soft hyphen, zero-width characters, variation selector; `gen::confusable`)
  FooterLookAlike(u16, u8),
}

impl Mut {
  pub fn kind(&self) -> &'static str {
    match self {
      Mut::FlipBit(_) => "flip-bit",
      Mut::SubstChar(..) => "subst-char",
      Mut::PrefixText(_) => "prefix-text",
      Mut::PrefixPayload(_) => "prefix-payload",
      Mut::AppendPayload(_) => "append-payload",
      Mut::AppendText(_) => "append-text",
      Mut::InsertByte(..) => "insert-byte",
      Mut::DeleteByte(_) => "delete-byte",
      Mut::MoveFooterDot(_) => "move-footer-dot",
      Mut::DropFooterDot => "drop-footer-dot",
      Mut::SwapPayloadAndFooter => "swap-segments",
      Mut::B64Variant(..) => "noncanonical-base64",
      Mut::Prepend(_) => "prepend",
      Mut::Respell(..) => "respell-char",
      Mut::FooterJsonRespell(_) => "footer-json-respelt",
      Mut::FooterRepeat(_) => "footer-segment-repeated",
      Mut::FooterLookAlike(..) => "footer-look-alike",
      Mut::InsertText(..) => "insert-text",
      Mut::DupRange(..) => "duplicate-range",
      Mut::Splice(..) => "splice",
      Mut::Multi(_) => "multi-edit",
    }
  }
}

fn rejoin(header: &str, payload_seg: &str, footer_seg: Option<&str>) -> String {
  match footer_seg {
    Some(f) => format!("{header}{payload_seg}.{f}"),
    None => format!("{header}{payload_seg}"),
  }
}

fn b64_variant(seg: &str, kind: u8) -> Option<String> {
  if seg.is_empty() {
    return None;
  }
  match kind {
    16 => Some(format!("{seg}=")),
    17 => Some(format!("{seg}==")),
    18 => {
      let s = seg.replace('-', "+").replace('_', "/");
      if s == seg {
        None
      } else {
        Some(s)
      }
    }
    k => {
      let unused_bits = match seg.len() % 4 {
        2 => 4,
        3 => 2,
        _ => return None,
      };
      let mask = (1u8 << unused_bits) - 1;
      let last = *seg.as_bytes().last()?;
      let idx = B64ALPHA.iter().position(|c| *c == last)? as u8;
      let new_idx = (idx & !mask) | (k & mask);
      if new_idx == idx {
        return None;
      }
      let mut s = seg[..seg.len() - 1].to_string();
      s.push(B64ALPHA[new_idx as usize] as char);
      Some(s)
    }
  }
}

/// Applies a mutation to the authentic token text; None when it does not apply to this token.
pub fn apply(m: &Mut, spec: &TokSpec, t: &str) -> Option<String> {
  let (header, pseg, fseg) = split_token(t)?;
  let payload = unb64(&pseg)?;
  let p = spec.proto;
  match m {
    Mut::FlipBit(i) => {
      let i = *i as usize;
      if i >= payload.len() * 8 {
        return None;
      }
      let mut b = payload.clone();
      b[i / 8] ^= 1 << (i % 8);
      Some(rejoin(&header, &b64(&b), fseg.as_deref()))
    }
    Mut::SubstChar(j, c) => {
      let chars: Vec<char> = t.chars().collect();
      let j = *j as usize;
      if j >= chars.len() || chars[j] == *c {
        return None;
      }
      let mut out = chars.clone();
      out[j] = *c;
      Some(out.into_iter().collect())
    }
    Mut::PrefixText(n) => {
      let n = *n as usize;
      if n >= t.len() || !t.is_char_boundary(n) {
        return None;
      }
      Some(t[..n].to_string())
    }
    Mut::PrefixPayload(n) => {
      let n = *n as usize;
      if n >= payload.len() {
        return None;
      }
      Some(rejoin(&header, &b64(&payload[..n]), fseg.as_deref()))
    }
    Mut::AppendPayload(bytes) => {
      if bytes.is_empty() {
        return None;
      }
      let mut b = payload.clone();
      b.extend_from_slice(bytes);
      Some(rejoin(&header, &b64(&b), fseg.as_deref()))
    }
    Mut::AppendText(s) => {
      if s.is_empty() {
        return None;
      }
      Some(format!("{t}{s}"))
    }
    Mut::InsertByte(off, byte) => {
      let off = *off as usize;
      if off > payload.len() {
        return None;
      }
      let mut b = payload.clone();
      b.insert(off, *byte);
      Some(rejoin(&header, &b64(&b), fseg.as_deref()))
    }
    Mut::DeleteByte(off) => {
      let off = *off as usize;
      if off >= payload.len() {
        return None;
      }
      let mut b = payload.clone();
      b.remove(off);
      Some(rejoin(&header, &b64(&b), fseg.as_deref()))
    }
    Mut::MoveFooterDot(k) => {
      let f = fseg?;
      let joined = format!("{pseg}{f}");
      let pos = pseg.len() as i64 + *k as i64;
      if *k == 0 || pos < 0 || pos as usize > joined.len() {
        return None;
      }
      let pos = pos as usize;
      if !joined.is_char_boundary(pos) {
        return None;
      }
      Some(format!("{header}{}.{}", &joined[..pos], &joined[pos..]))
    }
    Mut::DropFooterDot => {
      let f = fseg?;
      Some(format!("{header}{pseg}{f}"))
    }
    Mut::SwapPayloadAndFooter => {
      let f = fseg?;
      Some(format!("{header}{f}.{pseg}"))
    }
    Mut::B64Variant(seg, kind) => {
      if *seg == 0 {
        Some(rejoin(&header, &b64_variant(&pseg, *kind)?, fseg.as_deref()))
      } else {
        let f = fseg?;
        Some(rejoin(&header, &pseg, Some(&b64_variant(&f, *kind)?)))
      }
    }
    Mut::Prepend(pre) => {
      if pre.is_empty() {
        return None;
      }
      Some(format!("{pre}{t}"))
    }
    Mut::FooterRepeat(k) => {
      let f = fseg?;
      if f.is_empty() {
        return None;
      }
      let seg = if *k % 4 == 0 {
        let n = f.len();
        let p = (1..n).find(|p| n % p == 0 && f.as_bytes().chunks(*p).all(|c| c == &f.as_bytes()[..*p]))?;
        f[..p].to_string()
      } else {
        f.repeat(1 + (*k as usize % 4))
      };
      Some(rejoin(&header, &pseg, Some(&seg)))
    }
    Mut::FooterLookAlike(at, how) => {
      let f = fseg?;
      let text = String::from_utf8(unb64(&f)?).ok()?;
      if text.is_empty() {
        return None;
      }
      let other = if how % 2 == 0 {
        let mut chars: Vec<char> = text.chars().collect();
        chars.insert(crate::engine::pick(*at, chars.len() + 1), crate::c05::INVISIBLES[(*how as usize / 2) % crate::c05::INVISIBLES.len()]);
        chars.into_iter().collect::<String>()
      } else {
        crate::gen::confusable(&text, how / 2)?
      };
      Some(rejoin(&header, &pseg, Some(&b64(other.as_bytes()))))
    }
    Mut::FooterJsonRespell(how) => {
      let f = fseg?;
      let text = String::from_utf8(unb64(&f)?).ok()?;
      let other = crate::c05::json_respell(&text, *how)?;
      Some(rejoin(&header, &pseg, Some(&b64(other.as_bytes()))))
    }
    Mut::Respell(j, style) => {
      let chars: Vec<char> = t.chars().collect();
      let j = *j as usize;
      let c = *chars.get(j)?;
      let new = match style % 5 {
        0 => format!("%{:02X}", c as u32),
        1 => format!("%{:02x}", c as u32),
        2 => format!("&#{};", c as u32),
        3 => format!("\\u{:04x}", c as u32),
        _ => match c {
          '.' => "\u{ff0e}".to_string(),
          '-' => "\u{2010}".to_string(),
          '_' => "\u{ff3f}".to_string(),
          c if c.is_ascii_alphanumeric() => char::from_u32(0xff00 + (c as u32 - 0x20))?.to_string(),
          _ => return None,
        },
      };
      let mut out: String = chars[..j].iter().collect();
      out.push_str(&new);
      out.extend(chars[j + 1..].iter());
      Some(out)
    }
    Mut::InsertText(at, ins) => {
      let chars: Vec<char> = t.chars().collect();
      let at = (*at as usize).min(chars.len());
      if ins.is_empty() {
        return None;
      }
      let mut out: String = chars[..at].iter().collect();
      out.push_str(ins);
      out.extend(chars[at..].iter());
      Some(out)
    }
    Mut::DupRange(start, len, at) => {
      let chars: Vec<char> = t.chars().collect();
      let start = (*start as usize).min(chars.len());
      let end = (start + *len as usize).min(chars.len());
      if end <= start {
        return None;
      }
      let at = (*at as usize).min(chars.len());
      let mut out: String = chars[..at].iter().collect();
      out.extend(chars[start..end].iter());
      out.extend(chars[at..].iter());
      Some(out)
    }
    Mut::Splice(kind, other) => {
      let mut o = (**other).clone();
      // same protocol, layer and key; its own nonce, message, footer, assertion
      o.proto = spec.proto;
      o.layer = spec.layer;
      o.key_seed = spec.key_seed.clone();
      let t2 = o.token().ok()?;
      let (_, pseg2, fseg2) = split_token(&t2)?;
      let payload2 = unb64(&pseg2)?;
      let (nl, tl) = (p.nonce_len(), p.trailer_len());
      if payload.len() < nl + tl || payload2.len() < nl + tl {
        return None;
      }
      let (n1, c1, t1) = (&payload[..nl], &payload[nl..payload.len() - tl], &payload[payload.len() - tl..]);
      let (n2, c2, t2b) = (&payload2[..nl], &payload2[nl..payload2.len() - tl], &payload2[payload2.len() - tl..]);
      let spliced: Vec<u8> = match kind % 8 {
        0 => [n1, c2, t2b].concat(),
        1 => [n1, c1, t2b].concat(),
        2 => [n2, c1, t1].concat(),
        3 => [n1, c2, t1].concat(),
        4 => [n2, c2, t1].concat(),
        5 => [n2, c1, t2b].concat(),
        6 => return Some(rejoin(&header, &pseg, fseg2.as_deref())).filter(|x| x != &t2),
        _ => return Some(rejoin(&header, &pseg2, fseg.as_deref())).filter(|x| x != &t2),
      };
      let out = rejoin(&header, &b64(&spliced), fseg.as_deref());
      if out == t2 {
        return None;
      }
      Some(out)
    }
    Mut::Multi(ms) => {
      let mut cur = t.to_string();
      let mut any = false;
      for m in ms {
        if matches!(m, Mut::Multi(_) | Mut::Splice(..)) {
          continue;
        }
        if let Some(n) = apply(m, spec, &cur) {
          cur = n;
          any = true;
        }
      }
      if any {
        Some(cur)
      } else {
        None
      }
    }
  }
}

// ------------------------------------------------------------------------------------------------
// the check

#[derive(Clone, Debug, Serialize, Deserialize)]
pub struct TamperCase {
  pub tok: TokSpec,
  pub m: Mut,
}

pub struct Tamper {
  pub proto: Proto,
  pub layer: Layer,
  pub kind: &'static str,
}

/// (b) of the tolerated class: a public token whose header, message bytes and footer segment are identical
/// and whose signature bytes differ
fn only_signature_differs(p: Proto, t: &str, t2: &str) -> bool {
  if p.is_local() {
    return false;
  }
  let (Some((h1, p1, f1)), Some((h2, p2, f2))) = (split_token(t), split_token(t2)) else { return false };
  let (Some(b1), Some(b2)) = (unb64(&p1), unb64(&p2)) else { return false };
  let sl = p.trailer_len();
  if b1.len() != b2.len() || b1.len() < sl {
    return false;
  }
  h1 == h2 && f1 == f2 && b1[..b1.len() - sl] == b2[..b2.len() - sl] && b1[b1.len() - sl..] != b2[b2.len() - sl..]
}

pub fn judge(spec: &TokSpec, t: &str, mutated: &str, op: &str, cl: &mut Classes) -> Verdict {
  let p = spec.proto;
  let segs = mutated.split('.').count();
  let reaches_decode = mutated.starts_with(p.header()) && (3..=4).contains(&segs);
  cl.tag(format!("{}:{}", p.label(), spec.layer.label()));
  cl.tag(format!("op:{op}"));
  cl.nontrivial(reaches_decode);
  let out = parse_with_counter(spec, mutated);
  match out.result {
    Err(e) => {
      cl.tag(format!("rejected:{}", e.variant));
      if reaches_decode && unb64(mutated.split('.').nth(2).unwrap_or("!")).map(|b| b.len() >= p.fixed_len()).unwrap_or(false) {
        cl.tag("reached-authentication");
      }
      if !e.before_plaintext() {
        vio!("C03:plaintext-error:{}:{}:{}", p.label(), spec.layer.label(), e.variant;
          "altered token ({}) was rejected only while handling plaintext: {} — original {} altered {}", op, e.text, t, mutated);
      }
      if out.validator_calls != 0 {
        vio!("C03:validator-ran-on-rejected-token:{}:{}", p.label(), spec.layer.label(); "validator ran {} time(s) although the token was rejected ({})", out.validator_calls, e.variant);
      }
      Verdict::Pass
    }
    Ok(m) => {
      let same_message = m.as_deref() == Some(spec.msg.as_str());
      let trailing_dot = mutated.strip_suffix('.') == Some(t) || t.strip_suffix('.') == Some(mutated);
      let tolerated = same_message && (trailing_dot || only_signature_differs(p, t, mutated));
      if tolerated {
        cl.tag(if trailing_dot { "accepted:trailing-dot" } else { "accepted:signature-re-encoded" });
        return Verdict::Pass;
      }
      let what = if same_message { "same-content" } else { "different-content" };
      vio!("C03:accepted:{}:{}:{}:{}", p.label(), spec.layer.label(), op, what;
        "altered token accepted ({}), returned {:?}; original message {:?}; original {} altered {}", op, m, spec.msg, t, mutated);
    }
  }
}

impl Sub for Tamper {
  type Case = TamperCase;
  fn name(&self) -> String {
    format!("C03/{}/{}/{}", self.kind, self.proto.label(), self.layer.label())
  }
  fn check(&self, c: &TamperCase, cl: &mut Classes) -> Verdict {
    let t = match c.tok.token() {
      Ok(t) => t,
      Err(_) => return Verdict::Discard,
    };
    // control: the unaltered token is accepted with its message (otherwise nothing below means anything)
    let ctl = parse_with_counter(&c.tok, &t);
    if ctl.result.as_ref().ok().and_then(|m| m.clone()).as_deref() != Some(c.tok.msg.as_str()) {
      return Verdict::Discard;
    }
    let mutated = match apply(&c.m, &c.tok, &t) {
      Some(m) if m != t => m,
      _ => return Verdict::Discard,
    };
    judge(&c.tok, &t, &mutated, c.m.kind(), cl)
  }
}

// ------------------------------------------------------------------------------------------------
// enumeration and generation

pub fn fixed_spec(proto: Proto, layer: Layer, variant: u8) -> TokSpec {
  let with_extras = variant % 2 == 1;
  TokSpec {
    proto,
    layer,
    key_seed: (0..32).map(|i| (i as u8).wrapping_mul(29).wrapping_add(variant).wrapping_add(proto as u8 * 7)).collect(),
    nonce: (0..if proto == Proto::V2L { 24 } else { 32 }).map(|i| (i as u8).wrapping_mul(13).wrapping_add(variant * 3 + 1)).collect(),
    msg: match variant / 2 {
      0 => "{\"data\":\"abc\",\"n\":1}".to_string(),
      1 => String::new(),
      2 => "{\"k\":[1,2,3],\"s\":\"0123456789abcdefghijklmnop\"}".to_string(),
      n => format!("{{\"v\":{}}}", n),
    },
    // footer lengths 13, 14, 12 bytes across variants: base64 segments with 4, 2 and 0 unused trailing bits
    footer: if with_extras { Some(format!("{{\"kid\":\"k{}\"}}", ["1x", "1xy", "1"][(variant as usize / 2) % 3])) } else { None },
    assertion: if with_extras && proto.has_assertion() { Some("bound-to-user-7".to_string()) } else { None },
    core_payload: None,
  }
}

/// every mutation of the exhaustive operators for one authentic token; `stride` thins the character
/// substitutions for expensive protocols
pub fn exhaustive_mutations(spec: &TokSpec, stride: usize) -> Vec<Mut> {
  let t = match spec.token() {
    Ok(t) => t,
    Err(_) => return vec![],
  };
  let (_, pseg, _) = split_token(&t).expect("well-formed");
  let n = unb64(&pseg).expect("payload").len() as u32;
  let l = t.chars().count() as u32;
  let mut v = vec![];
  for i in 0..n * 8 {
    v.push(Mut::FlipBit(i));
  }
  let syms: Vec<char> = B64ALPHA.iter().map(|b| *b as char).chain(EXTRA_SYMS).collect();
  let mut k = 0usize;
  for j in 0..l {
    for s in &syms {
      k += 1;
      if k % stride == 0 {
        v.push(Mut::SubstChar(j, *s));
      }
    }
  }
  for i in 0..l {
    v.push(Mut::PrefixText(i));
  }
  for i in 0..n {
    v.push(Mut::PrefixPayload(i));
    v.push(Mut::DeleteByte(i));
  }
  for i in 0..=n {
    v.push(Mut::InsertByte(i, 0));
    v.push(Mut::InsertByte(i, 0x41));
  }
  for b in [vec![0u8], vec![0xff], vec![0u8; 16], vec![0x7b, 0x7d], vec![0u8; 64]] {
    v.push(Mut::AppendPayload(b));
  }
  for s in ["A", "AA", "AAA", "AAAA", ".", "..", ".x", ".Zm9v", "=", "==", ".e30", " ", "\n", "\0"] {
    v.push(Mut::AppendText(s.to_string()));
  }
  // extensions by exactly 2^8, 2^9, 2^16 characters / bytes (a length folded into fewer bits would not see them)
  for n in [255usize, 256, 257, 512, 65536] {
    v.push(Mut::AppendText("A".repeat(n)));
    v.push(Mut::AppendPayload(vec![0x41u8; n]));
  }
  // the token's own parts once more: header(s) in front, header after the header, each segment duplicated
  let hdr = spec.proto.header();
  for pre in [hdr.to_string(), hdr.repeat(2), hdr.repeat(3), hdr[..3].to_string(), ".".to_string(), "v4.local.".to_string(), "v2.public.".to_string(), " ".to_string(), "\u{feff}".to_string()] {
    v.push(Mut::Prepend(pre));
  }
  for how in 0..5u8 {
    v.push(Mut::FooterJsonRespell(how));
  }
  for k in 0..4u8 {
    v.push(Mut::FooterRepeat(k));
  }
  for how in 0..40u8 {
    for at in [0u16, 9000, 21000, 40000, 65535] {
      v.push(Mut::FooterLookAlike(at, how));
    }
  }
  // every character written as its percent-escape; every 7th in the other styles
  for j in 0..l {
    v.push(Mut::Respell(j, 0));
    if j % 7 == 0 {
      for style in 1..5u8 {
        v.push(Mut::Respell(j, style));
      }
    }
  }
  let hl = hdr.len() as u32;
  v.push(Mut::InsertText(hl, hdr.to_string()));
  v.push(Mut::InsertText(3, hdr[..3].to_string()));
  v.push(Mut::DupRange(0, hl, hl));
  v.push(Mut::DupRange(hl, l - hl, l));
  v.push(Mut::DupRange(hl, l - hl, hl));
  v.push(Mut::DupRange(0, l, l));
  for k in [-3, -2, -1, 1, 2, 3] {
    v.push(Mut::MoveFooterDot(k));
  }
  v.push(Mut::DropFooterDot);
  v.push(Mut::SwapPayloadAndFooter);
  for seg in 0..2u8 {
    for kind in 0..19u8 {
      v.push(Mut::B64Variant(seg, kind));
    }
  }
  v
}

/// pairs (and a few quadruples) of bit flips whose per-byte differences cancel under addition or parity
pub fn cancelling_pairs(spec: &TokSpec, bits: &[u32]) -> Vec<Mut> {
  let t = match spec.token() {
    Ok(t) => t,
    Err(_) => return vec![],
  };
  let (_, pseg, _) = split_token(&t).expect("well-formed");
  let n = unb64(&pseg).expect("payload").len() as u32;
  let mut v = vec![];
  let mut regions = vec![(n.saturating_sub(48), n)];
  if n > 96 {
    regions.push((0, 32));
  }
  for (lo, hi) in regions {
    for &b in bits {
      for i in lo..hi {
        for j in i + 1..hi {
          v.push(Mut::Multi(vec![Mut::FlipBit(8 * i + b), Mut::FlipBit(8 * j + b)]));
        }
      }
    }
    for i in lo..hi.saturating_sub(1) {
      // 0x01 against 0xff (sum 0x100), and 0x80 against 0x80 is covered above
      let mut m = vec![Mut::FlipBit(8 * i)];
      m.extend((0..8).map(|k| Mut::FlipBit(8 * (i + 1) + k)));
      v.push(Mut::Multi(m));
    }
    for i in lo..hi.saturating_sub(3) {
      v.push(Mut::Multi((0..4).map(|k| Mut::FlipBit(8 * (i + k) + 6)).collect()));
    }
  }
  v
}

fn simple_mut() -> BoxedStrategy<Mut> {
  prop_oneof![
    4 => (0u32..4000).prop_map(Mut::FlipBit),
    4 => (0u32..700, any::<u16>()).prop_map(|(j, s)| {
      let i = pick(s, 64 + EXTRA_SYMS.len());
      Mut::SubstChar(j, if i < 64 { B64ALPHA[i] as char } else { EXTRA_SYMS[i - 64] })
    }),
    1 => (0u32..700, any::<char>()).prop_map(|(j, c)| Mut::SubstChar(j, c)),
    2 => (0u32..700).prop_map(Mut::PrefixText),
    2 => (0u32..500).prop_map(Mut::PrefixPayload),
    2 => vec(any::<u8>(), 1..40).prop_map(Mut::AppendPayload),
    1 => prop_oneof![gen::jsonish(6), gen::unicode(4), Just(".".to_string()), Just("..".to_string())].prop_map(Mut::AppendText),
    3 => (0u32..500, any::<u8>()).prop_map(|(o, b)| Mut::InsertByte(o, b)),
    3 => (0u32..500).prop_map(Mut::DeleteByte),
    1 => (-40i32..40).prop_map(Mut::MoveFooterDot),
    1 => Just(Mut::DropFooterDot),
    1 => Just(Mut::SwapPayloadAndFooter),
    1 => prop_oneof![Just("v1.local.".to_string()), Just("v2.local.".to_string()), Just("v3.local.".to_string()), Just("v4.local.".to_string()), Just("v1.public.".to_string()), Just("v2.public.".to_string()), Just("v3.public.".to_string()), Just("v4.public.".to_string()), gen::special()].prop_map(Mut::Prepend),
    1 => (0u32..30, prop_oneof![Just("v4.local.".to_string()), Just(".".to_string()), gen::special(), gen::jsonish(4)]).prop_map(|(a, t)| Mut::InsertText(a, t)),
    2 => (0u32..700, 1u32..300, 0u32..700).prop_map(|(a, b, c)| Mut::DupRange(a, b, c)),
    2 => (0u8..2, 0u8..19).prop_map(|(s, k)| Mut::B64Variant(s, k)),
    2 => (0u32..700, 0u8..5).prop_map(|(j, s)| Mut::Respell(j, s)),
    1 => (0u8..5).prop_map(Mut::FooterJsonRespell),
    1 => (0u8..8).prop_map(Mut::FooterRepeat),
    2 => (any::<u16>(), any::<u8>()).prop_map(|(a, h)| Mut::FooterLookAlike(a, h)),
  ]
  .boxed()
}

/// texts whose length sits at the places where a length might be truncated or folded (2^8, 2^16)
pub fn long_text() -> BoxedStrategy<String> {
  (any::<u16>(), 0u8..4).prop_map(|(i, f)| gen::sized([191usize, 192, 255, 256, 257, 300, 65535, 65536, 65537, 70_000][pick(i, 10)], f)).boxed()
}

pub fn tok_spec(proto: Proto, layer: Layer) -> BoxedStrategy<TokSpec> {
  let nonce_len = if proto == Proto::V2L { 24 } else { 32 };
  (
    gen::bytes32(),
    vec(any::<u8>(), nonce_len),
    gen::jsonish(48),
    prop_oneof![20 => Just(None), 10 => Just(Some(String::new())), 30 => gen::jsonish(20).prop_map(Some), 10 => gen::unicode(8).prop_map(Some), 5 => gen::special().prop_map(Some), 2 => long_text().prop_map(Some)],
    prop_oneof![20 => Just(None), 10 => Just(Some(String::new())), 30 => gen::jsonish(20).prop_map(Some), 5 => gen::unicode(8).prop_map(Some), 5 => gen::special().prop_map(Some), 2 => long_text().prop_map(Some)],
  )
    .prop_map(move |(key_seed, nonce, msg, footer, assertion)| TokSpec { proto, layer, key_seed, nonce, msg, footer, assertion: if proto.has_assertion() { assertion } else { None }, core_payload: None })
    .boxed()
}

fn random_case(proto: Proto, layer: Layer) -> BoxedStrategy<TamperCase> {
  let m = prop_oneof![
    6 => simple_mut(),
    2 => vec(simple_mut(), 2..5).prop_map(Mut::Multi),
    3 => (0u8..8, tok_spec(proto, layer)).prop_map(|(k, o)| Mut::Splice(k, Box::new(o))),
  ];
  (tok_spec(proto, layer), m).prop_map(|(tok, m)| TamperCase { tok, m }).boxed()
}

// ------------------------------------------------------------------------------------------------
// libFuzzer support (thorough tier): candidate texts against a fixed pool of deterministic authentic tokens

#[derive(Clone, Debug, Serialize, Deserialize)]
pub struct FuzzCase {
  pub pool: u16,
  pub text: String,
}

/// 8 protocols x 3 parse layers x {plain, footer+assertion}; built through the core layer so that the token
/// text does not depend on the time or the process (RSA-PSS excepted, which the tolerated class covers)
pub fn pool_specs() -> Vec<TokSpec> {
  let mut v = vec![];
  for proto in Proto::ALL {
    for layer in Layer::ALL {
      for variant in 0..2u8 {
        let mut s = fixed_spec(proto, layer, variant);
        let payload = format!("{{\"data\":\"payload-{}\",\"exp\":\"2999-01-01T00:00:00Z\",\"nbf\":\"2000-01-01T00:00:00Z\"}}", variant);
        s.msg = if layer == Layer::Core { payload.clone() } else { format!("payload-{}", variant) };
        s.core_payload = Some(payload);
        v.push(s);
      }
    }
  }
  v
}

pub fn fuzz_decode(data: &[u8]) -> Option<FuzzCase> {
  let (first, rest) = data.split_first()?;
  let text = std::str::from_utf8(rest).ok()?.to_string();
  Some(FuzzCase { pool: (*first as u16) % (pool_specs_len() as u16), text })
}

pub fn pool_specs_len() -> usize {
  Proto::ALL.len() * 3 * 2
}

/// seed inputs: every pool token behind its pool index, plus a few near misses
pub fn fuzz_seeds() -> Vec<Vec<u8>> {
  let mut out = vec![];
  for (i, s) in pool_specs().iter().enumerate() {
    if let Ok(t) = s.token() {
      let mut v = vec![i as u8];
      v.extend_from_slice(t.as_bytes());
      out.push(v);
    }
  }
  out
}

// ---------------------------------------------------------------- boundary shifts with content written for them

/// A public token whose message ends in `reps` copies of the 8-byte little-endian length of its footer - the content for
/// which moving those `8 * reps` bytes across the message/footer boundary (signature untouched) leaves the signed byte
/// string unchanged IF the length prefixes of the pre-authentication encoding do not tell the two splits apart.
#[derive(Clone, Debug, Serialize, Deserialize)]
pub struct ShiftCase {
  pub proto: Proto,
  #[serde(with = "gen::hexser")]
  pub seed: Vec<u8>,
  pub prefix: String,
  pub footer: String,
  pub reps: u16,
  /// also carry an implicit assertion (v3/v4)
  pub with_assertion: bool,
}

pub struct BoundaryShift;
impl Sub for BoundaryShift {
  type Case = ShiftCase;
  fn name(&self) -> String {
    "C03/message-footer-boundary-shift".into()
  }
  fn check(&self, c: &ShiftCase, cl: &mut Classes) -> Verdict {
    let p = c.proto;
    if p.is_local() || c.footer.len() >= 128 || c.reps == 0 {
      return Verdict::Discard;
    }
    let km = keys::material(p, &gen::arr32(&c.seed));
    let lk = km.lib().expect("valid key");
    let a = if c.with_assertion && p.has_assertion() { Some("bound") } else { None };
    let unit: String = std::iter::once(c.footer.len() as u8 as char).chain(std::iter::repeat('\0').take(7)).collect();
    let tail = unit.repeat(c.reps as usize);
    let msg = format!("{}{}", c.prefix, tail);
    let t = match core_build(&lk, &[0u8; 32], &msg, Some(&c.footer), a) {
      Ok(t) => t,
      Err(_) => return Verdict::Discard,
    };
    match core_parse(&lk, &t, Some(&c.footer), a) {
      Ok(m) if m == msg => {}
      _ => return Verdict::Discard,
    }
    let (h, ps, _) = split_token(&t).expect("well-formed");
    let payload = unb64(&ps).expect("payload");
    let sig = &payload[payload.len() - p.trailer_len()..];
    cl.tag(format!("{}:shift={}", p.label(), if c.reps as usize * 8 >= 1024 { ">=1024".to_string() } else { (c.reps as usize * 8).to_string() }));
    cl.nontrivial(true);
    // (1) the tail moves from the end of the message to the start of the footer
    let f2 = format!("{}{}", tail, c.footer);
    let t2 = join_token(&h, &[c.prefix.as_bytes(), sig].concat(), Some(&b64(f2.as_bytes())));
    // (2) the head of the footer moves to the end of the message (the token built the other way round)
    for (what, token, footer) in [("message tail -> footer head", &t2, &f2)] {
      match core_parse(&lk, token, Some(footer), a) {
        Err(e) => cl.tag(format!("rejected:{}", e.variant)),
        Ok(m) => vio!("C03:accepted:{}:core:boundary-shift:{}", p.label(), if m == msg { "same-content" } else { "DIFFERENT-content" };
          "the signature made over (message of {} bytes, footer of {} bytes) was accepted for ({} bytes, {} bytes) after moving {} bytes ({}); returned a message of {} bytes", msg.len(), c.footer.len(), c.prefix.len(), f2.len(), tail.len(), what, m.len()),
      }
    }
    Verdict::Pass
  }
}

fn shift_case() -> BoxedStrategy<ShiftCase> {
  (any::<u16>(), gen::bytes32(), gen::jsonish(24), gen::jsonish(20), prop_oneof![4 => 1u16..40, 3 => prop_oneof![Just(16u16), Just(32u16), Just(64u16), Just(128u16), Just(8192u16)], 1 => 40u16..300], any::<bool>())
    .prop_map(|(i, seed, prefix, footer, reps, with_assertion)| ShiftCase { proto: [Proto::V2P, Proto::V4P, Proto::V4P, Proto::V1P, Proto::V3P][pick(i, 5)], seed, prefix, footer, reps, with_assertion })
    .boxed()
}

pub struct TamperFuzz;
impl Sub for TamperFuzz {
  type Case = FuzzCase;
  fn name(&self) -> String {
    "C03/libfuzzer".into()
  }
  fn check(&self, c: &FuzzCase, cl: &mut Classes) -> Verdict {
    let specs = pool_specs();
    let spec = &specs[(c.pool as usize) % specs.len()];
    let t = match spec.token() {
      Ok(t) => t,
      Err(_) => return Verdict::Discard,
    };
    if c.text == t {
      return Verdict::Discard;
    }
    judge(spec, &t, &c.text, "fuzzed", cl)
  }
}

/// entry point of the fz_tamper target: Some((signature, detail)) on an oracle violation
pub fn fuzz_one(data: &[u8]) -> Option<(String, String)> {
  let c = fuzz_decode(data)?;
  let mut cl = Classes::default();
  match TamperFuzz.check(&c, &mut cl) {
    Verdict::Violation { sig, detail } => Some((sig, detail)),
    _ => None,
  }
}

fn all_subs() -> Vec<Tamper> {
  let mut v = vec![];
  for proto in Proto::ALL {
    for layer in Layer::ALL {
      for kind in ["exhaustive", "random"] {
        v.push(Tamper { proto, layer, kind });
      }
    }
  }
  v
}

pub fn subs() -> Vec<Box<dyn DynSub>> {
  let mut v: Vec<Box<dyn DynSub>> = all_subs().into_iter().map(|s| Box::new(s) as Box<dyn DynSub>).collect();
  v.push(Box::new(TamperFuzz));
  v.push(Box::new(BoundaryShift));
  v
}

pub fn run(ctx: &Ctx) -> EvidenceMeta {
  let subs = all_subs();
  let mut jobs: Vec<Job> = vec![];
  // libFuzzer artifacts and corpus (if the check script ran a campaign) are re-judged here, outside libFuzzer
  jobs.push(Box::new(move || ctx.fuzz_inputs(&TamperFuzz, "fz_tamper", fuzz_decode)));
  for s in &subs {
    if s.kind == "exhaustive" {
      // quick: 2 tokens per (protocol, layer) (v3.public: 1, substitutions thinned); thorough: 8 tokens (v3.public 3)
      let ntok: u8 = match (s.proto, ctx.quick()) {
        _ if ctx.is_child() => 1, // a child process (other build profile) sweeps one token per (protocol, layer), thinned
        (Proto::V3P, true) => 1,
        (Proto::V3P, false) => 3,
        (_, true) => 2,
        (_, false) => 8,
      };
      let stride = match (s.proto, s.layer, ctx.quick()) {
        (Proto::V3P, _, _) if ctx.is_child() => 48,
        _ if ctx.is_child() => 4,
        (Proto::V3P, Layer::Core, true) => 8,
        (Proto::V3P, _, true) => 24,
        (Proto::V3P, _, false) => 2,
        _ => 1,
      };
      for variant in 0..ntok {
        // variant 1 (with footer and assertion) first for v3.public's single token
        let variant = if s.proto == Proto::V3P && ntok == 1 { 1 } else { variant };
        jobs.push(Box::new(move || {
          let spec = fixed_spec(s.proto, s.layer, variant);
          let muts = exhaustive_mutations(&spec, stride);
          ctx.enumerate(s, muts.into_iter().map(|m| TamperCase { tok: spec.clone(), m }), stride == 1);
        }));
      }
    } else {
      let n = (ctx.n(6000, 100_000) / s.proto.cost().min(20)).max(200);
      jobs.push(Box::new(move || ctx.prop(s, random_case(s.proto, s.layer), n)));
    }
  }
  // footers whose text ends in NULs, blanks or '=' (what a fixed, zero-filled or padded buffer would hide): every exhaustive
  // operator again - among them every prefix of the token text, which cuts the footer segment back byte by byte
  for s in subs.iter().filter(|s| s.kind == "exhaustive" && matches!(s.proto, Proto::V4L | Proto::V2L | Proto::V4P)) {
    for (i, f) in ["kid-7\u{0}\u{0}", "\u{0}", "ab\u{0}", "k \u{0}\u{0}\u{0}", "pad==", "trailing  ", "fff", "abcabcabcabc"].into_iter().enumerate() {
      jobs.push(Box::new(move || {
        let mut spec = fixed_spec(s.proto, s.layer, 1 + 2 * (i as u8 % 3));
        spec.footer = Some(f.to_string());
        let muts = exhaustive_mutations(&spec, 6);
        ctx.enumerate(s, muts.into_iter().map(|m| TamperCase { tok: spec.clone(), m }), false);
      }));
    }
  }
  // cancelling edits: the same bit flipped in two bytes of the authenticator (and of the leading 32 bytes), one bit against all
  // eight of a neighbour, 0x40 in four bytes - differences that vanish in a comparison which adds, counts or folds per-byte
  // differences instead of OR-ing them. Every pair inside the trailing 48 bytes (tag / signature tail) of one authentic token.
  for s in subs.iter().filter(|s| s.kind == "exhaustive") {
    jobs.push(Box::new(move || {
      let spec = fixed_spec(s.proto, s.layer, 1);
      let muts = cancelling_pairs(&spec, if s.proto.cost() > 4 { &[7] } else { &[7, 6, 0] });
      ctx.enumerate(s, muts.into_iter().map(|m| TamperCase { tok: spec.clone(), m }), false);
    }));
  }
  let bs = &BoundaryShift;
  let n_shift = ctx.n(3000, 40_000);
  jobs.push(Box::new(move || ctx.prop(bs, shift_case(), n_shift)));
  jobs.push(Box::new(move || {
    // every shift of 8..=2048 bytes in steps of 8 for one v4.public and one v2.public token (footer lengths 10 and 0..=127 cycling)
    let cases = (1u16..=256).flat_map(|reps| [Proto::V4P, Proto::V2P].into_iter().map(move |proto| ShiftCase { proto, seed: vec![7u8; 32], prefix: "{\"data\":\"x\"}".into(), footer: "k".repeat(if proto == Proto::V4P { 10 } else { (reps as usize * 5) % 128 }), reps, with_assertion: reps % 2 == 0 }));
    ctx.enumerate(bs, cases, false)
  }));
  run_jobs(jobs);
  EvidenceMeta {
    rule: "authentic token T (fixed and generated: any protocol, key, nonce, JSON-ish message 0-48 bytes, footer/assertion in {none, empty, text}) built and parsed at the core, generic or batteries-included layer; \
           exhaustive per fixed token: every single-bit flip of the decoded payload, every single-character substitution by each of 70 symbols, every prefix of the text and of the payload, byte insertion/deletion at every offset, extensions, footer-dot moves, all non-canonical base64 variants of both segments; \
           generated: random single edits, multi-edit scripts (shrunk to the fewest edits) and 8 kinds of splices of two authentic tokens under one key; \
           message/footer boundary shifts of public tokens whose message ends in copies of the footer's 8-byte length encoding (the content for which a length encoding that confuses two lengths makes both splits sign the same bytes): every shift of 8..=2048 bytes plus generated ones. \
           Oracle: T' != T is rejected with a format/authentication error (never Utf8/FromUtf8/PayloadJson/Claim error, and a validator registered for a claim present in the payload has run 0 times), \
           or accepted with exactly the original message and T' differs from T only by a trailing '.' or (public) only in its signature bytes. The unaltered token is parsed first as a control. \
           Non-trivial = T' has the right header and 3-4 segments (reaches base64 decoding or further); distinct by (token spec, mutation). Discarded = mutation not applicable to that token."
      .into(),
    assumptions: vec!["no search can forge a MAC or signature; what is detected are structural weaknesses reachable by cheap transformations of authentic tokens".into()],
  }
}
