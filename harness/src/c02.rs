//! C02 – public tokens verify back to exactly the message that was signed (all three layers).
use crate::c01::{all_subs, run_rt};
use crate::engine::*;
use crate::proto::*;

pub fn subs() -> Vec<Box<dyn DynSub>> {
  all_subs("C02", &Proto::PUBLIC).into_iter().map(|s| Box::new(s) as Box<dyn DynSub>).collect()
}

pub fn run(ctx: &Ctx) -> EvidenceMeta {
  let subs = all_subs("C02", &Proto::PUBLIC);
  // per-unit budgets are divided by the protocol's cost factor (v2/v4: 2, v1: 8, v3: 40)
  run_rt(ctx, &subs, 8000, 60_000, 100_000, 1_000_000);
  EvidenceMeta {
    rule: "as C01 with the public protocols: a fresh Ed25519 / P-384 key pair derived from a generated seed per case, RSA-2048 pairs from a pool of 7 (6 generated offline + the official v1 vector key). \
           Oracle: verify(sign(m)) == m exactly at core, generic and batteries-included layers. Non-trivial = message non-empty or footer/assertion present; distinct by the whole case (incl. key seed)."
      .into(),
    assumptions: vec!["RSA key pairs come from a fixed pool (no RSA key generator is available offline in Rust)".into()],
  }
}
