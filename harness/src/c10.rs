//! C10 – high-level builders never reuse a nonce (histories of N builds under one key).
use crate::engine::*;
use crate::keys;
use crate::proto::*;
use serde::{Deserialize, Serialize};
use serde_json::json;
use std::collections::HashSet;

#[derive(Clone, Debug, Serialize, Deserialize)]
pub struct NonceHistory {
  pub proto: Proto,
  pub layer: Layer,
  /// 0 identical claims/footer/assertion for every build, a fresh builder per build;
  /// 1 varying claims; 2 identical claims, ONE builder built N times
  pub mode: u8,
  pub n: u32,
}

pub struct Freshness;

impl Sub for Freshness {
  type Case = NonceHistory;
  fn name(&self) -> String {
    "C10/nonce-histories".into()
  }
  fn check(&self, c: &NonceHistory, cl: &mut Classes) -> Verdict {
    let p = c.proto;
    let km = keys::material(p, &[42u8; 32]);
    let lk = km.lib().expect("valid key");
    let nl = p.nonce_len();
    let n = c.n as usize;
    let mut nonces: HashSet<Vec<u8>> = HashSet::with_capacity(n);
    let mut tokens: HashSet<String> = HashSet::with_capacity(n);
    let mut ones = vec![0u32; nl * 8];
    let mut byte_values: Vec<[bool; 256]> = vec![[false; 256]; nl];
    let fixed_claims = [
      ClaimSpec::Custom("data".into(), json!("same payload every time")),
      ClaimSpec::Exp("2999-01-01T00:00:00Z".into()),
      ClaimSpec::Iat("2000-01-01T00:00:00Z".into()),
      ClaimSpec::Nbf("2000-01-01T00:00:00Z".into()),
    ];
    let varying: Vec<ClaimSpec> = if c.mode == 1 { (0..n).map(|i| ClaimSpec::Custom("data".into(), json!(format!("payload {i}")))).collect() } else { vec![] };
    let mut shared = if c.mode == 2 { Some(new_builder(p, c.layer)) } else { None };
    if let Some(b) = shared.as_mut() {
      for cs in &fixed_claims {
        let _ = b.set(cs);
      }
      b.footer("kid-1");
      b.assertion("ctx");
    }
    let mut first_dup: Option<String> = None;
    for i in 0..n {
      let token = if let Some(b) = shared.as_mut() {
        b.build(&lk)
      } else {
        let mut b = new_builder(p, c.layer);
        for cs in &fixed_claims[1..] {
          let _ = b.set(cs);
        }
        let _ = b.set(if c.mode == 1 { &varying[i] } else { &fixed_claims[0] });
        b.footer("kid-1");
        b.assertion("ctx");
        b.build(&lk)
      };
      let token = match token {
        Ok(t) => t,
        Err(e) => vio!("C10:build-failed:{}:{}", p.label(), c.layer.label(); "build #{} failed: {}", i + 1, e.text),
      };
      let (_, pseg, _) = match split_token(&token) {
        Some(x) => x,
        None => vio!("C10:malformed-token"; "{}", token),
      };
      let payload = unb64(&pseg).unwrap_or_default();
      if payload.len() < nl {
        vio!("C10:malformed-token"; "payload shorter than the nonce: {}", token);
      }
      let nonce = payload[..nl].to_vec();
      for (j, b) in nonce.iter().enumerate() {
        byte_values[j][*b as usize] = true;
        for bit in 0..8 {
          if b & (1 << bit) != 0 {
            ones[j * 8 + bit] += 1;
          }
        }
      }
      if !nonces.insert(nonce.clone()) && first_dup.is_none() {
        first_dup = Some(format!("nonce {} of build #{} was already used", hex::encode(&nonce), i + 1));
      }
      if !tokens.insert(token.clone()) && first_dup.is_none() && c.mode != 1 {
        first_dup = Some(format!("token of build #{} equals an earlier token", i + 1));
      }
    }
    let mode = ["identical-claims", "varying-claims", "one-builder-built-repeatedly"][(c.mode % 3) as usize];
    cl.tag(format!("{}:{}:{}", p.label(), c.layer.label(), mode));
    cl.nontrivial(n >= 1000);
    if let Some(d) = first_dup {
      vio!("C10:nonce-or-token-repeated:{}:{}:{}", p.label(), c.layer.label(), mode; "{} ({} builds under one key, {} distinct nonces)", d, n, nonces.len());
    }
    // per-bit frequency: |ones - n/2| <= sqrt(30 n): by Hoeffding a uniform source fails one position with
    // probability <= 2 e^-60; over 256 positions x 48 histories that is < 2^-70
    if n >= 1000 {
      let bound = (30.0 * n as f64).sqrt();
      for (pos, k) in ones.iter().enumerate() {
        if ((*k as f64) - (n as f64) / 2.0).abs() > bound {
          vio!("C10:nonce-bit-not-uniform:{}:{}:{}", p.label(), c.layer.label(), mode; "bit {} of byte {} of the nonce is 1 in {} of {} builds (allowed {:.0} +- {:.0})", pos % 8, pos / 8, k, n, n as f64 / 2.0, bound);
        }
      }
      for (j, seen) in byte_values.iter().enumerate() {
        let distinct = seen.iter().filter(|b| **b).count();
        if distinct < 128 {
          vio!("C10:nonce-byte-position-constant:{}:{}:{}", p.label(), c.layer.label(), mode; "byte {} of the nonce takes only {} distinct values over {} builds", j, distinct, n);
        }
      }
    }
    if n >= 1000 {
      let (lo, hi) = (ones.iter().min().copied().unwrap_or(0), ones.iter().max().copied().unwrap_or(0));
      let first: Vec<String> = nonces.iter().take(2).map(hex::encode).collect();
      SAMPLES.lock().unwrap().push(json!({"history": format!("{}:{}:{}", p.label(), c.layer.label(), mode), "builds": n, "distinct_nonces": nonces.len(),
        "ones_per_bit_position_min_max": [lo, hi], "two_of_the_nonces": first}));
    }
    BUILDS.fetch_add(n as u64, std::sync::atomic::Ordering::Relaxed);
    DISTINCT.fetch_add(nonces.len() as u64, std::sync::atomic::Ordering::Relaxed);
    Verdict::Pass
  }
}

static SAMPLES: std::sync::Mutex<Vec<serde_json::Value>> = std::sync::Mutex::new(vec![]);
static BUILDS: std::sync::atomic::AtomicU64 = std::sync::atomic::AtomicU64::new(0);
static DISTINCT: std::sync::atomic::AtomicU64 = std::sync::atomic::AtomicU64::new(0);

pub fn subs() -> Vec<Box<dyn DynSub>> {
  vec![Box::new(Freshness)]
}

pub fn run(ctx: &Ctx) -> EvidenceMeta {
  let n = ctx.n(20_000, 100_000);
  let mut jobs: Vec<Job> = vec![];
  let f = Freshness;
  let fr = &f;
  for proto in Proto::LOCAL {
    for layer in [Layer::Generic, Layer::Prelude] {
      for mode in 0..3u8 {
        jobs.push(Box::new(move || ctx.enumerate(fr, std::iter::once(NonceHistory { proto, layer, mode, n }), false)));
      }
    }
  }
  run_jobs(jobs);
  let builds = BUILDS.load(std::sync::atomic::Ordering::Relaxed);
  let distinct = DISTINCT.load(std::sync::atomic::Ordering::Relaxed);
  let mut rep = SubReport { name: "C10/summary".into(), ..Default::default() };
  rep.extra.insert("builds_total".into(), json!(builds));
  rep.extra.insert("distinct_nonces_total".into(), json!(distinct));
  let mut samples = SAMPLES.lock().unwrap().clone();
  samples.sort_by_key(|v| v["history"].as_str().unwrap_or("").to_string());
  rep.extra.insert("history_summaries".into(), serde_json::Value::Array(samples));
  ctx.push_report(rep);
  EvidenceMeta {
    rule: format!("24 histories = 4 local versions x {{GenericBuilder, PasetoBuilder}} x {{identical claims with a fresh builder per build, varying claims, ONE builder built repeatedly}}, each of N = {n} builds under one key with identical footer and assertion. \
           Invariant over the history: the nonce fields (first 32, v2 24, decoded payload bytes) are pairwise distinct, the tokens are pairwise distinct, every one of the 256/192 nonce bit positions is 1 in N/2 +- sqrt(30 N) builds \
           (Hoeffding: a uniform source violates this with probability < 2^-70 over all positions and histories) and every nonce byte position takes >= 128 distinct values. \
           An 'evaluation' is one history; builds_total / distinct_nonces_total count the builds. Non-trivial = N >= 1000; distinct by (version, builder, mode)."),
    assumptions: vec!["observes the OS random generator (that is the property); 'unpredictable' is not decidable by observation - a weak but equidistributed generator passes".into()],
  }
}
