//! C10 – high-level builders never reuse a nonce (histories of N builds under one key).
use crate::engine::*;
use crate::keys;
use crate::proto::*;
use crate::proto::KeyMaterial;
use rusty_paseto::core::Key;
use serde::{Deserialize, Serialize};
use serde_json::json;
use std::collections::HashSet;

#[derive(Clone, Debug, Serialize, Deserialize)]
pub struct NonceHistory {
  pub proto: Proto,
  pub layer: Layer,
  /// 0 identical claims/footer/assertion for every build, a fresh builder per build;
  /// 1 varying claims; 2 identical claims, ONE builder built N times;
  /// 3 identical LARGE claims (a 70 000-byte claim), fresh builder per build;
  /// 4 builds of this version interleaved, on one thread, with builds of the other local versions following `pattern`
  pub mode: u8,
  pub n: u32,
  /// mode 4: the repeating block of versions (0..4 = v1..v4) that is built in turn
  #[serde(default)]
  pub pattern: Vec<u8>,
}

pub struct Freshness;

impl Sub for Freshness {
  type Case = NonceHistory;
  fn name(&self) -> String {
    "C10/nonce-histories".into()
  }
  fn check(&self, c: &NonceHistory, cl: &mut Classes) -> Verdict {
    let p = c.proto;
    let km = keys::material(p, &[42u8; 32]);
    let lk = km.lib().expect("valid key");
    let nl = p.nonce_len();
    let n = c.n as usize;
    let mut nonces: HashSet<Vec<u8>> = HashSet::with_capacity(n);
    let mut tokens: HashSet<String> = HashSet::with_capacity(n);
    let mut ones = vec![0u32; nl * 8];
    let mut byte_values: Vec<[bool; 256]> = vec![[false; 256]; nl];
    let mut value_counts = [0u64; 256];
    let big = if c.mode == 3 { "x".repeat(70_000) } else { "same payload every time".to_string() };
    // claims whose NAMES and VALUES look like randomness a builder might be tempted to use (OpenID Connect's `nonce`, a
    // hex `jti`, `seed`, `iv`, `rnd`): they are payload, never nonce material
    let hex64 = "000102030405060708090a0b0c0d0e0f101112131415161718191a1b1c1d1e1f";
    let fixed_claims = [
      ClaimSpec::Custom("data".into(), json!(big)),
      ClaimSpec::Custom("nonce".into(), json!(if p == Proto::V2L { &hex64[..48] } else { hex64 })),
      ClaimSpec::Jti(hex64.into()),
      ClaimSpec::Custom("seed".into(), json!(hex64)),
      ClaimSpec::Custom("iv".into(), json!(&hex64[..32])),
      ClaimSpec::Custom("rnd".into(), json!(12345)),
      ClaimSpec::Exp("2999-01-01T00:00:00Z".into()),
      ClaimSpec::Iat("2000-01-01T00:00:00Z".into()),
      ClaimSpec::Nbf("2000-01-01T00:00:00Z".into()),
    ];
    let varying: Vec<ClaimSpec> = if c.mode == 1 { (0..n).map(|i| ClaimSpec::Custom("data".into(), json!(format!("payload {i}")))).collect() } else { vec![] };
    let mut shared = if c.mode == 2 { Some(new_builder(p, c.layer)) } else { None };
    if let Some(b) = shared.as_mut() {
      for cs in &fixed_claims {
        let _ = b.set(cs);
      }
      b.footer("kid-1");
      b.assertion("ctx");
    }
    // an application bug elsewhere in the process: a claim whose Serialize panics inside a build (contained)
    if c.mode % 2 == 0 {
      let _ = callbacks_misbehave(p, &lk, 2);
    }
    let mut first_dup: Option<String> = None;
    // mode 4: the other local versions draw randomness on this thread in between
    let others: Vec<(Proto, KeyMaterial)> = Proto::LOCAL.iter().map(|q| (*q, keys::material(*q, &[43u8; 32]))).collect();
    let mut windows: HashSet<[u8; 8]> = HashSet::new();
    let raw_nonce = matches!(p, Proto::V3L | Proto::V4L); // v1/v2 put a MAC of (random, message) on the wire
    for i in 0..n {
      if c.mode == 4 && !c.pattern.is_empty() {
        let q = Proto::LOCAL[(c.pattern[i % c.pattern.len()] % 4) as usize];
        if q != p {
          let (_, okm) = &others[(c.pattern[i % c.pattern.len()] % 4) as usize];
          let olk = okm.lib().expect("valid key");
          let mut ob = new_builder(q, c.layer);
          let _ = ob.set(&fixed_claims[0]);
          let _ = ob.build(&olk);
        }
      }
      let token = if let Some(b) = shared.as_mut() {
        b.build(&lk)
      } else {
        let mut b = new_builder(p, c.layer);
        for cs in &fixed_claims[1..] {
          let _ = b.set(cs);
        }
        let _ = b.set(if c.mode == 1 { &varying[i] } else { &fixed_claims[0] });
        b.footer("kid-1");
        b.assertion("ctx");
        b.build(&lk)
      };
      let token = match token {
        Ok(t) => t,
        Err(e) => vio!("C10:build-failed:{}:{}", p.label(), c.layer.label(); "build #{} failed: {}", i + 1, e.text),
      };
      let (_, pseg, _) = match split_token(&token) {
        Some(x) => x,
        None => vio!("C10:malformed-token"; "{}", token),
      };
      let payload = unb64(&pseg).unwrap_or_default();
      if payload.len() < nl {
        vio!("C10:malformed-token"; "payload shorter than the nonce: {}", token);
      }
      let nonce = payload[..nl].to_vec();
      for (j, b) in nonce.iter().enumerate() {
        byte_values[j][*b as usize] = true;
        value_counts[*b as usize] += 1;
        for bit in 0..8 {
          if b & (1 << bit) != 0 {
            ones[j * 8 + bit] += 1;
          }
        }
      }
      if raw_nonce {
        // no 8 random bytes may ever be handed out twice, at any offset (chance collision < 2^-20 over a whole run)
        for w in nonce.windows(8) {
          let mut a = [0u8; 8];
          a.copy_from_slice(w);
          if !windows.insert(a) && first_dup.is_none() {
            first_dup = Some(format!("bytes {} of the nonce of build #{} ({}) already occurred in an earlier nonce", hex::encode(a), i + 1, hex::encode(&nonce)));
          }
        }
      }
      if !nonces.insert(nonce.clone()) && first_dup.is_none() {
        first_dup = Some(format!("nonce {} of build #{} was already used", hex::encode(&nonce), i + 1));
      }
      if !tokens.insert(token.clone()) && first_dup.is_none() && c.mode != 1 {
        first_dup = Some(format!("token of build #{} equals an earlier token", i + 1));
      }
    }
    let mode = ["identical-claims", "varying-claims", "one-builder-built-repeatedly", "identical-large-claims", "interleaved-with-other-versions"][(c.mode % 5) as usize];
    cl.tag(format!("{}:{}:{}", p.label(), c.layer.label(), mode));
    cl.nontrivial(n >= 1000);
    if let Some(d) = first_dup {
      vio!("C10:nonce-or-token-repeated:{}:{}:{}", p.label(), c.layer.label(), mode; "{} ({} builds under one key, {} distinct nonces)", d, n, nonces.len());
    }
    // per-bit frequency: |ones - n/2| <= sqrt(30 n): by Hoeffding a uniform source fails one position with
    // probability <= 2 e^-60; over 256 positions x 48 histories that is < 2^-70
    if n >= 1000 {
      let bound = (30.0 * n as f64).sqrt();
      for (pos, k) in ones.iter().enumerate() {
        if ((*k as f64) - (n as f64) / 2.0).abs() > bound {
          vio!("C10:nonce-bit-not-uniform:{}:{}:{}", p.label(), c.layer.label(), mode; "bit {} of byte {} of the nonce is 1 in {} of {} builds (allowed {:.0} +- {:.0})", pos % 8, pos / 8, k, n, n as f64 / 2.0, bound);
        }
      }
      // every byte VALUE, pooled over all positions: n*len/256 +- 8 sigma (a uniform source fails one value with
      // probability < 1e-14; a source that never hands out 0x00, or favours some value, is far outside)
      let total = (n * nl) as f64;
      let expect = total / 256.0;
      if expect >= 400.0 {
        let bound = 8.0 * (expect * (1.0 - 1.0 / 256.0)).sqrt();
        for (v, k) in value_counts.iter().enumerate() {
          if ((*k as f64) - expect).abs() > bound {
            vio!("C10:nonce-byte-value-not-uniform:{}:{}:{}", p.label(), c.layer.label(), mode; "byte value 0x{:02x} occurs {} times in the {} nonce bytes of {} builds (allowed {:.0} +- {:.0})", v, k, total, n, expect, bound);
          }
        }
      }
      for (j, seen) in byte_values.iter().enumerate() {
        let distinct = seen.iter().filter(|b| **b).count();
        if distinct < 128 {
          vio!("C10:nonce-byte-position-constant:{}:{}:{}", p.label(), c.layer.label(), mode; "byte {} of the nonce takes only {} distinct values over {} builds", j, distinct, n);
        }
      }
    }
    if n >= 1000 {
      let (lo, hi) = (ones.iter().min().copied().unwrap_or(0), ones.iter().max().copied().unwrap_or(0));
      let first: Vec<String> = nonces.iter().take(2).map(hex::encode).collect();
      SAMPLES.lock().unwrap().push(json!({"history": format!("{}:{}:{}", p.label(), c.layer.label(), mode), "builds": n, "distinct_nonces": nonces.len(),
        "ones_per_bit_position_min_max": [lo, hi], "two_of_the_nonces": first}));
    }
    BUILDS.fetch_add(n as u64, std::sync::atomic::Ordering::Relaxed);
    DISTINCT.fetch_add(nonces.len() as u64, std::sync::atomic::Ordering::Relaxed);
    Verdict::Pass
  }
}

// ---------------------------------------------------------------- histories during which the OS random source starts failing

/// `attempts` builds in a helper process whose getrandom() serves `ok` key-sized requests and then fails for good
/// (LD_PRELOAD shim tools/failrandom.c).
#[derive(Clone, Debug, Serialize, Deserialize)]
pub struct RngFailHistory {
  pub proto: Proto,
  pub layer: Layer,
  pub ok: u32,
  pub attempts: u32,
  /// 0: the source fails after `ok` requests; 1..4: it never fails but serves unusual, pairwise different outputs
  /// (leading zeros, all ones, trailing zeros, all zeros around a call counter - see tools/failrandom.c)
  #[serde(default)]
  pub pattern: u8,
}

pub struct RngFailure;

/// Body of `pv c10-rngfail <version 0..4> <layer 0|1> <attempts>`: one line per attempt, `T <nonce>` or `E`.
pub fn rngfail_child_main(args: &[String]) -> i32 {
  let num = |i: usize| args.get(i).and_then(|s| s.parse::<u32>().ok()).unwrap_or(0);
  let p = Proto::LOCAL[(num(0) % 4) as usize];
  let layer = if num(1) == 0 { Layer::Generic } else { Layer::Prelude };
  let km = keys::material(p, &[42u8; 32]);
  let lk = km.lib().expect("valid key");
  let mut out = String::new();
  for _ in 0..num(2) {
    match crate::engine::catch(|| build_one(p, layer, &lk)) {
      Ok(Some(n)) => out.push_str(&format!("T {}\n", hex::encode(n))),
      Ok(None) => out.push_str("E\n"),
      Err(_) => out.push_str("P\n"),
    }
  }
  print!("{out}");
  0
}

impl Sub for RngFailure {
  type Case = RngFailHistory;
  fn name(&self) -> String {
    "C10/histories-with-a-failing-random-source".into()
  }
  fn check(&self, c: &RngFailHistory, cl: &mut Classes) -> Verdict {
    let p = c.proto;
    let lib = std::env::var("PV_FAILRANDOM").map(std::path::PathBuf::from).unwrap_or_else(|_| verif_dir().join(".work").join("libfailrandom.so"));
    let exe = match std::env::current_exe() {
      Ok(e) if lib.exists() => e,
      _ => {
        cl.tag("fault-injection-shim-not-built");
        return Verdict::Discard;
      }
    };
    let vi = Proto::LOCAL.iter().position(|q| *q == p).unwrap_or(3);
    let out = match run_helper(
      std::process::Command::new(exe)
        .args(["c10-rngfail", &vi.to_string(), if c.layer == Layer::Generic { "0" } else { "1" }, &c.attempts.to_string()])
        .env("LD_PRELOAD", &lib)
        .env(if c.pattern == 0 { "PV_RNG_OK" } else { "PV_RNG_PATTERN" }, if c.pattern == 0 { c.ok.to_string() } else { c.pattern.to_string() }),
      20,
      &format!("C10 builds with a failing / patterned OS random source ({} {}, pattern {})", p.label(), c.layer.label(), c.pattern),
    ) {
      Some(o) if !o.timed_out => o,
      Some(_) => {
        cl.tag("helper-timed-out");
        return Verdict::Discard;
      }
      None => return Verdict::Discard,
    };
    let text = out.stdout.clone();
    let lines: Vec<&str> = text.lines().collect();
    if out.status.and_then(|s| s.code()) != Some(0) || lines.len() != c.attempts as usize {
      cl.tag("helper-failed");
      return Verdict::Discard;
    }
    let tokens: Vec<&str> = lines.iter().filter_map(|l| l.strip_prefix("T ")).collect();
    let failures = lines.iter().filter(|l| **l == "E").count();
    let panics = lines.iter().filter(|l| **l == "P").count();
    if c.pattern > 0 {
      cl.tag(format!("{}:{}:unusual-random-output:{}", p.label(), c.layer.label(), ["", "leading zeros", "all ones", "trailing zeros", "all zeros"][c.pattern as usize % 5]));
      if failures + panics > 0 {
        vio!("C10:build-failed:{}:{}", p.label(), c.layer.label(); "the random source served unusual but legal output (pattern {}) and {} of {} builds failed", c.pattern, failures + panics, c.attempts);
      }
    } else {
      cl.tag(format!("{}:{}:ok={}", p.label(), c.layer.label(), c.ok));
    }
    cl.tag(format!("builds: {} returned a token, {} an error, {} panicked", if tokens.is_empty() { "none" } else { "some" }, if failures == 0 { "none" } else { "some" }, if panics == 0 { "none" } else { "some" }));
    cl.nontrivial(failures + panics > 0 || c.pattern > 0);
    // whatever the builder does once randomness is unavailable (fail, or draw on a generator seeded earlier): the tokens
    // it DOES return must still carry pairwise different nonces, none of them the all-zero buffer nothing was written to
    let source = if c.pattern > 0 { format!("serving unusual output (pattern {}: {})", c.pattern, ["", "leading zeros", "all ones", "trailing zeros", "all zeros"][c.pattern as usize % 5]) } else { format!("failing after {} requests", c.ok) };
    let mut seen = std::collections::HashSet::new();
    for n in &tokens {
      if n.bytes().all(|b| b == b'0') && matches!(p, Proto::V3L | Proto::V4L) {
        vio!("C10:zero-nonce-after-rng-failure:{}:{}", p.label(), c.layer.label(); "with the OS random source {} a token was returned whose nonce is all zero ({} attempts: {} tokens, {} errors)", source, c.attempts, tokens.len(), failures);
      }
      if !seen.insert(*n) {
        vio!("C10:nonce-repeated-after-rng-failure:{}:{}", p.label(), c.layer.label(); "with the OS random source {}, nonce {} was used for two of the {} tokens returned ({} attempts, {} errors)", source, n, tokens.len(), c.attempts, failures);
      }
    }
    Verdict::Pass
  }
}

// ---------------------------------------------------------------- histories whose builds run at the same time

/// `threads` threads build `per_thread` tokens each, at the same time, under one key with identical claims.
#[derive(Clone, Debug, Serialize, Deserialize)]
pub struct ConcurrentHistory {
  pub proto: Proto,
  pub layer: Layer,
  pub threads: u8,
  pub per_thread: u32,
}

pub struct Concurrent;

impl Sub for Concurrent {
  type Case = ConcurrentHistory;
  fn name(&self) -> String {
    "C10/concurrent-histories".into()
  }
  fn check(&self, c: &ConcurrentHistory, cl: &mut Classes) -> Verdict {
    let p = c.proto;
    let (threads, per) = (c.threads.clamp(2, 32) as usize, c.per_thread as usize);
    let start = std::sync::Barrier::new(threads);
    let results: Vec<Option<Vec<Vec<u8>>>> = std::thread::scope(|sc| {
      let handles: Vec<_> = (0..threads)
        .map(|_| {
          sc.spawn(|| {
            let km = keys::material(p, &[42u8; 32]);
            let lk = km.lib().expect("valid key");
            start.wait();
            let mut out = Vec::with_capacity(per);
            for _ in 0..per {
              out.push(build_one(p, c.layer, &lk)?);
            }
            Some(out)
          })
        })
        .collect();
      handles.into_iter().map(|h| h.join().unwrap_or(None)).collect()
    });
    cl.tag(format!("{}:{}:threads={}", p.label(), c.layer.label(), threads));
    cl.nontrivial(per >= 100);
    let mut seen: std::collections::HashMap<Vec<u8>, usize> = std::collections::HashMap::with_capacity(threads * per);
    for (t, r) in results.iter().enumerate() {
      let nonces = match r {
        Some(n) => n,
        None => vio!("C10:build-failed:{}:{}", p.label(), c.layer.label(); "a build failed (or panicked) in one of {} threads building at the same time", threads),
      };
      for n in nonces {
        if let Some(prev) = seen.insert(n.clone(), t) {
          vio!("C10:nonce-repeated-across-threads:{}:{}", p.label(), c.layer.label(); "nonce {} was used twice under one key: by thread {} and by thread {} ({} threads x {} builds at the same time)", hex::encode(n), prev, t, threads, per);
        }
      }
    }
    BUILDS.fetch_add((threads * per) as u64, std::sync::atomic::Ordering::Relaxed);
    DISTINCT.fetch_add(seen.len() as u64, std::sync::atomic::Ordering::Relaxed);
    Verdict::Pass
  }
}

// ---------------------------------------------------------------- histories that continue in a forked process

/// `pre` builds, then the process forks, then `post` builds in the parent and in the child - all under one key.
#[derive(Clone, Debug, Serialize, Deserialize)]
pub struct ForkHistory {
  pub proto: Proto,
  pub layer: Layer,
  pub pre: u32,
  pub post: u32,
}

pub struct AcrossFork;

extern "C" {
  fn fork() -> i32;
  fn pipe(fds: *mut i32) -> i32;
  fn read(fd: i32, buf: *mut u8, n: usize) -> isize;
  fn write(fd: i32, buf: *const u8, n: usize) -> isize;
  fn close(fd: i32) -> i32;
  fn waitpid(pid: i32, status: *mut i32, options: i32) -> i32;
  fn _exit(code: i32) -> !;
}

fn build_one(p: Proto, layer: Layer, lk: &LibKeys) -> Option<Vec<u8>> {
  let claims = [
    ClaimSpec::Custom("data".into(), json!("same payload every time")),
    ClaimSpec::Exp("2999-01-01T00:00:00Z".into()),
    ClaimSpec::Iat("2000-01-01T00:00:00Z".into()),
    ClaimSpec::Nbf("2000-01-01T00:00:00Z".into()),
  ];
  let mut b = new_builder(p, layer);
  for cs in &claims {
    let _ = b.set(cs);
  }
  let token = b.build(lk).ok()?;
  let (_, pseg, _) = split_token(&token)?;
  let payload = unb64(&pseg)?;
  payload.get(..p.nonce_len()).map(|n| n.to_vec())
}

/// Body of `pv c10-fork <version 0..4> <layer 0|1> <pre> <post>`: runs in a fresh single-threaded process (so that fork()
/// is safe), prints one line per build: `B`efore the fork, `P`arent after it, `C`hild after it, each followed by the nonce.
pub fn fork_child_main(args: &[String]) -> i32 {
  let num = |i: usize| args.get(i).and_then(|s| s.parse::<u32>().ok()).unwrap_or(0);
  let p = Proto::LOCAL[(num(0) % 4) as usize];
  let layer = if num(1) == 0 { Layer::Generic } else { Layer::Prelude };
  let (pre, post) = (num(2), num(3));
  let km = keys::material(p, &[42u8; 32]);
  let lk = km.lib().expect("valid key");
  let mut out = String::new();
  for _ in 0..pre {
    match build_one(p, layer, &lk) {
      Some(n) => out.push_str(&format!("B {}\n", hex::encode(n))),
      None => return 3,
    }
  }
  let mut fds = [0i32; 2];
  if unsafe { pipe(fds.as_mut_ptr()) } != 0 {
    return 4;
  }
  let pid = unsafe { fork() };
  if pid < 0 {
    return 4;
  }
  if pid == 0 {
    // child: build, send the nonces through the pipe, leave without running any destructor
    let mut text = String::new();
    for _ in 0..post {
      match build_one(p, layer, &lk) {
        Some(n) => text.push_str(&format!("C {}\n", hex::encode(n))),
        None => text.push_str("C build-failed\n"),
      }
    }
    let bytes = text.as_bytes();
    let mut off = 0;
    while off < bytes.len() {
      let k = unsafe { write(fds[1], bytes[off..].as_ptr(), bytes.len() - off) };
      if k <= 0 {
        break;
      }
      off += k as usize;
    }
    unsafe { _exit(0) }
  }
  unsafe { close(fds[1]) };
  for _ in 0..post {
    match build_one(p, layer, &lk) {
      Some(n) => out.push_str(&format!("P {}\n", hex::encode(n))),
      None => return 3,
    }
  }
  let mut buf = vec![0u8; 65536];
  let mut got = vec![];
  loop {
    let k = unsafe { read(fds[0], buf.as_mut_ptr(), buf.len()) };
    if k <= 0 {
      break;
    }
    got.extend_from_slice(&buf[..k as usize]);
  }
  let mut status = 0i32;
  unsafe { waitpid(pid, &mut status, 0) };
  out.push_str(&String::from_utf8_lossy(&got));
  print!("{out}");
  0
}

impl Sub for AcrossFork {
  type Case = ForkHistory;
  fn name(&self) -> String {
    "C10/histories-across-fork".into()
  }
  fn check(&self, c: &ForkHistory, cl: &mut Classes) -> Verdict {
    let p = c.proto;
    let exe = match std::env::current_exe() {
      Ok(e) => e,
      Err(_) => return Verdict::Discard,
    };
    let vi = Proto::LOCAL.iter().position(|q| *q == p).unwrap_or(3);
    let out = match run_helper(std::process::Command::new(exe).args(["c10-fork", &vi.to_string(), if c.layer == Layer::Generic { "0" } else { "1" }, &c.pre.to_string(), &c.post.to_string()]), 60, "C10 history continued in a forked process") {
      Some(o) if !o.timed_out => o,
      _ => return Verdict::Discard,
    };
    let text = out.stdout.clone();
    let lines: Vec<(&str, &str)> = text.lines().filter_map(|l| l.split_once(' ')).collect();
    let count = |tag: &str| lines.iter().filter(|(t, _)| *t == tag).count() as u32;
    if out.status.and_then(|s| s.code()) != Some(0) || count("B") != c.pre || count("P") != c.post || count("C") != c.post || lines.iter().any(|(_, n)| hex::decode(n).is_err()) {
      // the helper process could not do its job (fork refused, build failed ...): nothing is concluded from that
      cl.tag("fork-helper-failed");
      return Verdict::Discard;
    }
    cl.tag(format!("{}:{}:pre={}:post={}", p.label(), c.layer.label(), c.pre, c.post));
    cl.nontrivial(c.post > 0);
    let mut seen: std::collections::HashMap<&str, &str> = std::collections::HashMap::new();
    for (tag, n) in &lines {
      if let Some(prev) = seen.insert(*n, *tag) {
        vio!("C10:nonce-repeated-across-fork:{}:{}", p.label(), c.layer.label(); "nonce {} was used twice under one key: once by {} and once by {} (B = before the fork, P = parent after it, C = child after it; {} builds before, {} after in each process)", n, prev, tag, c.pre, c.post);
      }
    }
    BUILDS.fetch_add((c.pre + 2 * c.post) as u64, std::sync::atomic::Ordering::Relaxed);
    DISTINCT.fetch_add(seen.len() as u64, std::sync::atomic::Ordering::Relaxed);
    Verdict::Pass
  }
}

static SAMPLES: std::sync::Mutex<Vec<serde_json::Value>> = std::sync::Mutex::new(vec![]);
static BUILDS: std::sync::atomic::AtomicU64 = std::sync::atomic::AtomicU64::new(0);
static DISTINCT: std::sync::atomic::AtomicU64 = std::sync::atomic::AtomicU64::new(0);

// ---------------------------------------------------------------- short histories over every payload shape

/// `builds` builds under one key of a payload whose shape is fixed by (`pad`, `claims`): one text claim of `pad` characters
/// (the JSON payload length runs through every residue of every block size as pad does) and `claims` numbered claims -
/// with ONE builder asked repeatedly, or a fresh builder per build with the same claims.
#[derive(Clone, Debug, Serialize, Deserialize)]
pub struct ShapeCase {
  pub proto: Proto,
  pub layer: Layer,
  pub pad: u32,
  pub claims: u16,
  pub builds: u8,
  pub one_builder: bool,
  pub with_footer: bool,
}

pub struct Shapes;

impl Sub for Shapes {
  type Case = ShapeCase;
  fn name(&self) -> String {
    "C10/payload-shapes".into()
  }
  fn check(&self, c: &ShapeCase, cl: &mut Classes) -> Verdict {
    let p = c.proto;
    let km = keys::material(p, &[42u8; 32]);
    let lk = km.lib().expect("valid key");
    let mut specs = vec![ClaimSpec::Custom("data".into(), json!("p".repeat(c.pad as usize)))];
    for j in 0..c.claims {
      specs.push(ClaimSpec::CustomOwned(format!("c{j:03}"), json!(j)));
    }
    if c.layer == Layer::Generic {
      // the same instant in every build: nothing but the nonce may differ between the tokens
      specs.push(ClaimSpec::Exp("2999-01-01T00:00:00Z".into()));
    }
    let mut shared = new_builder(p, c.layer);
    for s in &specs {
      let _ = shared.set(s);
    }
    if c.with_footer {
      shared.footer("kid-1");
      shared.assertion("ctx");
    }
    let mut seen: HashSet<Vec<u8>> = HashSet::new();
    let mut payload_len = 0usize;
    for i in 0..c.builds.max(2) {
      let token = if c.one_builder {
        shared.build(&lk)
      } else {
        let mut b = new_builder(p, c.layer);
        for s in &specs {
          let _ = b.set(s);
        }
        if c.with_footer {
          b.footer("kid-1");
          b.assertion("ctx");
        }
        b.build(&lk)
      };
      let token = match token {
        Ok(t) => t,
        Err(e) => vio!("C10:build-failed:{}:{}", p.label(), c.layer.label(); "build #{} failed: {}", i + 1, e.text),
      };
      let payload = split_token(&token).and_then(|(_, b, _)| unb64(&b)).unwrap_or_default();
      payload_len = payload.len();
      if payload.len() < p.nonce_len() {
        vio!("C10:malformed-token"; "payload shorter than the nonce: {}", token);
      }
      if !seen.insert(payload[..p.nonce_len()].to_vec()) {
        vio!("C10:nonce-repeated:payload-shape:{}:{}", p.label(), c.layer.label(); "build #{} of {} under one key ({}, {} numbered claims, a text claim of {} characters: {} payload bytes on the wire{}) used the nonce {} again",
          i + 1, c.builds, if c.one_builder { "one builder asked repeatedly" } else { "a fresh builder with the same claims per build" }, c.claims, c.pad, payload_len, if c.with_footer { ", footer and assertion set" } else { "" }, hex::encode(&payload[..p.nonce_len()]));
      }
    }
    cl.tag(format!("{}:{}", p.label(), c.layer.label()));
    cl.tag(format!("claims={}", match c.claims { 0 => "0", 1..=13 => "1-13", 14..=16 => "14-16", 17..=64 => "17-64", _ => ">64" }));
    cl.tag(format!("payload-bytes mod 128 = {}", if payload_len % 128 == 0 { "0" } else { "other" }));
    cl.nontrivial(true);
    BUILDS.fetch_add(c.builds as u64, std::sync::atomic::Ordering::Relaxed);
    DISTINCT.fetch_add(seen.len() as u64, std::sync::atomic::Ordering::Relaxed);
    Verdict::Pass
  }
}

pub fn shape_cases(pad_max: u32, claims_max: u16) -> Vec<ShapeCase> {
  let mut v = vec![];
  for proto in Proto::LOCAL {
    for layer in [Layer::Generic, Layer::Prelude] {
      // every payload length over more than two blocks of the largest block size in use (128)
      for pad in 0..=pad_max {
        v.push(ShapeCase { proto, layer, pad, claims: (pad % 3) as u16, builds: 3, one_builder: pad % 2 == 0, with_footer: pad % 5 == 0 });
      }
      // every number of claims
      for claims in 0..=claims_max {
        v.push(ShapeCase { proto, layer, pad: 5, claims, builds: 4, one_builder: true, with_footer: claims % 2 == 0 });
        v.push(ShapeCase { proto, layer, pad: 5, claims, builds: 3, one_builder: false, with_footer: claims % 2 == 1 });
      }
      for claims in [100u16, 255, 256, 257, 300] {
        v.push(ShapeCase { proto, layer, pad: 1, claims, builds: 3, one_builder: true, with_footer: false });
      }
    }
  }
  v
}

// ---------------------------------------------------------------- the nonce material itself

/// N draws of the random material the local builders turn into a nonce (`Key::<24>::try_new_random()` for v2.local,
/// `Key::<32>::try_new_random()` for v1 / v3 / v4): v1 and v2 hash that material with the message, so a token shows a
/// varying nonce field even when part of the material is constant - the material is observed where the builders draw it.
#[derive(Clone, Debug, Serialize, Deserialize)]
pub struct MaterialHistory {
  pub size: u16,
  pub n: u32,
}

pub struct Material;

fn draw(size: u16) -> Result<Vec<u8>, String> {
  match size {
    24 => Key::<24>::try_new_random().map(|k| k.as_ref().to_vec()).map_err(|e| format!("{e:?}")),
    _ => Key::<32>::try_new_random().map(|k| k.as_ref().to_vec()).map_err(|e| format!("{e:?}")),
  }
}

impl Sub for Material {
  type Case = MaterialHistory;
  fn name(&self) -> String {
    "C10/nonce-material".into()
  }
  fn check(&self, c: &MaterialHistory, cl: &mut Classes) -> Verdict {
    let size = if c.size == 24 { 24usize } else { 32 };
    let n = c.n.min(2_000_000);
    let mut seen: HashSet<Vec<u8>> = HashSet::new();
    let mut windows: HashSet<[u8; 8]> = HashSet::new();
    let mut ones = vec![0u32; size * 8];
    let mut byte_values = vec![[false; 256]; size];
    for i in 0..n {
      let m = match draw(size as u16) {
        Ok(m) => m,
        Err(e) => vio!("C10:nonce-material:draw-failed:{}", size; "draw #{} of Key::<{}>::try_new_random() failed: {}", i + 1, size, e),
      };
      if m.len() != size {
        vio!("C10:nonce-material:length:{}", size; "Key::<{}>::try_new_random() handed out {} bytes", size, m.len());
      }
      for (j, b) in m.iter().enumerate() {
        byte_values[j][*b as usize] = true;
        for bit in 0..8 {
          if b & (1 << bit) != 0 {
            ones[j * 8 + bit] += 1;
          }
        }
      }
      for w in m.windows(8) {
        let mut a = [0u8; 8];
        a.copy_from_slice(w);
        if !windows.insert(a) {
          vio!("C10:nonce-material:window-repeated:{}", size; "bytes {} of draw #{} ({}) of Key::<{}>::try_new_random() already occurred in the material handed out before", hex::encode(a), i + 1, hex::encode(&m), size);
        }
      }
      if !seen.insert(m.clone()) {
        vio!("C10:nonce-material:repeated:{}", size; "draw #{} of Key::<{}>::try_new_random() repeats an earlier one: {}", i + 1, size, hex::encode(&m));
      }
    }
    cl.tag(format!("material:{}-bytes", size));
    cl.nontrivial(n >= 1000);
    if n >= 1000 {
      let bound = (30.0 * n as f64).sqrt();
      for (pos, k) in ones.iter().enumerate() {
        if ((*k as f64) - (n as f64) / 2.0).abs() > bound {
          vio!("C10:nonce-material:bit-not-uniform:{}", size; "bit {} of byte {} of Key::<{}>::try_new_random() is 1 in {} of {} draws (allowed {:.0} +- {:.0})", pos % 8, pos / 8, size, k, n, n as f64 / 2.0, bound);
        }
      }
      for (j, seen) in byte_values.iter().enumerate() {
        let distinct = seen.iter().filter(|b| **b).count();
        if distinct < 128 {
          vio!("C10:nonce-material:byte-position-constant:{}", size; "byte {} of Key::<{}>::try_new_random() takes only {} distinct values over {} draws", j, size, distinct, n);
        }
      }
    }
    Verdict::Pass
  }
}

pub fn subs() -> Vec<Box<dyn DynSub>> {
  vec![Box::new(Shapes), Box::new(Freshness), Box::new(AcrossFork), Box::new(Concurrent), Box::new(RngFailure), Box::new(Material)]
}

pub fn run(ctx: &Ctx) -> EvidenceMeta {
  let n = ctx.n(20_000, 100_000);
  let mut jobs: Vec<Job> = vec![];
  let f = Freshness;
  let fr = &f;
  for proto in Proto::LOCAL {
    for layer in [Layer::Generic, Layer::Prelude] {
      for mode in 0..3u8 {
        jobs.push(Box::new(move || ctx.enumerate(fr, std::iter::once(NonceHistory { proto, layer, mode, n, pattern: vec![] }), false)));
      }
      let n_big = ctx.n(300, 3000);
      jobs.push(Box::new(move || ctx.enumerate(fr, std::iter::once(NonceHistory { proto, layer, mode: 3, n: n_big, pattern: vec![] }), false)));
    }
    // interleaved histories: generated repeating blocks of versions (proptest), a few per version
    let n_mixed = ctx.n(6000, 40_000);
    let cases = ctx.n(6, 40);
    jobs.push(Box::new(move || {
      use proptest::prelude::*;
      let strat = (proptest::collection::vec(0u8..4, 1..24), any::<bool>()).prop_map(move |(pattern, prelude)| NonceHistory { proto, layer: if prelude { Layer::Prelude } else { Layer::Generic }, mode: 4, n: n_mixed, pattern });
      ctx.prop(fr, strat, cases)
    }));
  }
  // short histories over every payload shape: every payload length across several blocks, every number of claims
  let sh = &Shapes;
  let (pad_max, claims_max) = (ctx.n(400, 1300), ctx.n(48, 130) as u16);
  for chunk in shape_cases(pad_max, claims_max).chunks(400) {
    let chunk = chunk.to_vec();
    jobs.push(Box::new(move || ctx.enumerate(sh, chunk.into_iter(), true)));
  }
  // histories that continue in a forked process (each runs in a fresh single-threaded helper process)
  let af = &AcrossFork;
  let fork_cases: Vec<ForkHistory> = Proto::LOCAL
    .iter()
    .flat_map(|proto| [Layer::Generic, Layer::Prelude].into_iter().flat_map(move |layer| [(0u32, 50u32), (1, 50), (7, 200)].into_iter().map(move |(pre, post)| ForkHistory { proto: *proto, layer, pre, post })))
    .collect();
  jobs.push(Box::new(move || ctx.enumerate(af, fork_cases.into_iter(), false)));
  // the OS random source fails after 0 / 1 / 5 key-sized requests (fault injection in a helper process)
  let rf = &RngFailure;
  let rng_cases: Vec<RngFailHistory> = Proto::LOCAL.iter().flat_map(|proto| [Layer::Generic, Layer::Prelude].into_iter().flat_map(move |layer| [(0u32, 0u8), (1, 0), (5, 0), (0, 1), (0, 2), (0, 3), (0, 4)].into_iter().map(move |(ok, pattern)| RngFailHistory { proto: *proto, layer, ok, attempts: 12, pattern }))).collect();
  jobs.push(Box::new(move || ctx.enumerate(rf, rng_cases.into_iter(), false)));
  // builds that run at the same time on 8 / 16 threads (by design, not by the accident of the job scheduler)
  let cc = &Concurrent;
  let per_thread = ctx.n(2500, 12_000) as u32;
  let conc_cases: Vec<ConcurrentHistory> = Proto::LOCAL.iter().flat_map(|proto| [(Layer::Generic, 8u8), (Layer::Prelude, 16u8)].into_iter().map(move |(layer, threads)| ConcurrentHistory { proto: *proto, layer, threads, per_thread })).collect();
  jobs.push(Box::new(move || ctx.enumerate(cc, conc_cases.into_iter(), false)));
  // the random material the builders draw, observed directly (v1 / v2 hash it into the nonce field)
  let mt = &Material;
  for size in [24u16, 32] {
    jobs.push(Box::new(move || ctx.enumerate(mt, std::iter::once(MaterialHistory { size, n }), false)));
  }
  run_jobs(jobs);
  let builds = BUILDS.load(std::sync::atomic::Ordering::Relaxed);
  let distinct = DISTINCT.load(std::sync::atomic::Ordering::Relaxed);
  let mut rep = SubReport { name: "C10/summary".into(), ..Default::default() };
  rep.extra.insert("builds_total".into(), json!(builds));
  rep.extra.insert("distinct_nonces_total".into(), json!(distinct));
  let mut samples = SAMPLES.lock().unwrap().clone();
  samples.sort_by_key(|v| v["history"].as_str().unwrap_or("").to_string());
  rep.extra.insert("history_summaries".into(), serde_json::Value::Array(samples));
  ctx.push_report(rep);
  EvidenceMeta {
    rule: format!("histories = 4 local versions x {{GenericBuilder, PasetoBuilder}} x {{identical claims with a fresh builder per build, varying claims, ONE builder built repeatedly}}, each of N = {n} builds under one key with identical footer and assertion; \
           plus identical LARGE claims (70 000 bytes) and generated histories in which builds of the other local versions are interleaved on the same thread (repeating blocks of 1-23 versions). For v3/v4 (raw random nonce) no 8-byte window may occur in two nonces at any offset. \
           Invariant over the history: the nonce fields (first 32, v2 24, decoded payload bytes) are pairwise distinct, the tokens are pairwise distinct, every one of the 256/192 nonce bit positions is 1 in N/2 +- sqrt(30 N) builds \
           (Hoeffding: a uniform source violates this with probability < 2^-70 over all positions and histories) and every nonce byte position takes >= 128 distinct values. \
           Concurrent histories: 8 / 16 threads released by a barrier build 2500 (thorough 12 000) tokens each at the same time under one key - no nonce twice in the union. \
           Histories with a failing random source: getrandom() serves 0 / 1 / 5 key-sized requests and then fails for good (LD_PRELOAD fault injection in a helper process); whatever the builder then does, the tokens it still returns carry pairwise different, non-zero nonces; the same with a source that never fails but serves unusual, pairwise different outputs (leading / trailing zero bytes, all ones, all zeros around a counter): every build succeeds and the nonces stay pairwise different. \
           Histories across fork(): pre in {{0,1,7}} builds, then the process forks and parent and child each build 50/200 more under the same key - no nonce may occur twice in the union. \
           The nonce MATERIAL itself: N draws of Key::<24>::try_new_random() (v2.local) and Key::<32>::try_new_random() (v1/v3/v4) - what the builders hash (v1, v2) or use (v3, v4) as the nonce - under the same invariant: pairwise distinct, no 8-byte window twice, every bit position within the Hoeffding bound, every byte position >= 128 distinct values. \
           An 'evaluation' is one history; builds_total / distinct_nonces_total count the builds. Non-trivial = N >= 1000; distinct by (version, builder, mode)."),
    assumptions: vec!["observes the OS random generator (that is the property); 'unpredictable' is not decidable by observation - a weak but equidistributed generator passes".into()],
  }
}
