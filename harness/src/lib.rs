//! pv - property-based verification harness for rusty_paseto (library part, shared with the fuzz targets)
#![allow(clippy::all)]
#[macro_use]
pub mod engine;
pub mod gen;
pub mod keys;
pub mod proto;
pub mod specref;
pub mod rt;
pub mod scen;
pub mod c01;
pub mod c02;
pub mod c03;
pub mod c04;
pub mod c05;
pub mod c06;
pub mod c07;
pub mod c08;
pub mod c09;
pub mod tgen;
pub mod c10;
pub mod c18;
pub mod c11;
pub mod c12;
pub mod c13;
pub mod c14;
pub mod c15;
pub mod c16;
pub mod c17;
