use pv::*;

use pv::engine::{Ctx, Tier};

fn main() {
  let args: Vec<String> = std::env::args().collect();
  if args.len() < 3 {
    eprintln!("usage: pv <Cnn> quick|thorough | pv <Cnn> --replay <file>");
    std::process::exit(2);
  }
  engine::install_panic_hook();
  let id = args[1].as_str();
  if id == "probe" { probe(); return; }
  if id == "smoke-kat" {
    // known answers for cfg/smoke (C20): what the specification's algorithm (specref, pinned to the official vectors)
    // produces for the smoke program's fixed key / nonce / message / footer / assertion
    const MSG: &str = "{\"data\":\"smoke \u{1F980} message crossing one block ........................................\"}";
    const FOOT: &str = "{\"kid\":\"smoke\"}";
    const ASSERT: &str = "{\"bound\":\"smoke\"}";
    let key: [u8; 32] = hex::decode("707172737475767778797a7b7c7d7e7f808182838485868788898a8b8c8d8e8f").unwrap().try_into().unwrap();
    let nonce = hex::decode("26f7553354482a1d91d4784627854b8da6b8042a7966523c2b404e8dbbe7f7f2").unwrap();
    for v in 1u8..=4 {
      let a: &[u8] = if v >= 3 { ASSERT.as_bytes() } else { b"" };
      println!("const KAT_V{}_LOCAL: &str = \"{}\";", v, specref::local_encrypt(v, &key, &nonce, MSG.as_bytes(), FOOT.as_bytes(), a));
    }
    let ed = hex::decode("b4cbfb43df4ce210727d953e4a713307fa19bb7d9f85041438d9e11b942a37741eb9dbbbbc047c03fd70604e0071f0987e16b28b757225c11f00415d0e20b1a2").unwrap();
    for v in [2u8, 4] {
      let a: &[u8] = if v >= 3 { ASSERT.as_bytes() } else { b"" };
      let t = specref::public_sign(v, &specref::RefSecret::Ed { seed: &ed[..32], public: &ed[32..] }, MSG.as_bytes(), FOOT.as_bytes(), a).unwrap();
      println!("const KAT_V{}_PUBLIC: &str = \"{}\";", v, t);
    }
    return;
  }
  if id == "first-use" { std::process::exit(scen::first_use_child_main(&args[2..])); }
  if id == "c18-first" { std::process::exit(c18::first_use_child_main(&args[2..])); }
  if id == "c18-long" { std::process::exit(c18::long_child_main(&args[2..])); }
  if id == "c09-deep" { std::process::exit(c09::deep_child_main(&args[2..])); }
  if id == "c10-rngfail" { std::process::exit(c10::rngfail_child_main(&args[2..])); }
  if id == "c10-fork" { std::process::exit(c10::fork_child_main(&args[2..])); }
  if id == "fuzz-seeds" {
    // pv fuzz-seeds <dir>: writes the seed corpora of the three libFuzzer targets
    let dir = std::path::PathBuf::from(&args[2]);
    for (name, seeds) in [("fz_anytoken", c09::fuzz_seeds()), ("fz_tamper", c03::fuzz_seeds()), ("fz_cross", c07::fuzz_seeds())] {
      let d = dir.join(name).join("seeds");
      std::fs::create_dir_all(&d).unwrap();
      for (i, s) in seeds.iter().enumerate() {
        std::fs::write(d.join(format!("seed-{i:04}")), s).unwrap();
      }
      println!("{name}: {} seeds", seeds.len());
    }
    return;
  }
  if id == "selftest" {
    match specref::selftest() {
      Ok(n) => { println!("specref self-test: {n} official vectors reproduced"); std::process::exit(0) }
      Err(e) => { println!("specref self-test FAILED: {e}"); std::process::exit(2) }
    }
  }
  let seed: u64 = std::env::var("VERIF_SEED").ok().and_then(|s| s.parse().ok()).unwrap_or(0);
  macro_rules! dispatch {
    ($( $name:literal => $m:ident ),* $(,)?) => {
      match id {
        $( $name => {
          if args[2] == "--replay" {
            let file = args.get(3).map(|s| s.as_str()).unwrap_or("");
            let mut subs = $m::subs();
            subs.extend(scen::subs($name));
            std::process::exit(engine::replay($name, subs, file));
          }
          let tier = match args[2].as_str() { "quick" => Tier::Quick, "thorough" => Tier::Thorough, other => { eprintln!("unknown tier {other}"); std::process::exit(2) } };
          let ctx = Ctx::new($name, tier, seed);
          let mut subs = $m::subs();
          subs.extend(scen::subs($name));
          ctx.saved_cases(subs);
          let mut meta = std::thread::scope(|sc| {
            sc.spawn(|| ctx.profile_child());
            sc.spawn(|| ctx.env_children());
            $m::run(&ctx)
          });
          // schedules as input (threads at a gate, first use in fresh processes): after the jobs, the cores are free
          if let Some(rule) = scen::run_extra(&ctx, $name) {
            meta.rule.push_str(&rule);
          }
          let out = engine::finish(ctx, meta);
          std::process::exit(out.exit_code);
        } )*
        other => { eprintln!("unknown property {other}"); std::process::exit(2); }
      }
    };
  }
  dispatch!("C01" => c01, "C02" => c02, "C03" => c03, "C04" => c04, "C05" => c05, "C06" => c06, "C07" => c07, "C08" => c08, "C09" => c09, "C10" => c10, "C18" => c18, "C11" => c11, "C12" => c12, "C13" => c13, "C14" => c14, "C15" => c15, "C16" => c16, "C17" => c17);
}

#[allow(dead_code)]
pub fn probe() {
  use rusty_paseto::prelude::*;
  use time::format_description::well_known::Rfc3339;
  for s in ["2020-01-01T00:00:00Z", "2020-01-01T00:00:00.123456789012345678901234567890Z", "2020-01-01T23:59:60Z", "2016-12-31T23:59:60Z", "0000-01-01T00:00:00Z", "9999-12-31T23:59:59+23:59",
    "2020-01-01T00:00:00-00:00", "2020-02-30T00:00:00Z", "2020-01-01t00:00:00z", "2020-01-01 00:00:00Z", "2020-01-01T00:00:00.1+05:30", "2020-01-01T00:00:00", "2020-01-01", "20200101T000000Z", "+2020-01-01T00:00:00Z", "abcd", "", "2020", "2020-01-01T24:00:00Z",
    "2020-01-01T00:00:00,5Z", "2020-01-01T00:00:00.Z", "2020-01-01T00:00:00+24:00", "2020-01-01T00:00:00+05", "2020-01-01T00:00:00+0530", "2020-W01-1T00:00:00Z", "2020-001T00:00:00Z"] {
    let a = ExpirationClaim::try_from(s).is_ok();
    let b = time::OffsetDateTime::parse(s, &Rfc3339);
    println!("{:60} iso8601(claim ctor)={:5} time-rfc3339={:?}", s, a, b.map(|d| d.unix_timestamp_nanos()).map_err(|e| e.to_string()));
  }
}