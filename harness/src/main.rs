#[macro_use]
mod engine;
mod gen;
mod keys;
mod proto;
mod specref;
mod rt;
mod c01;
mod c02;
mod c03;
mod c04;
mod c05;
mod c06;
mod c07;
mod c08;
mod c09;

use engine::{Ctx, Tier};

fn main() {
  let args: Vec<String> = std::env::args().collect();
  if args.len() < 3 {
    eprintln!("usage: pv <Cnn> quick|thorough | pv <Cnn> --replay <file>");
    std::process::exit(2);
  }
  engine::install_panic_hook();
  let id = args[1].as_str();
  if id == "selftest" {
    match specref::selftest() {
      Ok(n) => { println!("specref self-test: {n} official vectors reproduced"); std::process::exit(0) }
      Err(e) => { println!("specref self-test FAILED: {e}"); std::process::exit(2) }
    }
  }
  let seed: u64 = std::env::var("VERIF_SEED").ok().and_then(|s| s.parse().ok()).unwrap_or(0);
  macro_rules! dispatch {
    ($( $name:literal => $m:ident ),* $(,)?) => {
      match id {
        $( $name => {
          if args[2] == "--replay" {
            let file = args.get(3).map(|s| s.as_str()).unwrap_or("");
            std::process::exit(engine::replay($name, $m::subs(), file));
          }
          let tier = match args[2].as_str() { "quick" => Tier::Quick, "thorough" => Tier::Thorough, other => { eprintln!("unknown tier {other}"); std::process::exit(2) } };
          let ctx = Ctx::new($name, tier, seed);
          let meta = $m::run(&ctx);
          let out = engine::finish(ctx, meta);
          std::process::exit(out.exit_code);
        } )*
        other => { eprintln!("unknown property {other}"); std::process::exit(2); }
      }
    };
  }
  dispatch!("C01" => c01, "C02" => c02, "C03" => c03, "C04" => c04, "C05" => c05, "C06" => c06, "C07" => c07, "C08" => c08, "C09" => c09);
}
