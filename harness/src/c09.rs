//! C09 – untrusted token text can never crash the caller.
use crate::engine::*;
use crate::gen;
use crate::keys;
use crate::proto::*;
use proptest::collection::vec;
use proptest::prelude::*;
use rusty_paseto::core::Key;
use serde::{Deserialize, Serialize};

const SEED: [u8; 32] = [7u8; 32];

/// call the parse entry point of `proto` at `layer` on arbitrary text; Ok and Err are both fine
fn parse_any(proto: Proto, layer: Layer, token: &str, footer: Option<&str>) -> Result<(), (String, String)> {
  parse_any_with(proto, layer, token, footer, 0)
}

/// `unusual_key`: 1 / 2 = parse v1.public input under an RSA-3072 / RSA-4096 public key (0: the ordinary key)
fn parse_any_with(proto: Proto, layer: Layer, token: &str, footer: Option<&str>, unusual_key: u8) -> Result<(), (String, String)> {
  let km = if proto == Proto::V1P && unusual_key > 0 {
    let (sk, pk) = keys::RSA_UNUSUAL[(unusual_key as usize - 1) % 2];
    match KeyMaterial::new(proto, Some(sk), pk) {
      Ok(k) => k,
      Err(_) => return Ok(()),
    }
  } else {
    keys::material(proto, &SEED)
  };
  let lk = match km.lib() {
    Ok(k) => k,
    Err(_) => return Ok(()),
  };
  catch(|| match layer {
    Layer::Core => {
      let _ = core_parse(&lk, token, footer, None);
    }
    l => {
      let mut p = new_parser(proto, l);
      if let Some(f) = footer {
        p.footer(f);
      }
      let _ = p.parse(token, &lk);
      // the same input through a CONFIGURED parser: expected text claims (non-empty and empty), an expected number, a
      // validator - whatever the payload holds under those names (nothing, "", another type) is compared without unwinding
      let specs = [ClaimSpec::Aud("audience".into()), ClaimSpec::Jti("id-1".into()), ClaimSpec::Sub(String::new()), ClaimSpec::Iss("i".into()), ClaimSpec::Custom("role".into(), serde_json::json!("admin")), ClaimSpec::Custom("n".into(), serde_json::json!(7))];
      let mut q = new_parser(proto, l);
      if let Some(f) = footer {
        q.footer(f);
      }
      for (i, sp) in specs.iter().enumerate() {
        if (token.len() + i) % 2 == 0 {
          let _ = q.check(sp);
        } else {
          let _ = q.validate(sp, VALIDATOR_ACCEPTS);
        }
      }
      let _ = q.parse(token, &lk);
    }
  })
}

fn verdict(r: Result<(), (String, String)>, what: &str) -> Verdict {
  match r {
    Ok(()) => Verdict::Pass,
    Err((loc, msg)) => Verdict::Violation { sig: format!("C09:panic:{loc}"), detail: format!("{what} panicked at {loc}: {msg}") },
  }
}

// ---------------------------------------------------------------- (a) every decoded length 0..=400

#[derive(Clone, Debug, Serialize, Deserialize)]
pub struct LenCase {
  proto: Proto,
  layer: Layer,
  len: u32,
  /// 0 zeros, 1 ones, 2 counting pattern
  content: u8,
  with_footer: bool,
  /// v1.public only: 1 / 2 = under an RSA-3072 / RSA-4096 public key
  #[serde(default)]
  unusual_key: u8,
}

pub struct ByLength;
impl Sub for ByLength {
  type Case = LenCase;
  fn name(&self) -> String {
    "C09/length-sweep".into()
  }
  fn check(&self, c: &LenCase, cl: &mut Classes) -> Verdict {
    let payload: Vec<u8> = (0..c.len).map(|i| match c.content {
      0 => 0u8,
      1 => 0xff,
      _ => (i as u8).wrapping_mul(37).wrapping_add(11),
    }).collect();
    let token = join_token(c.proto.header(), &payload, if c.with_footer { Some("Zm9v") } else { None });
    cl.tag(format!("{}:{}", c.proto.label(), c.layer.label()));
    cl.tag(if (c.len as usize) < c.proto.fixed_len() { "shorter-than-fixed-parts" } else { "at-least-fixed-parts" });
    cl.nontrivial(true);
    if c.unusual_key > 0 {
      cl.tag(format!("v1.public under an RSA-{} key", if c.unusual_key == 1 { 3072 } else { 4096 }));
    }
    verdict(parse_any_with(c.proto, c.layer, &token, if c.with_footer { Some("foo") } else { None }, c.unusual_key), &format!("{} {} parse of a {}-byte payload{}", c.proto.label(), c.layer.label(), c.len, if c.unusual_key > 0 { " under an RSA key of 3072 / 4096 bits" } else { "" }))
  }
}

fn length_cases(max: u32) -> impl Iterator<Item = LenCase> {
  let mut v = vec![];
  for proto in Proto::ALL {
    for layer in Layer::ALL {
      for len in 0..=max {
        for content in 0..3u8 {
          for with_footer in [false, true] {
            v.push(LenCase { proto, layer, len, content, with_footer, unusual_key: 0 });
          }
        }
      }
    }
  }
  // v1.public under public keys of 3072 and 4096 bits: every length up to beyond their signature sizes
  for layer in Layer::ALL {
    for unusual_key in [1u8, 2] {
      for len in 0..=(max.max(400) + 300) {
        v.push(LenCase { proto: Proto::V1P, layer, len, content: 2, with_footer: len % 2 == 1, unusual_key });
      }
    }
  }
  v.into_iter()
}

// ---------------------------------------------------------------- (b) prefixes / deletions of authentic tokens

#[derive(Clone, Debug, Serialize, Deserialize)]
pub struct CutCase {
  proto: Proto,
  layer: Layer,
  /// 0 prefix of length `at`; 1 delete character `at`; 2 suffix from `at`
  op: u8,
  at: u32,
  with_footer: bool,
}

fn authentic(proto: Proto, with_footer: bool) -> String {
  let km = keys::material(proto, &SEED);
  let lk = km.lib().expect("keys");
  let msg = "{\"data\":\"this is a message for prefixes\",\"exp\":\"2999-01-01T00:00:00+00:00\"}";
  core_build(&lk, &[9u8; 32], msg, if with_footer { Some("foo") } else { None }, None).expect("authentic token")
}

pub struct Cuts;
impl Sub for Cuts {
  type Case = CutCase;
  fn name(&self) -> String {
    "C09/prefixes-and-deletions".into()
  }
  fn check(&self, c: &CutCase, cl: &mut Classes) -> Verdict {
    let t = authentic(c.proto, c.with_footer);
    let at = (c.at as usize).min(t.len());
    let cut = match c.op {
      0 => t[..at].to_string(),
      1 => {
        let mut s = t.clone();
        if at < s.len() {
          s.remove(at);
        }
        s
      }
      _ => t[at..].to_string(),
    };
    cl.tag(format!("{}:{}", c.proto.label(), c.layer.label()));
    cl.nontrivial(cut.starts_with(c.proto.header()));
    verdict(parse_any(c.proto, c.layer, &cut, if c.with_footer { Some("foo") } else { None }), &format!("{} {} parse of {:?}", c.proto.label(), c.layer.label(), cut))
  }
}

fn cut_cases() -> impl Iterator<Item = CutCase> {
  let mut v = vec![];
  for proto in Proto::ALL {
    for with_footer in [false, true] {
      let n = authentic(proto, with_footer).len() as u32;
      for layer in Layer::ALL {
        for op in 0..3u8 {
          for at in 0..=n {
            v.push(CutCase { proto, layer, op, at, with_footer });
          }
        }
      }
    }
  }
  v.into_iter()
}

// ---------------------------------------------------------------- (c) arbitrary text

#[derive(Clone, Debug, Serialize, Deserialize)]
pub struct TextCase {
  proto: Proto,
  layer: Layer,
  token: String,
  footer: Option<String>,
}

pub struct AnyText;
impl Sub for AnyText {
  type Case = TextCase;
  fn name(&self) -> String {
    "C09/arbitrary-text".into()
  }
  fn check(&self, c: &TextCase, cl: &mut Classes) -> Verdict {
    cl.tag(format!("{}:{}", c.proto.label(), c.layer.label()));
    let segs = c.token.split('.').count();
    cl.tag(format!("segments={}", segs.min(7)));
    let past_split = c.token.starts_with(c.proto.header()) && (3..=4).contains(&segs);
    let decodable = past_split && unb64(c.token.split('.').nth(2).unwrap_or("!")).is_some();
    cl.tag(if decodable { "reaches-slicing" } else if past_split { "right-header" } else { "rejected-by-format" });
    cl.nontrivial(decodable);
    verdict(parse_any(c.proto, c.layer, &c.token, c.footer.as_deref()), &format!("{} {} parse of {:?}", c.proto.label(), c.layer.label(), c.token))
  }
}

const B64ALPHA: &[u8] = b"ABCDEFGHIJKLMNOPQRSTUVWXYZabcdefghijklmnopqrstuvwxyz0123456789-_";

fn b64ish(max: usize) -> impl Strategy<Value = String> {
  vec(any::<u16>(), 0..=max).prop_map(|v| v.into_iter().map(|i| B64ALPHA[pick(i, 64)] as char).collect())
}

fn token_text(proto: Proto) -> BoxedStrategy<String> {
  let header = proto.header();
  prop_oneof![
    2 => gen::unicode(40),
    2 => vec(prop_oneof![gen::unicode(8), b64ish(12), Just("v4".to_string()), Just("local".to_string()), Just("public".to_string()), Just(String::new())], 0..=6).prop_map(|v| v.join(".")),
    4 => b64ish(700).prop_map(move |s| format!("{header}{s}")),
    4 => (vec(any::<u8>(), 0..600), prop_oneof![Just(None), b64ish(8).prop_map(Some), Just(Some("Zm9v".to_string()))])
      .prop_map(move |(bytes, f)| join_token(header, &bytes, f.as_deref())),
    1 => (vec(any::<u8>(), 0..120), 0usize..4).prop_map(move |(bytes, pad)| format!("{header}{}{}", b64(&bytes), "=".repeat(pad))),
    1 => (gen::unicode(12), b64ish(80)).prop_map(move |(u, s)| format!("{header}{s}{u}")),
    1 => (vec(any::<u8>(), 0..200), gen::unicode(10)).prop_map(move |(bytes, f)| format!("{header}{}.{f}", b64(&bytes))),
    1 => (1usize..4, b64ish(100)).prop_map(move |(n, s)| format!("{header}{s}{}", ".".repeat(n))),
  ]
  .boxed()
}

fn text_case() -> BoxedStrategy<TextCase> {
  (any::<u16>(), any::<u16>())
    .prop_flat_map(|(p, l)| {
      let proto = Proto::ALL[pick(p, 8)];
      let layer = Layer::ALL[pick(l, 3)];
      let header = proto.header();
      prop_oneof![
        5 => (token_text(proto), prop_oneof![Just(None), Just(Some("foo".to_string())), gen::unicode(6).prop_map(Some)])
          .prop_map(move |(token, footer)| TextCase { proto, layer, token, footer }),
        // a footer SEGMENT that decodes to structured / special text (JSON documents, their unbalanced relatives, key ids, BOMs ...),
        // presented with no expected footer, the same text, or another one
        2 => (vec(any::<u8>(), 0..200), prop_oneof![3 => gen::doc_text(), 2 => gen::text()], 0u8..3).prop_map(move |(bytes, t, k)| {
          let f = t.render();
          let token = join_token(header, &bytes, Some(&b64(f.as_bytes())));
          TextCase { proto, layer, token, footer: match k { 0 => None, 1 => Some(f), _ => Some("foo".to_string()) } }
        }),
      ]
    })
    .boxed()
}

fn huge_cases() -> impl Iterator<Item = TextCase> {
  let mut v = vec![];
  for proto in Proto::ALL {
    for layer in Layer::ALL {
      // 1 MiB inputs: valid base64 payload, invalid base64, dots only
      let big = "A".repeat(1 << 20);
      v.push(TextCase { proto, layer, token: format!("{}{}", proto.header(), big), footer: None });
      v.push(TextCase { proto, layer, token: format!("{}{}", proto.header(), "é".repeat(1 << 19)), footer: None });
      v.push(TextCase { proto, layer, token: ".".repeat(1 << 20), footer: None });
      v.push(TextCase { proto, layer, token: format!("{}{}.{}", proto.header(), "AAAA", big), footer: Some("x".into()) });
    }
  }
  v.into_iter()
}

// ---------------------------------------------------------------- (c') inputs that could kill the process rather than unwind

/// Deeply nested input (footer segments and authentic payloads nested 200 .. 1 000 000 levels deep): a stack overflow is
/// not a panic that `catch_unwind` could see - the process dies. These inputs are therefore parsed in a helper process
/// (`pv c09-deep`), on a thread with the 2 MiB stack Rust gives threads by default, announcing each case before it runs.
#[derive(Clone, Debug, Serialize, Deserialize)]
pub struct DeepCase {
  /// u32::MAX = the whole list in one helper process; otherwise that one case
  pub index: u32,
}

pub struct DeepInputs;

const DEPTHS: [usize; 4] = [200, 10_000, 200_000, 1_000_000];

/// protocol and size of deep case `i` without building it (None past the end)
fn deep_meta(i: usize) -> Option<(Proto, usize)> {
  let per_proto = DEPTHS.len() * 6;
  if i < 24 * per_proto {
    Some((Proto::ALL[i / per_proto / 3], DEPTHS[(i % per_proto) / 6]))
  } else {
    let k = i - 24 * per_proto;
    if k / 96 >= 5 {
      return None;
    }
    Some((Proto::ALL[k % 8], [1_000usize, 15_000, 100_000, 1 << 20][(k / 24) % 4]))
  }
}

/// (protocol, layer, token, expected footer, description) of deep case `i`
fn deep_case(i: usize) -> Option<(Proto, Layer, String, Option<String>, String)> {
  let shapes = 6;
  let per_proto = DEPTHS.len() * shapes;
  let (pl, rest) = (i / per_proto, i % per_proto);
  if pl >= 8 * 3 {
    // after the nested inputs: long FLAT inputs - many segments, many dots, long runs of one character
    let k = i - 8 * 3 * per_proto;
    let (proto, layer) = (Proto::ALL[k % 8], Layer::ALL[(k / 8) % 3]);
    let n = [1_000usize, 15_000, 100_000, 1 << 20][(k / 24) % 4];
    let (token, what): (String, &str) = match k / 96 {
      0 => (".".repeat(n), "dots only"),
      1 => (format!("{}AAAA{}", proto.header(), ".".repeat(n)), "right header, AAAA, then dots"),
      2 => (format!("{}{}", proto.header(), "A.".repeat(n)), "right header, then one-character segments"),
      3 => (format!("{}{}", proto.header(), "%41".repeat(n)), "right header, then percent-escapes"),
      4 => (format!("{}{}.{}", proto.header(), "A".repeat(200), "=".repeat(n)), "footer segment of '=' characters"),
      _ => return None,
    };
    return Some((proto, layer, token, None, format!("{} {} - {} ({})", proto.label(), layer.label(), what, n)));
  }
  let (proto, layer) = (Proto::ALL[pl / 3], Layer::ALL[pl % 3]);
  let (depth, shape) = (DEPTHS[rest / shapes], rest % shapes);
  let km = keys::material(proto, &SEED);
  let lk = km.lib().ok()?;
  let nonce = &[8u8; 32][..if proto == Proto::V2L { 24 } else { 32 }];
  let nest = |open: &str, close: &str, unbalanced: bool| -> String { format!("{}{}{}", open.repeat(depth), "1", if unbalanced { String::new() } else { close.repeat(depth) }) };
  let (token, footer, what) = match shape {
    // a footer SEGMENT that decodes to deep nesting, presented with that footer / with none
    0 => {
      let f = nest("[", "]", false);
      (core_build(&lk, nonce, "{\"data\":\"deep\"}", Some(&f), None).ok()?, Some(f), "authentic token whose footer is an array nested")
    }
    1 => {
      let f = nest("{\"a\":", "}", false);
      (core_build(&lk, nonce, "{\"data\":\"deep\"}", Some(&f), None).ok()?, Some(f), "authentic token whose footer is an object nested")
    }
    2 => (join_token(proto.header(), &[0u8; 200], Some(&b64(nest("[", "]", true).as_bytes()))), None, "unauthenticated token whose footer segment opens arrays nested"),
    // an AUTHENTIC payload that is deeply nested JSON (the builder layers' parsers read it as claims)
    3 => (core_build(&lk, nonce, &nest("[", "]", false), None, None).ok()?, None, "authentic payload: arrays nested"),
    4 => (core_build(&lk, nonce, &nest("{\"a\":", "}", false), None, None).ok()?, None, "authentic payload: objects nested"),
    _ => (core_build(&lk, nonce, &format!("{{\"exp\":{}}}", nest("[", "]", false)), None, None).ok()?, None, "authentic payload: exp is an array nested"),
  };
  Some((proto, layer, token, footer, format!("{} {} - {} {} deep", proto.label(), layer.label(), what, depth)))
}

/// Body of `pv c09-deep all|<index>`
pub fn deep_child_main(args: &[String]) -> i32 {
  use std::io::Write;
  let only: Option<usize> = args.first().and_then(|a| a.parse().ok());
  let worker = std::thread::Builder::new().stack_size(2 * 1024 * 1024).spawn(move || {
    let mut i = only.unwrap_or(0);
    let light = std::env::var("PV_HELPER_LIGHT").is_ok(); // the unoptimised build: leave the expensive protocols out
    while let Some((mp, size)) = deep_meta(i) {
      if light && only.is_none() && (!matches!(mp, Proto::V4L | Proto::V2L | Proto::V4P) || size > 100_000) {
        i += 1;
        continue;
      }
      let (proto, layer, token, footer, desc) = match deep_case(i) {
        Some(x) => x,
        None => break,
      };
      println!("CASE {i} {desc}");
      let _ = std::io::stdout().flush();
      match parse_any(proto, layer, &token, footer.as_deref()) {
        Ok(_) => println!("RESULT {i} returned"),
        Err((loc, msg)) => println!("RESULT {i} PANIC {loc} {msg}"),
      }
      let _ = std::io::stdout().flush();
      if only.is_some() {
        break;
      }
      i += 1;
    }
    println!("DONE");
  });
  match worker.map(|w| w.join()) {
    Ok(Ok(())) => 0,
    _ => 3,
  }
}

impl Sub for DeepInputs {
  type Case = DeepCase;
  fn name(&self) -> String {
    "C09/deep-inputs-in-a-helper-process".into()
  }
  fn check(&self, c: &DeepCase, cl: &mut Classes) -> Verdict {
    helper_verdict("C09", "c09-deep", c.index, cl)
  }
}

// ---------------------------------------------------------------- (d) hex key strings

#[derive(Clone, Debug, Serialize, Deserialize)]
pub struct HexCase {
  n: u32,
  text: String,
}

pub struct HexKeys;
impl Sub for HexKeys {
  type Case = HexCase;
  fn name(&self) -> String {
    "C09/hex-key-strings".into()
  }
  fn check(&self, c: &HexCase, cl: &mut Classes) -> Verdict {
    let s = c.text.as_str();
    let r = catch(|| match c.n {
      24 => Key::<24>::try_from(s).map(|k| k.as_ref().to_vec()),
      32 => Key::<32>::try_from(s).map(|k| k.as_ref().to_vec()),
      48 => Key::<48>::try_from(s).map(|k| k.as_ref().to_vec()),
      49 => Key::<49>::try_from(s).map(|k| k.as_ref().to_vec()),
      _ => Key::<64>::try_from(s).map(|k| k.as_ref().to_vec()),
    });
    let n = if [24, 32, 48, 49].contains(&c.n) { c.n as usize } else { 64 };
    let valid_hex = s.len() % 2 == 0 && s.bytes().all(|b| b.is_ascii_hexdigit());
    cl.tag(format!("Key<{n}>"));
    cl.tag(if valid_hex && s.len() == 2 * n { "right-length" } else if valid_hex { "valid-hex-wrong-length" } else { "not-hex" });
    cl.nontrivial(true);
    match r {
      Err((loc, msg)) => Verdict::Violation { sig: format!("C09:panic:{loc}"), detail: format!("Key::<{n}>::try_from({:?}) panicked at {loc}: {msg}", s) },
      Ok(Ok(bytes)) => {
        // accepted: must be exactly the decoded bytes
        if !(valid_hex && s.len() == 2 * n && hex::decode(s).ok().as_deref() == Some(&bytes[..])) {
          vio!("C09:hex-key-accepted-wrong:{}", n; "Key::<{}>::try_from({:?}) returned Ok with bytes {}", n, s, hex::encode(&bytes));
        }
        Verdict::Pass
      }
      Ok(Err(_)) => {
        if valid_hex && s.len() == 2 * n {
          vio!("C09:hex-key-rejected-right-length:{}", n; "Key::<{}>::try_from({:?}) rejected a well-formed key", n, s);
        }
        Verdict::Pass
      }
    }
  }
}

fn hex_cases() -> impl Iterator<Item = HexCase> {
  let mut v = vec![];
  for n in [24u32, 32, 48, 49, 64] {
    for len in 0..=200usize {
      let valid: String = (0..len).map(|i| b"0123456789abcdefABCDEF"[(i * 7 + len) % 22] as char).collect();
      v.push(HexCase { n, text: valid.clone() });
      if len > 0 {
        let mut bad = valid.clone();
        bad.replace_range(len - 1..len, "g");
        v.push(HexCase { n, text: bad });
        let mut uni: String = valid.chars().take(len - 1).collect();
        uni.push('é');
        v.push(HexCase { n, text: uni });
      }
    }
    // beyond the stated 0..=200: every length up to 1100 and the neighbours of every power of two up to 2^20
    for len in (201..=1100usize).chain((11..=20).flat_map(|k| [(1usize << k) - 1, 1 << k, (1 << k) + 1, (1 << k) + 2])) {
      let valid: String = (0..len).map(|i| b"0123456789abcdefABCDEF"[(i * 7 + len) % 22] as char).collect();
      if len % 97 == 0 || len > 1100 {
        let mut bad = valid.clone();
        bad.replace_range(len / 2..len / 2 + 1, "g");
        v.push(HexCase { n, text: bad });
      }
      v.push(HexCase { n, text: valid });
    }
    // strings whose UTF-8 byte length is exactly 2N with one multi-byte character at every byte offset
    let total = 2 * n as usize;
    for (ch, w) in [('é', 2usize), ('€', 3), ('😀', 4)] {
      for off in 0..=(total - w) {
        let mut t = String::new();
        t.push_str(&"0".repeat(off));
        t.push(ch);
        t.push_str(&"a".repeat(total - w - off));
        v.push(HexCase { n, text: t });
      }
    }
  }
  v.into_iter()
}

fn hex_case() -> BoxedStrategy<HexCase> {
  (any::<u16>(), prop_oneof![
    3 => vec(any::<u16>(), 0..=200).prop_map(|v| v.into_iter().map(|i| b"0123456789abcdefABCDEF"[pick(i, 22)] as char).collect::<String>()),
    1 => vec(any::<u16>(), 200..=3000).prop_map(|v| v.into_iter().map(|i| b"0123456789abcdefABCDEF"[pick(i, 22)] as char).collect::<String>()),
    1 => gen::unicode(100),
    1 => gen::jsonish(200),
  ])
    .prop_map(|(i, text)| HexCase { n: [24u32, 32, 48, 49, 64][pick(i, 5)], text })
    .boxed()
}

// ---------------------------------------------------------------- (e) authentic tokens with hostile claim values

#[derive(Clone, Debug, Serialize, Deserialize)]
pub struct ClaimCase {
  proto: Proto,
  layer: Layer,
  /// raw JSON text of the payload (authentically encrypted / signed, so it reaches claim handling)
  payload: String,
}

pub struct HostileClaims;
impl Sub for HostileClaims {
  type Case = ClaimCase;
  fn name(&self) -> String {
    "C09/authentic-token-hostile-claims".into()
  }
  fn check(&self, c: &ClaimCase, cl: &mut Classes) -> Verdict {
    let km = keys::material(c.proto, &SEED);
    let lk = km.lib().expect("keys");
    let token = match core_build(&lk, &[5u8; 32][..if c.proto == Proto::V2L { 24 } else { 32 }], &c.payload, None, None) {
      Ok(t) => t,
      Err(_) => return Verdict::Discard,
    };
    cl.tag(format!("{}:{}", c.proto.label(), c.layer.label()));
    cl.nontrivial(true);
    verdict(parse_any(c.proto, c.layer, &token, None), &format!("{} {} parse of an authentic token with payload {}", c.proto.label(), c.layer.label(), c.payload))
  }
}

// ---------------------------------------------------------------- (e') authentic tokens whose plaintext is arbitrary BYTES

/// A token made by another implementation (the harness's transcription of the specification) may seal any byte string:
/// text that is not UTF-8, truncated multi-byte characters, surrogates, NULs, JSON of any top-level type. Such a token
/// passes authentication, so everything behind it (UTF-8 conversion, JSON parsing, claim handling) sees the bytes.
#[derive(Clone, Debug, Serialize, Deserialize)]
pub struct BytesCase {
  proto: Proto,
  layer: Layer,
  #[serde(with = "crate::gen::hexser")]
  plaintext: Vec<u8>,
  footer: Option<String>,
}

pub struct ForeignPlaintext;

pub fn reference_token(p: Proto, seed: &[u8; 32], plaintext: &[u8], footer: &[u8]) -> Option<String> {
  use crate::specref::{self, RefSecret};
  let v = p.version();
  if p.is_local() {
    return Some(specref::local_encrypt(v, seed, &[9u8; 32][..p.nonce_len().min(32)], plaintext, footer, b""));
  }
  let (sk, pk) = keys::key_bytes(p, seed);
  let unc;
  let rs = match p {
    Proto::V1P => RefSecret::Rsa(&sk),
    Proto::V3P => {
      unc = keys::p384_from_seed(seed).2;
      RefSecret::P384 { scalar: &sk, uncompressed: &unc, compressed: &pk }
    }
    _ => RefSecret::Ed { seed: &sk[..32], public: &pk },
  };
  specref::public_sign(v, &rs, plaintext, footer, b"").ok()
}

impl Sub for ForeignPlaintext {
  type Case = BytesCase;
  fn name(&self) -> String {
    "C09/authentic-token-arbitrary-bytes".into()
  }
  fn check(&self, c: &BytesCase, cl: &mut Classes) -> Verdict {
    let footer = c.footer.clone().unwrap_or_default();
    let token = match reference_token(c.proto, &SEED, &c.plaintext, footer.as_bytes()) {
      Some(t) => t,
      None => return Verdict::Discard,
    };
    cl.tag(format!("{}:{}", c.proto.label(), c.layer.label()));
    let utf8 = std::str::from_utf8(&c.plaintext).is_ok();
    cl.tag(if !utf8 { "plaintext:not-utf8" } else if serde_json::from_slice::<serde_json::Value>(&c.plaintext).is_ok() { "plaintext:json" } else { "plaintext:text" });
    cl.nontrivial(!utf8 || c.layer != Layer::Core);
    verdict(parse_any(c.proto, c.layer, &token, c.footer.as_deref()), &format!("{} {} parse of an authentic token sealing the bytes {}", c.proto.label(), c.layer.label(), hex::encode(&c.plaintext)))
  }
}

/// byte strings around the edges of UTF-8
const UTF8_EDGES: [&[u8]; 22] = [
  b"\x80", b"\xbf", b"\xc0\x80", b"\xc1\xbf", b"\xc2", b"\xe0\x80\x80", b"\xe0\x9f\xbf", b"\xed\xa0\x80", b"\xed\xbf\xbf", b"\xef\xbf\xbe", b"\xef\xbb\xbf", b"\xf0\x80\x80\x80", b"\xf0\x8f\xbf\xbf",
  b"\xf4\x90\x80\x80", b"\xf5\x80\x80\x80", b"\xf8\x88\x80\x80\x80", b"\xfe", b"\xff", b"\xe2\x82", b"\xf0\x9f\xa6", b"\x00", b"\xc3\x28",
];

fn bytes_case() -> BoxedStrategy<BytesCase> {
  let plaintext = prop_oneof![
    3 => vec(any::<u8>(), 0..200),
    // text or a JSON document with one edge sequence spliced in at any place (also inside a string, a key, a number)
    6 => (prop_oneof![gen::doc_text().prop_map(|t| t.render()), gen::unicode(40), Just("{\"exp\":\"2999-01-01T00:00:00Z\",\"sub\":\"x\"}".to_string())], any::<u16>(), any::<u16>(), any::<bool>()).prop_map(|(t, e, at, replace)| {
      let mut b = t.into_bytes();
      let edge = UTF8_EDGES[pick(e, UTF8_EDGES.len())];
      let i = pick(at, b.len() + 1);
      if replace && i < b.len() {
        b.splice(i..(i + edge.len()).min(b.len()), edge.iter().copied());
      } else {
        b.splice(i..i, edge.iter().copied());
      }
      b
    }),
    // valid text of every kind, valid JSON of every top-level type
    2 => gen::doc_text().prop_map(|t| t.render().into_bytes()),
    1 => gen::json_value(3).prop_map(|v| v.to_string().into_bytes()),
    // a valid document cut inside a multi-byte character
    1 => (gen::unicode(30), any::<u16>()).prop_map(|(t, at)| {
      let b = t.into_bytes();
      let n = pick(at, b.len() + 1);
      b[..n].to_vec()
    }),
  ];
  (any::<u16>(), any::<u16>(), plaintext, prop_oneof![3 => Just(None), 1 => Just(Some("kid".to_string()))])
    .prop_map(|(p, l, plaintext, footer)| BytesCase { proto: Proto::ALL[pick(p, 8)], layer: Layer::ALL[pick(l, 3)], plaintext, footer })
    .boxed()
}

fn bytes_grid() -> impl Iterator<Item = BytesCase> {
  let mut v = vec![];
  for proto in Proto::ALL {
    for layer in Layer::ALL {
      for e in UTF8_EDGES {
        v.push(BytesCase { proto, layer, plaintext: e.to_vec(), footer: None });
        let mut inside = b"{\"sub\":\"".to_vec();
        inside.extend_from_slice(e);
        inside.extend_from_slice(b"\"}");
        v.push(BytesCase { proto, layer, plaintext: inside, footer: None });
      }
      v.push(BytesCase { proto, layer, plaintext: vec![], footer: None });
      v.push(BytesCase { proto, layer, plaintext: vec![0xff; 4096], footer: Some("kid".into()) });
    }
  }
  v.into_iter()
}

const HOSTILE_TIMES: [&str; 28] = [
  "9999-12-31T23:59:59-01:00", "9999-12-31T23:59:59-23:59", "9999-12-31T23:59:59.999999999-00:01", "9999-12-31T23:59:59Z", "9999-12-31T23:59:60Z",
  "0000-01-01T00:00:00+00:01", "0000-01-01T00:00:00+23:59", "0000-01-01T00:00:00Z", "0000-12-31T23:59:59-23:59", "0001-01-01T00:00:00+14:00",
  "2016-12-31T23:59:60Z", "2016-12-31T23:59:60+23:59", "1972-06-30T23:59:60-23:59", "2024-02-29T12:00:00+05:30", "2023-02-29T12:00:00Z",
  "2024-01-01T00:00:00.0000000000000000000000000000000000000001Z", "2024-01-01T00:00:00.999999999999999999999999Z", "2024-01-01T24:00:00Z", "2024-01-01T00:00:00+24:00",
  "2024-01-01T00:00:00-00:00", "+2024-01-01T00:00:00Z", "-0001-01-01T00:00:00Z", "10000-01-01T00:00:00Z", "2024-13-01T00:00:00Z", "2024-01-01T00:00:00+99:99", "2024-01-01t00:00:00z",
  "1970-01-01T00:00:00Z", "1969-12-31T23:59:59.999999999+23:59",
];

fn hostile_value() -> BoxedStrategy<serde_json::Value> {
  use serde_json::json;
  prop_oneof![
    6 => any::<u16>().prop_map(|i| json!(HOSTILE_TIMES[pick(i, HOSTILE_TIMES.len())])),
    // any year x any offset x any fraction, well-formed
    6 => (0u32..=9999, 1u32..=12, 1u32..=31, 0u32..=24, 0u32..=60, 0u32..=60, proptest::collection::vec(0u8..10, 0..12), -1439i32..=1439, any::<bool>())
      .prop_map(|(y, mo, d, h, mi, se, frac, off, z)| {
        let mut s = format!("{:04}-{:02}-{:02}T{:02}:{:02}:{:02}", y, mo, d, h, mi, se);
        if !frac.is_empty() { s.push('.'); for f in frac { s.push((b'0' + f) as char); } }
        if z { s.push('Z'); } else { s.push(if off < 0 { '-' } else { '+' }); s.push_str(&format!("{:02}:{:02}", off.abs() / 60, off.abs() % 60)); }
        json!(s)
      }),
    2 => gen::json_value(3),
    2 => Just(json!("")),
    1 => gen::unicode(12).prop_map(|s| json!(s)),
    1 => any::<i64>().prop_map(|i| json!(i)),
    // JWT-style numeric dates: the whole range `time` can represent (years -9999 ..= 9999) and just outside it, the year
    // 0000 / 0001 / 1970 / 9999 boundaries to the second, as integers and as floats
    4 => prop_oneof![
      3 => (-377_705_116_800i64..=253_402_300_799).prop_map(|i| json!(i)),
      2 => (any::<u16>(), -2i64..=2).prop_map(|(k, d)| json!([-377_705_116_800i64, -62_167_219_200, -62_135_596_800, 0, 253_402_300_799, 253_402_300_800, -377_705_116_801, 4_102_444_800, -1, 1_700_000_000][pick(k, 10)] + d)),
      1 => (-377_705_116_800i64..=253_402_300_799, 0u32..1000).prop_map(|(i, f)| json!(i as f64 + f as f64 / 1000.0)),
      1 => (-377_705_116_800_000i64..=253_402_300_799_000).prop_map(|i| json!(i)),
    ],
    1 => Just(json!(1e308)),
    1 => Just(json!(u64::MAX)),
  ]
  .boxed()
}

fn claim_case() -> BoxedStrategy<ClaimCase> {
  (any::<u16>(), any::<u16>(), proptest::collection::vec((prop_oneof![4 => Just("exp".to_string()), 4 => Just("nbf".to_string()), 1 => Just("iat".to_string()), 1 => Just("sub".to_string()), 1 => gen::json_key(), 1 => Just("aud".to_string()), 1 => Just("jti".to_string()), 1 => Just("iss".to_string()), 1 => Just("role".to_string()), 1 => Just("n".to_string())], hostile_value()), 0..4), 0u8..12)
    .prop_map(|(p, l, members, shape)| {
      let obj: serde_json::Map<String, serde_json::Value> = members.into_iter().collect();
      let payload = match shape {
        0 => serde_json::Value::Array(obj.values().cloned().collect()).to_string(), // a payload that is not an object
        1 => "null".to_string(),
        2 => "\"just a string\"".to_string(),
        3 => "{\"exp\":".to_string(), // authentic but not JSON
        _ => serde_json::Value::Object(obj).to_string(),
      };
      ClaimCase { proto: Proto::ALL[pick(p, 8)], layer: Layer::ALL[pick(l, 3)], payload }
    })
    .boxed()
}

fn hostile_grid() -> impl Iterator<Item = ClaimCase> {
  let mut v = vec![];
  for proto in [Proto::V4L, Proto::V2P, Proto::V1L] {
    for layer in [Layer::Generic, Layer::Prelude] {
      for t in HOSTILE_TIMES {
        for key in ["exp", "nbf"] {
          v.push(ClaimCase { proto, layer, payload: format!("{{\"{key}\":\"{t}\"}}") });
        }
      }
    }
  }
  v.into_iter()
}

// ---------------------------------------------------------------- libFuzzer support

pub fn fuzz_decode(data: &[u8]) -> Option<TextCase> {
  let (sel, rest) = data.split_first()?;
  let proto = Proto::ALL[(sel & 7) as usize];
  let layer = Layer::ALL[((sel >> 3) % 3) as usize];
  let footer = if sel & 0x40 != 0 { Some("foo".to_string()) } else { None };
  Some(TextCase { proto, layer, token: String::from_utf8_lossy(rest).into_owned(), footer })
}

/// entry point of the fz_anytoken target (a panic of the library aborts the fuzzer: that is the oracle)
pub fn fuzz_one(data: &[u8]) {
  if let Some(c) = fuzz_decode(data) {
    let km = keys::material(c.proto, &SEED);
    if let Ok(lk) = km.lib() {
      match c.layer {
        Layer::Core => {
          let _ = core_parse(&lk, &c.token, c.footer.as_deref(), None);
        }
        l => {
          let mut p = new_parser(c.proto, l);
          if let Some(f) = c.footer.as_deref() {
            p.footer(f);
          }
          let _ = p.parse(&c.token, &lk);
        }
      }
    }
  }
}

pub fn fuzz_seeds() -> Vec<Vec<u8>> {
  let mut out = vec![];
  for (i, proto) in Proto::ALL.iter().enumerate() {
    for (l, _) in Layer::ALL.iter().enumerate() {
      for with_footer in [false, true] {
        let sel = (i as u8) | ((l as u8) << 3) | if with_footer { 0x40 } else { 0 };
        let mut v = vec![sel];
        v.extend_from_slice(authentic(*proto, with_footer).as_bytes());
        out.push(v);
        let mut short = vec![sel];
        short.extend_from_slice(format!("{}AAAA", proto.header()).as_bytes());
        out.push(short);
      }
    }
  }
  out
}

// ----------------------------------------------------------------

pub fn subs() -> Vec<Box<dyn DynSub>> {
  vec![Box::new(ByLength), Box::new(Cuts), Box::new(AnyText), Box::new(HexKeys), Box::new(HostileClaims), Box::new(DeepInputs), Box::new(ForeignPlaintext), Box::new(crate::c11::TightCrossing { pid: "C09" })]
}

pub fn run(ctx: &Ctx) -> EvidenceMeta {
  // before anything is parsed: an application whose own callbacks panic has been at work in this process (on a worker
  // thread that died of it, and contained on this one) - untrusted tokens must still come back with Ok or Err
  {
    let km = keys::material(Proto::V4L, &SEED);
    if let Ok(lk) = km.lib() {
      let _ = std::thread::scope(|sc| sc.spawn(|| callbacks_misbehave(Proto::V4L, &lk, 3)).join());
      let _ = callbacks_misbehave(Proto::V4L, &lk, 7);
    }
  }
  let max_len = if ctx.is_child() { 140 } else { 400 };
  let jobs: Vec<Job> = vec![
    Box::new(|| ctx.enumerate(&ByLength, length_cases(max_len), true)),
    Box::new(|| ctx.enumerate(&Cuts, cut_cases(), true)),
    Box::new(|| ctx.enumerate(&HexKeys, hex_cases(), true)),
    Box::new(|| ctx.enumerate(&AnyText, huge_cases(), false)),
    Box::new(|| ctx.prop(&AnyText, text_case(), ctx.n(20_000, 600_000))),
    Box::new(|| ctx.prop(&HexKeys, hex_case(), ctx.n(5_000, 200_000))),
    Box::new(|| ctx.fuzz_inputs(&AnyText, "fz_anytoken", fuzz_decode)),
    Box::new(|| ctx.enumerate(&HostileClaims, hostile_grid(), false)),
    Box::new(|| ctx.enumerate(&ForeignPlaintext, bytes_grid(), false)),
    // authentic tokens parsed in a tight loop while the clock runs across their nbf: every order of the library's clock
    // readings relative to that instant occurs (an entry point that computes with two readings must not unwind for any)
    Box::new(|| {
      if !ctx.is_child() {
        let tight = crate::c11::TightCrossing { pid: "C09" };
        ctx.enumerate(&tight, [(Proto::V4L, 150u32), (Proto::V2L, 300)].into_iter().map(|(proto, lead_us)| crate::c11::TightCase { proto, lead_us, crossings: ctx.n(400, 6000) }), false)
      }
    }),
    Box::new(|| ctx.prop(&ForeignPlaintext, bytes_case(), ctx.n(12_000, 300_000))),
    Box::new(|| {
      if !ctx.is_child() {
        ctx.enumerate(&DeepInputs, std::iter::once(DeepCase { index: u32::MAX }), false)
      }
    }),
    Box::new(|| ctx.prop(&HostileClaims, claim_case(), ctx.n(15_000, 300_000))),
  ];
  run_jobs(jobs);
  EvidenceMeta {
    rule: "length-sweep: each of the 8 headers + base64url of a payload of every decoded length 0..=400 x 3 contents x with/without footer segment x 3 layers (exhaustive); \
           prefixes-and-deletions: every prefix, suffix and single-character deletion of an authentic token per protocol x layer (exhaustive); \
           hex-key-strings: Key::<N>::try_from for N in {24,32,48,49,64} on valid/invalid hex of every length 0..=200 (exhaustive), valid hex of every length to 1100 and around every power of two to 2^20, plus generated strings to 3000 characters; \
           arbitrary-text: generated Unicode, 0-6 segments, right header + base64-alphabet noise / random bytes / padding / trailing dots, footer segments that decode to JSON documents (key sets, deep nesting, many empty containers), their unbalanced relatives and special strings, 1 MiB inputs; \
           authentic-token-hostile-claims: authentically encrypted/signed payloads whose exp/nbf/other members carry calendar extremes (year 0000/9999 with offsets, leap seconds, 40 fraction digits), any well-formed or ill-formed timestamp, arbitrary JSON, or that are not objects / not JSON at all. \
           authentic-token-arbitrary-bytes: tokens sealed by the harness's transcription of the specification around byte strings that are not UTF-8 (every class of ill-formed sequence, spliced into text, JSON strings, keys and numbers at any place; documents cut inside a character), NULs, JSON of every top-level type - they pass authentication, so UTF-8 conversion, JSON parsing and claim handling see the bytes; \
           tight loop: authentic tokens whose nbf lies a few hundred microseconds ahead, parsed again and again until it has passed (400 / 6000 crossings per protocol); \
           deep inputs: footer segments and authentic payloads nested 200 .. 1 000 000 levels deep, parsed on a 2 MiB-stack thread of a helper process that announces each case - if the helper dies, the announced case is the violation. \
           The whole run happens after application callbacks (validators, Serialize impls) have panicked in this process, on a worker thread and on the main one. \
           Oracle: catch_unwind around the entry point; any unwind is a violation keyed by panic location. \
           Non-trivial = the input has the right header and a decodable payload (reaches the slicing code) or is a hex-key string; distinct by input."
      .into(),
    assumptions: vec!["a panic is observed as an unwind (the harness is built with panic=unwind, debug assertions and overflow checks on)".into()],
  }
}
