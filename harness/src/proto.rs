//! Protocol table: uniform access to the 8 protocols x 3 layers of the library's public API.
#![allow(dead_code)]

use rusty_paseto::prelude::*;
use serde::{Deserialize, Serialize};
use serde_json::Value;

// ------------------------------------------------------------------------------------------------

#[derive(Clone, Copy, PartialEq, Eq, Debug, Hash, Serialize, Deserialize, PartialOrd, Ord)]
pub enum Proto {
  V1L,
  V2L,
  V3L,
  V4L,
  V1P,
  V2P,
  V3P,
  V4P,
}

#[derive(Clone, Copy, PartialEq, Eq, Debug, Hash, Serialize, Deserialize, PartialOrd, Ord)]
pub enum Layer {
  Core,
  Generic,
  Prelude,
}
impl Layer {
  pub const ALL: [Layer; 3] = [Layer::Core, Layer::Generic, Layer::Prelude];
  pub fn label(self) -> &'static str {
    match self {
      Layer::Core => "core",
      Layer::Generic => "generic",
      Layer::Prelude => "prelude",
    }
  }
}

impl Proto {
  pub const ALL: [Proto; 8] = [Proto::V1L, Proto::V2L, Proto::V3L, Proto::V4L, Proto::V1P, Proto::V2P, Proto::V3P, Proto::V4P];
  pub const LOCAL: [Proto; 4] = [Proto::V1L, Proto::V2L, Proto::V3L, Proto::V4L];
  pub const PUBLIC: [Proto; 4] = [Proto::V1P, Proto::V2P, Proto::V3P, Proto::V4P];
  pub const WITH_ASSERTION: [Proto; 4] = [Proto::V3L, Proto::V4L, Proto::V3P, Proto::V4P];

  pub fn label(self) -> &'static str {
    match self {
      Proto::V1L => "v1.local",
      Proto::V2L => "v2.local",
      Proto::V3L => "v3.local",
      Proto::V4L => "v4.local",
      Proto::V1P => "v1.public",
      Proto::V2P => "v2.public",
      Proto::V3P => "v3.public",
      Proto::V4P => "v4.public",
    }
  }
  pub fn header(self) -> &'static str {
    match self {
      Proto::V1L => "v1.local.",
      Proto::V2L => "v2.local.",
      Proto::V3L => "v3.local.",
      Proto::V4L => "v4.local.",
      Proto::V1P => "v1.public.",
      Proto::V2P => "v2.public.",
      Proto::V3P => "v3.public.",
      Proto::V4P => "v4.public.",
    }
  }
  pub fn is_local(self) -> bool {
    matches!(self, Proto::V1L | Proto::V2L | Proto::V3L | Proto::V4L)
  }
  pub fn has_assertion(self) -> bool {
    matches!(self, Proto::V3L | Proto::V4L | Proto::V3P | Proto::V4P)
  }
  pub fn version(self) -> u8 {
    match self {
      Proto::V1L | Proto::V1P => 1,
      Proto::V2L | Proto::V2P => 2,
      Proto::V3L | Proto::V3P => 3,
      Proto::V4L | Proto::V4P => 4,
    }
  }
  /// bytes of the decoded payload in front of the ciphertext (local) – the wire nonce
  pub fn nonce_len(self) -> usize {
    match self {
      Proto::V2L => 24,
      p if p.is_local() => 32,
      _ => 0,
    }
  }
  /// bytes of the decoded payload behind the ciphertext / message: tag (local) or signature (public)
  pub fn trailer_len(self) -> usize {
    match self {
      Proto::V1L | Proto::V3L => 48,
      Proto::V2L => 16,
      Proto::V4L => 32,
      Proto::V1P => 256,
      Proto::V2P | Proto::V4P => 64,
      Proto::V3P => 96,
    }
  }
  pub fn fixed_len(self) -> usize {
    self.nonce_len() + self.trailer_len()
  }
  /// relative cost of one build+parse (used to scale case counts)
  pub fn cost(self) -> u32 {
    match self {
      Proto::V3P => 40,
      Proto::V1P => 8,
      Proto::V2P | Proto::V4P => 2,
      _ => 1,
    }
  }
}

// ------------------------------------------------------------------------------------------------
// errors

#[derive(Clone, Copy, PartialEq, Eq, Debug, Hash)]
pub enum ErrClass {
  /// token could not be split / header / footer comparison / base64
  Format,
  /// authentication, signature, key or cipher failure
  Auth,
  /// raised while handling (unauthenticated or authenticated) plaintext: UTF-8, JSON
  Plaintext,
  /// a claim check or validator failed (parsers) / claim construction failed (builders)
  Claim,
  /// DuplicateTopLevelPayloadClaim
  Duplicate,
  /// anything else, including harness-side key construction failures
  Other,
}

#[derive(Clone, Debug)]
pub struct LibErr {
  pub class: ErrClass,
  /// variant name, e.g. "Cipher", "FooterInvalid", "Claim:Missing"
  pub variant: String,
  /// payload strings of a claim error variant (key, values)
  pub args: Vec<String>,
  pub text: String,
}

impl LibErr {
  pub fn other(text: impl Into<String>) -> LibErr {
    LibErr { class: ErrClass::Other, variant: "Harness".into(), args: vec![], text: text.into() }
  }
  pub fn before_plaintext(&self) -> bool {
    matches!(self.class, ErrClass::Format | ErrClass::Auth)
  }
}

pub fn paseto_err(e: &PasetoError) -> LibErr {
  use ErrClass::*;
  let (class, variant) = match e {
    PasetoError::PasetoCipherError(_) => (Auth, "PasetoCipherError"),
    PasetoError::Cryption => (Auth, "Cryption"),
    PasetoError::InvalidKey => (Auth, "InvalidKey"),
    PasetoError::Signature => (Auth, "Signature"),
    PasetoError::KeyRejected { .. } => (Auth, "KeyRejected"),
    PasetoError::Cipher { .. } => (Auth, "Cipher"),
    PasetoError::RsaCipher { .. } => (Auth, "RsaCipher"),
    PasetoError::ECSDAError { .. } => (Auth, "ECSDAError"),
    PasetoError::InvalidLength { .. } => (Auth, "InvalidLength"),
    PasetoError::InvalidSignature => (Auth, "InvalidSignature"),
    PasetoError::TryFromSlice { .. } => (Auth, "TryFromSlice"),
    PasetoError::IncorrectSize => (Format, "IncorrectSize"),
    PasetoError::WrongHeader => (Format, "WrongHeader"),
    PasetoError::FooterInvalid => (Format, "FooterInvalid"),
    PasetoError::PayloadBase64Decode { .. } => (Format, "PayloadBase64Decode"),
    PasetoError::Utf8Error { .. } => (Plaintext, "Utf8Error"),
    PasetoError::ChaChaCipherError => (Auth, "ChaChaCipherError"),
    PasetoError::Infallibale { .. } => (Other, "Infallibale"),
    PasetoError::FromUtf8Error { .. } => (Plaintext, "FromUtf8Error"),
    #[allow(unreachable_patterns)]
    _ => (Other, "UnknownPasetoError"),
  };
  LibErr { class, variant: variant.to_string(), args: vec![], text: format!("{e:?}") }
}

pub fn claim_err(e: &PasetoClaimError) -> LibErr {
  let (variant, args): (&str, Vec<String>) = match e {
    PasetoClaimError::Expired => ("Expired", vec![]),
    PasetoClaimError::UseBeforeAvailable(a) => ("UseBeforeAvailable", vec![a.clone()]),
    PasetoClaimError::RFC3339Date(a) => ("RFC3339Date", vec![a.clone()]),
    PasetoClaimError::Missing(a) => ("Missing", vec![a.clone()]),
    PasetoClaimError::Unexpected(a) => ("Unexpected", vec![a.clone()]),
    PasetoClaimError::CustomValidation(a) => ("CustomValidation", vec![a.clone()]),
    PasetoClaimError::Invalid(a, b, c) => ("Invalid", vec![a.clone(), b.clone(), c.clone()]),
    PasetoClaimError::Reserved(a) => ("Reserved", vec![a.clone()]),
    PasetoClaimError::DuplicateTopLevelPayloadClaim(a) => ("DuplicateTopLevelPayloadClaim", vec![a.clone()]),
    #[allow(unreachable_patterns)]
    _ => ("UnknownClaimError", vec![]),
  };
  LibErr { class: ErrClass::Claim, variant: format!("Claim:{variant}"), args, text: format!("{e:?}") }
}

pub fn parser_err(e: &GenericParserError) -> LibErr {
  match e {
    GenericParserError::ClaimError { source } => claim_err(source),
    GenericParserError::CipherError { source } => paseto_err(source),
    GenericParserError::PayloadJsonError { .. } => LibErr { class: ErrClass::Plaintext, variant: "PayloadJsonError".into(), args: vec![], text: format!("{e:?}") },
    #[allow(unreachable_patterns)]
    _ => LibErr { class: ErrClass::Other, variant: "UnknownParserError".into(), args: vec![], text: format!("{e:?}") },
  }
}

pub fn builder_err(e: &GenericBuilderError) -> LibErr {
  match e {
    GenericBuilderError::ClaimError { source } => claim_err(source),
    GenericBuilderError::CipherError { source } => paseto_err(source),
    GenericBuilderError::DuplicateTopLevelPayloadClaim(k) => {
      LibErr { class: ErrClass::Duplicate, variant: "DuplicateTopLevelPayloadClaim".into(), args: vec![k.clone()], text: format!("{e:?}") }
    }
    GenericBuilderError::BadEmailAddress(a) => LibErr { class: ErrClass::Other, variant: "BadEmailAddress".into(), args: vec![a.clone()], text: format!("{e:?}") },
    GenericBuilderError::PayloadJsonError { .. } => LibErr { class: ErrClass::Plaintext, variant: "PayloadJsonError".into(), args: vec![], text: format!("{e:?}") },
    #[allow(unreachable_patterns)]
    _ => LibErr { class: ErrClass::Other, variant: "UnknownBuilderError".into(), args: vec![], text: format!("{e:?}") },
  }
}

// ------------------------------------------------------------------------------------------------
// key material

/// Owned key bytes in the shapes the library's key types borrow from.
pub struct KeyMaterial {
  pub proto: Proto,
  sym: Option<Key<32>>,
  ed_sk: Option<Key<64>>,
  ed_pk: Option<Key<32>>,
  p_sk: Option<Key<48>>,
  p_pk: Option<Key<49>>,
  rsa_sk: Option<Vec<u8>>,
  rsa_pk: Option<Vec<u8>>,
}

fn arr<const N: usize>(b: &[u8]) -> Option<[u8; N]> {
  <[u8; N]>::try_from(b).ok()
}

impl KeyMaterial {
  /// `secret`: what the build side needs (None for parse-only material); `public`: what the parse side needs.
  /// local: both are the same 32 bytes. Ed25519: 64 (seed || public) / 32. P-384: 48 / 49 (compressed).
  /// RSA: PKCS#8 DER / PKCS#1 RSAPublicKey DER.
  pub fn new(proto: Proto, secret: Option<&[u8]>, public: &[u8]) -> Result<KeyMaterial, LibErr> {
    let mut km = KeyMaterial { proto, sym: None, ed_sk: None, ed_pk: None, p_sk: None, p_pk: None, rsa_sk: None, rsa_pk: None };
    let bad = |what: &str| LibErr::other(format!("{}: key material of the wrong length for {}", what, proto.label()));
    match proto {
      p if p.is_local() => {
        // all public ways of making a Key<32> from bytes are used in turn
        let a = arr::<32>(public).ok_or_else(|| bad("symmetric"))?;
        km.sym = Some(match a[31] % 4 {
          // (every other time through a clone whose original is dropped - and with it zeroised - first)
          0 if a[30] % 2 == 1 => {
            let original = Key::<32>::from(a);
            let copy = original.clone();
            drop(original);
            copy
          }
          0 => Key::<32>::from(a),
          1 => Key::<32>::from(&a),
          2 => Key::<32>::from(&a[..]),
          _ => Key::<32>::try_from(hex::encode(a).as_str()).map_err(|e| LibErr::other(format!("hex key rejected: {e:?}")))?,
        });
      }
      Proto::V2P | Proto::V4P => {
        if let Some(s) = secret {
          km.ed_sk = Some(Key::<64>::from(arr::<64>(s).ok_or_else(|| bad("ed25519 secret"))?));
        }
        km.ed_pk = Some(Key::<32>::from(arr::<32>(public).ok_or_else(|| bad("ed25519 public"))?));
      }
      Proto::V3P => {
        if let Some(s) = secret {
          km.p_sk = Some(Key::<48>::from(arr::<48>(s).ok_or_else(|| bad("p384 secret"))?));
        }
        km.p_pk = Some(Key::<49>::from(arr::<49>(public).ok_or_else(|| bad("p384 public"))?));
      }
      _ => {
        km.rsa_sk = secret.map(|s| s.to_vec());
        km.rsa_pk = Some(public.to_vec());
      }
    }
    Ok(km)
  }

  /// Overwrites the parse-side key bytes IN PLACE (same object, same addresses), as a caller rotating a key
  /// held in a struct field would. Returns false when `public` has the wrong length for the protocol.
  pub fn replace_public_in_place(&mut self, public: &[u8]) -> bool {
    match self.proto {
      p if p.is_local() => match arr::<32>(public) {
        Some(a) => {
          self.sym = Some(Key::<32>::from(a));
          true
        }
        None => false,
      },
      Proto::V2P | Proto::V4P => match (arr::<32>(public), self.ed_pk.as_mut()) {
        (Some(a), Some(slot)) => {
          *slot = Key::<32>::from(a);
          true
        }
        _ => false,
      },
      Proto::V3P => match (arr::<49>(public), self.p_pk.as_mut()) {
        (Some(a), Some(slot)) => {
          *slot = Key::<49>::from(a);
          true
        }
        _ => false,
      },
      _ => match self.rsa_pk.as_mut() {
        Some(v) if v.len() == public.len() => {
          v.copy_from_slice(public);
          true
        }
        _ => false,
      },
    }
  }

  /// symmetric key parsed from a hexadecimal string by the library's own `Key::<32>::try_from(&str)`
  pub fn local_from_hex(proto: Proto, hex_key: &str) -> Result<KeyMaterial, LibErr> {
    let k = Key::<32>::try_from(hex_key).map_err(|e| LibErr::other(format!("hex key rejected: {e:?}")))?;
    Ok(KeyMaterial { proto, sym: Some(k), ed_sk: None, ed_pk: None, p_sk: None, p_pk: None, rsa_sk: None, rsa_pk: None })
  }

  /// Parse-side key built by `Key::<32>::from(&[u8])` from material of ANY length (the library panics on a wrong
  /// length at the pinned commit; a panic is reported as Err). Local protocols: the symmetric key; v2/v4 public: the public key.
  pub fn from_slice_any_length(proto: Proto, material: &[u8]) -> Result<KeyMaterial, LibErr> {
    let k = crate::engine::catch(|| Key::<32>::from(material)).map_err(|(loc, msg)| LibErr::other(format!("Key::from(&[u8]) panicked at {loc}: {msg}")))?;
    let mut km = KeyMaterial { proto, sym: None, ed_sk: None, ed_pk: None, p_sk: None, p_pk: None, rsa_sk: None, rsa_pk: None };
    match proto {
      p if p.is_local() => km.sym = Some(k),
      Proto::V2P | Proto::V4P => km.ed_pk = Some(k),
      _ => return Err(LibErr::other("not a 32-byte key protocol")),
    }
    Ok(km)
  }

  pub fn local(proto: Proto, key: &[u8; 32]) -> KeyMaterial {
    KeyMaterial::new(proto, Some(key), key).expect("32 bytes")
  }

  /// The library's typed keys. Fails only where the library's own key constructor fails (v3 public prefix).
  pub fn lib(&self) -> Result<LibKeys<'_>, LibErr> {
    Ok(match self.proto {
      Proto::V1L => LibKeys::V1L(PasetoSymmetricKey::<V1, Local>::from(self.sym.clone().unwrap())),
      Proto::V2L => LibKeys::V2L(PasetoSymmetricKey::<V2, Local>::from(self.sym.clone().unwrap())),
      Proto::V3L => LibKeys::V3L(PasetoSymmetricKey::<V3, Local>::from(self.sym.clone().unwrap())),
      Proto::V4L => LibKeys::V4L(PasetoSymmetricKey::<V4, Local>::from(self.sym.clone().unwrap())),
      Proto::V1P => LibKeys::V1P(
        self.rsa_sk.as_ref().map(|s| PasetoAsymmetricPrivateKey::<V1, Public>::from(s.as_slice())),
        PasetoAsymmetricPublicKey::<V1, Public>::from(self.rsa_pk.as_ref().unwrap().as_slice()),
      ),
      Proto::V2P => LibKeys::V2P(
        self.ed_sk.as_ref().map(PasetoAsymmetricPrivateKey::<V2, Public>::from),
        PasetoAsymmetricPublicKey::<V2, Public>::from(self.ed_pk.as_ref().unwrap()),
      ),
      Proto::V4P => LibKeys::V4P(
        self.ed_sk.as_ref().map(PasetoAsymmetricPrivateKey::<V4, Public>::from),
        PasetoAsymmetricPublicKey::<V4, Public>::from(self.ed_pk.as_ref().unwrap()),
      ),
      Proto::V3P => LibKeys::V3P(
        self.p_sk.as_ref().map(PasetoAsymmetricPrivateKey::<V3, Public>::from),
        PasetoAsymmetricPublicKey::<V3, Public>::try_from(self.p_pk.as_ref().unwrap()).map_err(|e| paseto_err(&e))?,
      ),
    })
  }
}

pub enum LibKeys<'k> {
  V1L(PasetoSymmetricKey<V1, Local>),
  V2L(PasetoSymmetricKey<V2, Local>),
  V3L(PasetoSymmetricKey<V3, Local>),
  V4L(PasetoSymmetricKey<V4, Local>),
  V1P(Option<PasetoAsymmetricPrivateKey<'k, V1, Public>>, PasetoAsymmetricPublicKey<'k, V1, Public>),
  V2P(Option<PasetoAsymmetricPrivateKey<'k, V2, Public>>, PasetoAsymmetricPublicKey<'k, V2, Public>),
  V3P(Option<PasetoAsymmetricPrivateKey<'k, V3, Public>>, PasetoAsymmetricPublicKey<'k, V3, Public>),
  V4P(Option<PasetoAsymmetricPrivateKey<'k, V4, Public>>, PasetoAsymmetricPublicKey<'k, V4, Public>),
}

impl<'k> LibKeys<'k> {
  pub fn proto(&self) -> Proto {
    match self {
      LibKeys::V1L(_) => Proto::V1L,
      LibKeys::V2L(_) => Proto::V2L,
      LibKeys::V3L(_) => Proto::V3L,
      LibKeys::V4L(_) => Proto::V4L,
      LibKeys::V1P(..) => Proto::V1P,
      LibKeys::V2P(..) => Proto::V2P,
      LibKeys::V3P(..) => Proto::V3P,
      LibKeys::V4P(..) => Proto::V4P,
    }
  }
}

fn no_secret() -> LibErr {
  LibErr::other("no secret key in this key material")
}
fn wrong_keys(p: Proto) -> LibErr {
  LibErr::other(format!("harness: key material is not for {}", p.label()))
}

// ------------------------------------------------------------------------------------------------
// core layer

fn nonce24(n: &[u8]) -> Option<Key<24>> {
  arr::<24>(n).map(Key::<24>::from)
}
fn nonce32(n: &[u8]) -> Option<Key<32>> {
  arr::<32>(n).map(Key::<32>::from)
}

/// `Paseto::<V,P>::builder()...try_encrypt/try_sign`. `nonce` is ignored for public protocols; for v2.local
/// it may be 24 or 32 bytes (both accepted by the API), 32 bytes otherwise.
pub fn core_build(keys: &LibKeys, nonce: &[u8], msg: &str, footer: Option<&str>, assertion: Option<&str>) -> Result<String, LibErr> {
  macro_rules! setup {
    ($V:ident, $P:ident, assertion) => {{
      // both public ways of obtaining the core builder are exercised
      let mut b = if msg.len() % 2 == 0 { Paseto::<$V, $P>::builder() } else { Paseto::<$V, $P>::default() };
      if msg.len() % 5 == 1 {
        // a re-used builder: earlier values are replaced by the ones set last
        b.set_payload(Payload::from("{\"decoy\":true}"));
        if footer.is_some() {
          b.set_footer(Footer::from("decoy-footer"));
        }
        if assertion.is_some() {
          b.set_implicit_assertion(ImplicitAssertion::from("decoy-assertion"));
        }
      }
      // the three setters in each of three orders (no setter may undo what another one set)
      match msg.len() % 3 {
        0 => {
          b.set_payload(Payload::from(msg));
          if let Some(f) = footer {
            b.set_footer(Footer::from(f));
          }
          if let Some(a) = assertion {
            b.set_implicit_assertion(ImplicitAssertion::from(a));
          }
        }
        1 => {
          if let Some(a) = assertion {
            b.set_implicit_assertion(ImplicitAssertion::from(a));
          }
          if let Some(f) = footer {
            b.set_footer(Footer::from(f));
          }
          b.set_payload(Payload::from(msg));
        }
        _ => {
          if let Some(f) = footer {
            b.set_footer(Footer::from(f));
          }
          b.set_payload(Payload::from(msg));
          if let Some(a) = assertion {
            b.set_implicit_assertion(ImplicitAssertion::from(a));
          }
        }
      }
      // the core builder is `Copy`: a copy taken now stays what it is whatever the original is given afterwards
      if msg.len() % 7 == 3 {
        let copy = b;
        b.set_payload(Payload::from("{\"decoy\":2}"));
        b.set_footer(Footer::from("decoy-footer-on-the-original"));
        copy
      } else {
        b
      }
    }};
    ($V:ident, $P:ident, plain) => {{
      if assertion.is_some() {
        return Err(LibErr::other("harness: v1/v2 take no implicit assertion"));
      }
      let mut b = if msg.len() % 2 == 0 { Paseto::<$V, $P>::builder() } else { Paseto::<$V, $P>::default() };
      if msg.len() % 5 == 1 {
        b.set_payload(Payload::from("{\"decoy\":true}"));
        if footer.is_some() {
          b.set_footer(Footer::from("decoy-footer"));
        }
      }
      b.set_payload(Payload::from(msg));
      if let Some(f) = footer {
        b.set_footer(Footer::from(f));
      }
      // the core builder is `Copy`: a copy taken now stays what it is whatever the original is given afterwards
      if msg.len() % 7 == 3 {
        let copy = b;
        b.set_payload(Payload::from("{\"decoy\":2}"));
        b.set_footer(Footer::from("decoy-footer-on-the-original"));
        copy
      } else {
        b
      }
    }};
  }
  let bad_nonce = || LibErr::other("harness: nonce of the wrong length");
  // the builder object is used twice and the SECOND token is the one handed on: it must be the same token again
  let twice = msg.len() % 4 == 2;
  match keys {
    LibKeys::V1L(k) => {
      let n = nonce32(nonce).ok_or_else(bad_nonce)?;
      let mut b = setup!(V1, Local, plain);
      let mut b = if msg.len() % 3 == 0 { b.clone() } else { b };
      {
        if twice {
          let _ = b.try_encrypt(k, &PasetoNonce::<V1, Local>::from(&n));
        }
        b.try_encrypt(k, &PasetoNonce::<V1, Local>::from(&n)).map_err(|e| paseto_err(&e))
      }
    }
    LibKeys::V2L(k) => {
      let mut b = setup!(V2, Local, plain);
      let mut b = if msg.len() % 3 == 0 { b.clone() } else { b };
      if nonce.len() == 24 {
        let n = nonce24(nonce).unwrap();
        {
        if twice {
          let _ = b.try_encrypt(k, &PasetoNonce::<V2, Local>::from(&n));
        }
        b.try_encrypt(k, &PasetoNonce::<V2, Local>::from(&n)).map_err(|e| paseto_err(&e))
      }
      } else {
        let n = nonce32(nonce).ok_or_else(bad_nonce)?;
        {
        if twice {
          let _ = b.try_encrypt(k, &PasetoNonce::<V2, Local>::from(&n));
        }
        b.try_encrypt(k, &PasetoNonce::<V2, Local>::from(&n)).map_err(|e| paseto_err(&e))
      }
      }
    }
    LibKeys::V3L(k) => {
      let n = nonce32(nonce).ok_or_else(bad_nonce)?;
      let mut b = setup!(V3, Local, assertion);
      let mut b = if msg.len() % 3 == 0 { b.clone() } else { b };
      {
        if twice {
          let _ = b.try_encrypt(k, &PasetoNonce::<V3, Local>::from(&n));
        }
        b.try_encrypt(k, &PasetoNonce::<V3, Local>::from(&n)).map_err(|e| paseto_err(&e))
      }
    }
    LibKeys::V4L(k) => {
      let n = nonce32(nonce).ok_or_else(bad_nonce)?;
      let mut b = setup!(V4, Local, assertion);
      let mut b = if msg.len() % 3 == 0 { b.clone() } else { b };
      {
        if twice {
          let _ = b.try_encrypt(k, &PasetoNonce::<V4, Local>::from(&n));
        }
        b.try_encrypt(k, &PasetoNonce::<V4, Local>::from(&n)).map_err(|e| paseto_err(&e))
      }
    }
    LibKeys::V1P(sk, _) => {
      let mut b = setup!(V1, Public, plain);
      let mut b = if msg.len() % 3 == 0 { b.clone() } else { b };
      {
        if twice {
          let _ = b.try_sign(sk.as_ref().ok_or_else(no_secret)?);
        }
        b.try_sign(sk.as_ref().ok_or_else(no_secret)?).map_err(|e| paseto_err(&e))
      }
    }
    LibKeys::V2P(sk, _) => {
      let mut b = setup!(V2, Public, plain);
      let mut b = if msg.len() % 3 == 0 { b.clone() } else { b };
      {
        if twice {
          let _ = b.try_sign(sk.as_ref().ok_or_else(no_secret)?);
        }
        b.try_sign(sk.as_ref().ok_or_else(no_secret)?).map_err(|e| paseto_err(&e))
      }
    }
    LibKeys::V3P(sk, _) => {
      let mut b = setup!(V3, Public, assertion);
      let mut b = if msg.len() % 3 == 0 { b.clone() } else { b };
      {
        if twice {
          let _ = b.try_sign(sk.as_ref().ok_or_else(no_secret)?);
        }
        b.try_sign(sk.as_ref().ok_or_else(no_secret)?).map_err(|e| paseto_err(&e))
      }
    }
    LibKeys::V4P(sk, _) => {
      let mut b = setup!(V4, Public, assertion);
      let mut b = if msg.len() % 3 == 0 { b.clone() } else { b };
      {
        if twice {
          let _ = b.try_sign(sk.as_ref().ok_or_else(no_secret)?);
        }
        b.try_sign(sk.as_ref().ok_or_else(no_secret)?).map_err(|e| paseto_err(&e))
      }
    }
  }
}

/// `Paseto::<V,P>::try_decrypt / try_verify`. `footer: None` and `Some("")` are passed on as such.
pub fn core_parse(keys: &LibKeys, token: &str, footer: Option<&str>, assertion: Option<&str>) -> Result<String, LibErr> {
  let f: Option<Footer> = footer.map(Footer::from);
  let a: Option<ImplicitAssertion> = assertion.map(ImplicitAssertion::from);
  let r = match keys {
    LibKeys::V1L(k) => Paseto::<V1, Local>::try_decrypt(token, k, f),
    LibKeys::V2L(k) => Paseto::<V2, Local>::try_decrypt(token, k, f),
    LibKeys::V3L(k) => Paseto::<V3, Local>::try_decrypt(token, k, f, a),
    LibKeys::V4L(k) => Paseto::<V4, Local>::try_decrypt(token, k, f, a),
    LibKeys::V1P(_, pk) => Paseto::<V1, Public>::try_verify(token, pk, f),
    LibKeys::V2P(_, pk) => Paseto::<V2, Public>::try_verify(token, pk, f),
    LibKeys::V3P(_, pk) => Paseto::<V3, Public>::try_verify(token, pk, f, a),
    LibKeys::V4P(_, pk) => Paseto::<V4, Public>::try_verify(token, pk, f, a),
  };
  if !keys.proto().has_assertion() && assertion.is_some() {
    return Err(LibErr::other("harness: v1/v2 take no implicit assertion"));
  }
  r.map_err(|e| paseto_err(&e))
}

// ------------------------------------------------------------------------------------------------
// claims

/// A claim as data. `set`/`check` turn it into the library's claim types.
#[derive(Clone, Debug, Serialize, Deserialize, PartialEq)]
pub enum ClaimSpec {
  Iss(String),
  Sub(String),
  Aud(String),
  Jti(String),
  /// `ExpirationClaim::try_from(&str)` etc. – may fail at construction
  Exp(String),
  Nbf(String),
  Iat(String),
  /// `ExpirationClaim::try_from(String)` etc.
  ExpOwned(String),
  NbfOwned(String),
  IatOwned(String),
  /// `CustomClaim::try_from((&str, Value))`
  Custom(String, Value),
  /// `CustomClaim::try_from((String, Value))`
  CustomOwned(String, Value),
  /// `CustomClaim::try_from(&str)` (value is "")
  CustomKeyOnly(String),
  /// `CustomClaim::try_from((&str, native Rust value))`
  Native(String, NativeVal),
  /// harness-defined `PasetoClaim` implementation: any key (also reserved ones), any JSON value
  Any(String, Value),
  /// `IssuerClaim::default()` ... `IssuedAtClaim::default()` (0 iss, 1 sub, 2 aud, 3 jti, 4 exp, 5 nbf, 6 iat): the form the
  /// crate's documentation uses to register a validator for a registered claim
  DefaultOf(u8),
  /// `CustomClaim::try_from((&str, &AtomicU64))`: the claim value is a REFERENCE to a counter holding n when the claim is
  /// set; the harness changes the counter right afterwards (set_claim takes a snapshot - what is set is what is built)
  SharedCounter(String, u64),
  /// a caller-defined claim type registered under `key` whose `Serialize` writes the given JSON value VERBATIM: an object
  /// with several members (one of them perhaps named like the key), a member under another name, no member at all, a scalar
  Shaped(String, Value),
  /// a caller-defined claim registered under `key` whose `Serialize` panics part-way (an application bug): the call that is
  /// given it unwinds; the caller catches that and goes on using the object
  Panicking(String),
}

pub const DEFAULT_KEYS: [&str; 7] = ["iss", "sub", "aud", "jti", "exp", "nbf", "iat"];

/// Native Rust values with their expected JSON (computed without serde's Serialize impls for them).
#[derive(Clone, Debug, Serialize, Deserialize, PartialEq)]
pub enum NativeVal {
  I8(i8),
  I16(i16),
  I32(i32),
  I64(i64),
  U8(u8),
  U16(u16),
  U32(u32),
  U64(u64),
  Bool(bool),
  Str(String),
  Char(char),
  Unit,
  OptSome(i64),
  OptNone,
  VecI(Vec<i32>),
  VecS(Vec<String>),
  Tuple(i32, String, bool),
  Map(std::collections::BTreeMap<String, i64>),
  Struct { id: u32, name: String, flags: Vec<bool>, nested: Option<Box<NativeVal>> },
  UnitEnum(u8),
  NewtypeEnum(String),
  StructEnum { x: i16, y: i16 },
  /// f32 / f64 given as a decimal text of at most 6 / 15 significant digits (so that the shortest decimal that
  /// identifies the float is that text, as a number)
  F32(String),
  F64(String),
  VecF32(Vec<String>),
  /// struct with f32 / f64 fields
  Measure { ratio: String, weights: Vec<String>, scale: String },
  /// i128 / u128 holding a value that fits 64 bits
  I128(i64),
  U128(u64),
  /// values serde_json can write as text but cannot hold in a `Value`: 0 u128::MAX, 1 i128::MIN; 2 a map keyed by tuples
  /// (cannot be written at all). As claim VALUES on the parser side they are only carriers for a validator.
  Unholdable(u8),
}

#[derive(Serialize)]
struct NativeMeasure {
  ratio: f32,
  weights: Vec<f32>,
  scale: f64,
}

fn f32_of(s: &str) -> f32 {
  s.parse::<f32>().unwrap_or(0.0)
}
fn f64_of(s: &str) -> f64 {
  s.parse::<f64>().unwrap_or(0.0)
}
/// JSON number for a float given as decimal text (always a float number, as serde_json writes `2.0` for 2f32)
fn float_json(s: &str) -> Value {
  serde_json::Number::from_f64(f64_of(s)).map(Value::Number).unwrap_or(Value::Null)
}

#[derive(Serialize)]
struct NativeStruct<'a> {
  id: u32,
  name: &'a str,
  flags: &'a [bool],
  nested: Option<Box<NativeSer<'a>>>,
}
#[derive(Serialize)]
enum Colour {
  Red,
  Green,
  Blue,
}
#[derive(Serialize)]
enum Shape<'a> {
  Label(&'a str),
  Point { x: i16, y: i16 },
}
/// Serialisable view of a NativeVal that goes through serde's derive/impls for the *native* type.
pub struct NativeSer<'a>(pub &'a NativeVal);
impl<'a> Serialize for NativeSer<'a> {
  fn serialize<S: serde::Serializer>(&self, s: S) -> Result<S::Ok, S::Error> {
    match self.0 {
      NativeVal::I8(v) => v.serialize(s),
      NativeVal::I16(v) => v.serialize(s),
      NativeVal::I32(v) => v.serialize(s),
      NativeVal::I64(v) => v.serialize(s),
      NativeVal::U8(v) => v.serialize(s),
      NativeVal::U16(v) => v.serialize(s),
      NativeVal::U32(v) => v.serialize(s),
      NativeVal::U64(v) => v.serialize(s),
      NativeVal::Bool(v) => v.serialize(s),
      NativeVal::Str(v) => v.serialize(s),
      NativeVal::Char(v) => v.serialize(s),
      NativeVal::Unit => ().serialize(s),
      NativeVal::OptSome(v) => Some(*v).serialize(s),
      NativeVal::OptNone => None::<i64>.serialize(s),
      NativeVal::VecI(v) => v.serialize(s),
      NativeVal::VecS(v) => v.serialize(s),
      NativeVal::Tuple(a, b, c) => (*a, b.as_str(), *c).serialize(s),
      NativeVal::Map(m) => m.serialize(s),
      NativeVal::Struct { id, name, flags, nested } => {
        NativeStruct { id: *id, name, flags, nested: nested.as_ref().map(|n| Box::new(NativeSer(n))) }.serialize(s)
      }
      NativeVal::UnitEnum(i) => match i % 3 {
        0 => Colour::Red,
        1 => Colour::Green,
        _ => Colour::Blue,
      }
      .serialize(s),
      NativeVal::NewtypeEnum(l) => Shape::Label(l).serialize(s),
      NativeVal::StructEnum { x, y } => Shape::Point { x: *x, y: *y }.serialize(s),
      NativeVal::F32(t) => f32_of(t).serialize(s),
      NativeVal::F64(t) => f64_of(t).serialize(s),
      NativeVal::VecF32(v) => v.iter().map(|t| f32_of(t)).collect::<Vec<f32>>().serialize(s),
      NativeVal::Measure { ratio, weights, scale } => NativeMeasure { ratio: f32_of(ratio), weights: weights.iter().map(|t| f32_of(t)).collect(), scale: f64_of(scale) }.serialize(s),
      NativeVal::I128(v) => (*v as i128).serialize(s),
      NativeVal::U128(v) => (*v as u128).serialize(s),
      NativeVal::Unholdable(k) => match k % 3 {
        0 => u128::MAX.serialize(s),
        1 => i128::MIN.serialize(s),
        _ => {
          let mut m = std::collections::BTreeMap::new();
          m.insert((1u8, 2u8), 3u8);
          m.serialize(s)
        }
      },
    }
  }
}

impl NativeVal {
  /// the JSON the value must appear as (serde's documented JSON data model mapping, written out by hand)
  pub fn expected(&self) -> Value {
    use serde_json::json;
    match self {
      NativeVal::I8(v) => json!(*v as i64),
      NativeVal::I16(v) => json!(*v as i64),
      NativeVal::I32(v) => json!(*v as i64),
      NativeVal::I64(v) => json!(*v),
      NativeVal::U8(v) => json!(*v as u64),
      NativeVal::U16(v) => json!(*v as u64),
      NativeVal::U32(v) => json!(*v as u64),
      NativeVal::U64(v) => json!(*v),
      NativeVal::Bool(v) => Value::Bool(*v),
      NativeVal::Str(v) => Value::String(v.clone()),
      NativeVal::Char(c) => Value::String(c.to_string()),
      NativeVal::Unit => Value::Null,
      NativeVal::OptSome(v) => json!(*v),
      NativeVal::OptNone => Value::Null,
      NativeVal::VecI(v) => Value::Array(v.iter().map(|x| json!(*x as i64)).collect()),
      NativeVal::VecS(v) => Value::Array(v.iter().map(|x| Value::String(x.clone())).collect()),
      NativeVal::Tuple(a, b, c) => Value::Array(vec![json!(*a as i64), Value::String(b.clone()), Value::Bool(*c)]),
      NativeVal::Map(m) => Value::Object(m.iter().map(|(k, v)| (k.clone(), json!(*v))).collect()),
      NativeVal::Struct { id, name, flags, nested } => {
        let mut o = serde_json::Map::new();
        o.insert("id".into(), json!(*id as u64));
        o.insert("name".into(), Value::String(name.clone()));
        o.insert("flags".into(), Value::Array(flags.iter().map(|b| Value::Bool(*b)).collect()));
        o.insert("nested".into(), nested.as_ref().map(|n| n.expected()).unwrap_or(Value::Null));
        Value::Object(o)
      }
      NativeVal::UnitEnum(i) => Value::String(["Red", "Green", "Blue"][(*i % 3) as usize].to_string()),
      NativeVal::NewtypeEnum(l) => json!({ "Label": l }),
      NativeVal::StructEnum { x, y } => json!({"Point": {"x": *x as i64, "y": *y as i64}}),
      NativeVal::F32(t) | NativeVal::F64(t) => float_json(t),
      NativeVal::VecF32(v) => Value::Array(v.iter().map(|t| float_json(t)).collect()),
      NativeVal::Measure { ratio, weights, scale } => json!({"ratio": float_json(ratio), "weights": weights.iter().map(|t| float_json(t)).collect::<Vec<_>>(), "scale": float_json(scale)}),
      NativeVal::I128(v) => json!(*v),
      NativeVal::U128(v) => json!(*v),
      NativeVal::Unholdable(_) => Value::Null,
    }
  }
}

impl ClaimSpec {
  pub fn key(&self) -> &str {
    match self {
      ClaimSpec::Iss(_) => "iss",
      ClaimSpec::Sub(_) => "sub",
      ClaimSpec::Aud(_) => "aud",
      ClaimSpec::Jti(_) => "jti",
      ClaimSpec::Exp(_) | ClaimSpec::ExpOwned(_) => "exp",
      ClaimSpec::Nbf(_) | ClaimSpec::NbfOwned(_) => "nbf",
      ClaimSpec::Iat(_) | ClaimSpec::IatOwned(_) => "iat",
      ClaimSpec::Custom(k, _) | ClaimSpec::CustomOwned(k, _) | ClaimSpec::CustomKeyOnly(k) | ClaimSpec::Native(k, _) | ClaimSpec::Any(k, _) | ClaimSpec::SharedCounter(k, _) | ClaimSpec::Shaped(k, _) => k,
      ClaimSpec::Panicking(k) => k,
      ClaimSpec::DefaultOf(i) => DEFAULT_KEYS[*i as usize % 7],
    }
  }
  /// the JSON value this claim must contribute under `key()`
  /// what a PARSER given this spec as an expected claim demands of payload[key]: the member of the claim's serialised form
  /// that carries the claim's own key (null when there is none - such an expectation cannot be met)
  pub fn demanded(&self) -> Value {
    match self {
      ClaimSpec::Shaped(k, v) => v.get(k.as_str()).cloned().unwrap_or(Value::Null),
      other => other.expected(),
    }
  }
  pub fn expected(&self) -> Value {
    match self {
      ClaimSpec::Iss(s)
      | ClaimSpec::Sub(s)
      | ClaimSpec::Aud(s)
      | ClaimSpec::Jti(s)
      | ClaimSpec::Exp(s)
      | ClaimSpec::Nbf(s)
      | ClaimSpec::Iat(s)
      | ClaimSpec::ExpOwned(s)
      | ClaimSpec::NbfOwned(s)
      | ClaimSpec::IatOwned(s) => Value::String(s.clone()),
      ClaimSpec::Custom(_, v) | ClaimSpec::CustomOwned(_, v) | ClaimSpec::Any(_, v) => v.clone(),
      ClaimSpec::CustomKeyOnly(_) => Value::String(String::new()),
      ClaimSpec::Native(_, n) => n.expected(),
      // the documented defaults: empty text, or the placeholder instant for the time claims
      ClaimSpec::DefaultOf(i) => Value::String(if *i % 7 >= 4 { "2019-01-01T00:00:00+00:00".to_string() } else { String::new() }),
      ClaimSpec::SharedCounter(_, n) => serde_json::json!(*n),
      // what a builder makes of it: a one-member object named like the key is unwrapped, anything else is the value
      ClaimSpec::Panicking(_) => Value::Null,
      ClaimSpec::Shaped(k, v) => match v.as_object() {
        Some(o) if o.len() == 1 && o.contains_key(k) => o[k].clone(),
        _ => v.clone(),
      },
    }
  }
}

/// On the calling thread: hands a claim that cannot be serialised to JSON (a map keyed by tuples) to throwaway builders of
/// both builder layers. The pinned library panics there; whatever it does, builders created afterwards must not notice.
pub fn fail_a_claim_on_throwaway_builders() {
  let _ = crate::engine::catch(|| {
    let mut m = std::collections::HashMap::new();
    m.insert((1u8, 2u8), 3u8);
    let mut b = GenericBuilder::<V4, Local>::default();
    if let Ok(c) = CustomClaim::try_from(("unserialisable", m)) {
      b.set_claim(c);
    }
  });
  let _ = crate::engine::catch(|| {
    let mut m = std::collections::BTreeMap::new();
    m.insert((1u8, 2u8), "x");
    let mut b = PasetoBuilder::<V4, Local>::default();
    if let Ok(c) = CustomClaim::try_from(("unserialisable", m)) {
      b.set_claim(c);
    }
  });
}

// ---------------------------------------------------------------- application callbacks that misbehave

/// payload type of a panic that is not a string
#[derive(Debug)]
pub struct Refusal(pub u16);

fn validator_panics_with_text(_k: &str, _v: &Value) -> Result<(), PasetoClaimError> {
  panic!("harness validator: refusing by panicking (an application bug)")
}
fn validator_panics_with_a_value(_k: &str, _v: &Value) -> Result<(), PasetoClaimError> {
  std::panic::panic_any(Refusal(403))
}
fn validator_rejects(k: &str, _v: &Value) -> Result<(), PasetoClaimError> {
  Err(PasetoClaimError::CustomValidation(k.to_string()))
}
pub const VALIDATOR_PANICS_TEXT: &ValidatorFn = &validator_panics_with_text;
pub const VALIDATOR_PANICS_VALUE: &ValidatorFn = &validator_panics_with_a_value;
pub const VALIDATOR_REJECTS: &ValidatorFn = &validator_rejects;
fn validator_accepts(_k: &str, _v: &Value) -> Result<(), PasetoClaimError> {
  Ok(())
}
pub const VALIDATOR_ACCEPTS: &ValidatorFn = &validator_accepts;

/// a claim value whose `Serialize` impl panics part-way
pub struct PanickingValue;
impl Serialize for PanickingValue {
  fn serialize<S: serde::Serializer>(&self, s: S) -> Result<S::Ok, S::Error> {
    use serde::ser::SerializeMap;
    let mut m = s.serialize_map(Some(2))?;
    m.serialize_entry("first", &1)?;
    panic!("harness claim: Serialize panics part-way (an application bug)")
  }
}
pub struct PanickingKeyed {
  pub key: String,
}
impl PasetoClaim for PanickingKeyed {
  fn get_key(&self) -> &str {
    &self.key
  }
}
impl Serialize for PanickingKeyed {
  fn serialize<S: serde::Serializer>(&self, s: S) -> Result<S::Ok, S::Error> {
    PanickingValue.serialize(s)
  }
}
pub struct PanickingClaim;
impl PasetoClaim for PanickingClaim {
  fn get_key(&self) -> &str {
    "panics"
  }
}
impl Serialize for PanickingClaim {
  fn serialize<S: serde::Serializer>(&self, s: S) -> Result<S::Ok, S::Error> {
    PanickingValue.serialize(s)
  }
}

/// What an application with bugs in its own callbacks does to the library, on the calling thread and - for whatever is
/// process-wide - for everybody: `kind` bit 1 validators that panic (with a message / with a typed value) while an authentic
/// token is parsed, on a worker thread and on this one; bit 2 a claim whose Serialize panics while a token is built
/// (set_claim, extend_claims + build); bit 4 twenty parses in a row that end in a rejecting validator. All of it is contained
/// (catch_unwind / join). Returns a description if one of the parses returned Ok although its validator never returned Ok.
pub fn callbacks_misbehave(p: Proto, lk: &LibKeys, kind: u8) -> Option<String> {
  let nonce = &[11u8; 32][..if p == Proto::V2L { 24 } else { 32 }];
  let token = match core_build(lk, nonce, "{\"sub\":\"x\",\"role\":\"guest\",\"exp\":\"2999-01-01T00:00:00Z\"}", None, None) {
    Ok(t) => t,
    Err(_) => return None,
  };
  let role = ClaimSpec::Custom("role".into(), Value::Null);
  let mut finding = None;
  if kind & 1 != 0 {
    for layer in [Layer::Generic, Layer::Prelude] {
      for f in [VALIDATOR_PANICS_TEXT, VALIDATOR_PANICS_VALUE] {
        let r = crate::engine::catch(|| {
          let mut parser = new_parser(p, layer);
          let _ = parser.validate(&role, f);
          parser.parse(&token, lk).is_ok()
        });
        if r == Ok(true) && finding.is_none() {
          finding = Some(format!("a {} {} parse returned Ok although the validator registered for \"role\" panicked instead of returning Ok", p.label(), layer.label()));
        }
      }
    }
  }
  if kind & 2 != 0 {
    let _ = crate::engine::catch(|| {
      let mut b = GenericBuilder::<V4, Local>::default();
      b.set_claim(PanickingClaim);
    });
    let _ = crate::engine::catch(|| {
      let mut b = GenericBuilder::<V4, Local>::default();
      let mut m: std::collections::HashMap<String, Box<dyn erased_serde::Serialize>> = std::collections::HashMap::new();
      m.insert("panics".into(), Box::new(PanickingValue));
      b.extend_claims(m);
      let k = PasetoSymmetricKey::<V4, Local>::from(Key::<32>::from([3u8; 32]));
      let _ = b.try_encrypt(&k);
    });
    let _ = crate::engine::catch(|| {
      let mut b = PasetoBuilder::<V4, Local>::default();
      b.set_claim(PanickingClaim);
    });
  }
  if kind & 4 != 0 {
    for i in 0..20 {
      let _ = crate::engine::catch(|| {
        let mut parser = new_parser(p, if i % 2 == 0 { Layer::Generic } else { Layer::Prelude });
        let _ = parser.validate(&role, VALIDATOR_REJECTS);
        parser.parse(&token, lk).is_ok()
      });
    }
  }
  finding
}

/// harness-side claim type: the `PasetoClaim` trait is public, so callers may define their own claims
#[derive(Clone, Debug)]
pub struct AnyClaim {
  pub key: String,
  pub value: Value,
}
impl PasetoClaim for AnyClaim {
  fn get_key(&self) -> &str {
    &self.key
  }
}
impl Serialize for AnyClaim {
  fn serialize<S: serde::Serializer>(&self, s: S) -> Result<S::Ok, S::Error> {
    use serde::ser::SerializeMap;
    let mut m = s.serialize_map(Some(1))?;
    m.serialize_entry(&self.key, &self.value)?;
    m.end()
  }
}

#[derive(Clone, Debug)]
pub struct ShapedClaim {
  pub key: String,
  pub value: Value,
}
impl PasetoClaim for ShapedClaim {
  fn get_key(&self) -> &str {
    &self.key
  }
}
impl Serialize for ShapedClaim {
  fn serialize<S: serde::Serializer>(&self, s: S) -> Result<S::Ok, S::Error> {
    self.value.serialize(s)
  }
}

/// Applies `$call!(claim)` with the library claim type selected by the spec. Construction errors return Err.
pub fn borrow_str(s: &String) -> &str {
  s.as_str()
}
pub fn leak_str(s: &String) -> &'static str {
  Box::leak(s.clone().into_boxed_str())
}

macro_rules! with_claim {
  ($spec:expr, $strfn:ident, |$c:ident| $body:expr) => {{
    let spec: &ClaimSpec = $spec;
    match spec {
      ClaimSpec::Iss(v) => {
        let $c = IssuerClaim::from($strfn(v));
        $body;
        Ok(())
      }
      ClaimSpec::Sub(v) => {
        let $c = SubjectClaim::from($strfn(v));
        $body;
        Ok(())
      }
      ClaimSpec::Aud(v) => {
        let $c = AudienceClaim::from($strfn(v));
        $body;
        Ok(())
      }
      ClaimSpec::Jti(v) => {
        let $c = TokenIdentifierClaim::from($strfn(v));
        $body;
        Ok(())
      }
      ClaimSpec::SharedCounter(k, n) => {
        let cell: &'static std::sync::atomic::AtomicU64 = Box::leak(Box::new(std::sync::atomic::AtomicU64::new(*n)));
        match CustomClaim::try_from((k.as_str(), cell)) {
          Ok($c) => {
            $body;
            cell.store(n.wrapping_add(1000), std::sync::atomic::Ordering::SeqCst);
            Ok(())
          }
          Err(e) => Err(claim_err(&e)),
        }
      }
      ClaimSpec::DefaultOf(i) => {
        match *i % 7 {
          0 => { let $c = IssuerClaim::default(); $body; }
          1 => { let $c = SubjectClaim::default(); $body; }
          2 => { let $c = AudienceClaim::default(); $body; }
          3 => { let $c = TokenIdentifierClaim::default(); $body; }
          4 => { let $c = ExpirationClaim::default(); $body; }
          5 => { let $c = NotBeforeClaim::default(); $body; }
          _ => { let $c = IssuedAtClaim::default(); $body; }
        }
        Ok(())
      }
      ClaimSpec::Exp(v) => match ExpirationClaim::try_from(v.as_str()) {
        Ok($c) => {
          $body;
          Ok(())
        }
        Err(e) => Err(claim_err(&e)),
      },
      ClaimSpec::Nbf(v) => match NotBeforeClaim::try_from(v.as_str()) {
        Ok($c) => {
          $body;
          Ok(())
        }
        Err(e) => Err(claim_err(&e)),
      },
      ClaimSpec::Iat(v) => match IssuedAtClaim::try_from(v.as_str()) {
        Ok($c) => {
          $body;
          Ok(())
        }
        Err(e) => Err(claim_err(&e)),
      },
      ClaimSpec::ExpOwned(v) => match ExpirationClaim::try_from(crate::gen::owned(v, v.len() as u8)) {
        Ok($c) => {
          $body;
          Ok(())
        }
        Err(e) => Err(claim_err(&e)),
      },
      ClaimSpec::NbfOwned(v) => match NotBeforeClaim::try_from(crate::gen::owned(v, v.len() as u8)) {
        Ok($c) => {
          $body;
          Ok(())
        }
        Err(e) => Err(claim_err(&e)),
      },
      ClaimSpec::IatOwned(v) => match IssuedAtClaim::try_from(crate::gen::owned(v, v.len() as u8)) {
        Ok($c) => {
          $body;
          Ok(())
        }
        Err(e) => Err(claim_err(&e)),
      },
      ClaimSpec::Custom(k, v) => match CustomClaim::try_from((k.as_str(), v.clone())) {
        Ok($c) => {
          $body;
          Ok(())
        }
        Err(e) => Err(claim_err(&e)),
      },
      ClaimSpec::CustomOwned(k, v) => match CustomClaim::try_from((crate::gen::owned(k, k.len() as u8), v.clone())) {
        Ok($c) => {
          $body;
          Ok(())
        }
        Err(e) => Err(claim_err(&e)),
      },
      ClaimSpec::CustomKeyOnly(k) => match CustomClaim::<&str>::try_from(k.as_str()) {
        Ok($c) => {
          $body;
          Ok(())
        }
        Err(e) => Err(claim_err(&e)),
      },
      ClaimSpec::Native(k, n) => match CustomClaim::try_from((k.as_str(), NativeOwned(n.clone()))) {
        Ok($c) => {
          $body;
          Ok(())
        }
        Err(e) => Err(claim_err(&e)),
      },
      ClaimSpec::Any(k, v) => {
        let $c = AnyClaim { key: k.clone(), value: v.clone() };
        $body;
        Ok(())
      }
      ClaimSpec::Shaped(k, v) => {
        let $c = ShapedClaim { key: k.clone(), value: v.clone() };
        $body;
        Ok(())
      }
      ClaimSpec::Panicking(k) => {
        let $c = PanickingKeyed { key: k.clone() };
        $body;
        Ok(())
      }
    }
  }};
}

/// owned wrapper so that the claim is 'static
#[derive(Clone, Debug)]
pub struct NativeOwned(pub NativeVal);
impl Serialize for NativeOwned {
  fn serialize<S: serde::Serializer>(&self, s: S) -> Result<S::Ok, S::Error> {
    NativeSer(&self.0).serialize(s)
  }
}

// ------------------------------------------------------------------------------------------------
// builders

pub trait Builder<'a> {
  fn set(&mut self, c: &'a ClaimSpec) -> Result<(), LibErr>;
  /// `GenericBuilder::remove_claim`; the batteries-included builder has no such method (returns false)
  fn remove(&mut self, key: &str) -> bool;
  /// `GenericBuilder::extend_claims` with raw (key, value) entries; false for the batteries-included builder
  fn extend(&mut self, entries: &[(String, Value)]) -> bool;
  fn footer(&mut self, f: &'a str);
  /// false when the protocol has no implicit assertions (the method does not exist for v1/v2)
  fn assertion(&mut self, a: &'a str) -> bool;
  /// `PasetoBuilder::set_no_expiration_danger_acknowledged`; false for the generic builder
  fn ack_no_expiry(&mut self) -> bool;
  fn build(&mut self, keys: &LibKeys) -> Result<String, LibErr>;
}

struct GB<'a, V, P>(GenericBuilder<'a, 'a, V, P>);
struct PB<'a, V, P>(PasetoBuilder<'a, V, P>);

macro_rules! impl_builders {
  ($V:ident, $P:ident, $variant:ident, $gbuild:ident, $has_assert:tt, $keypat:pat => $keyexpr:expr) => {
    impl<'a> Builder<'a> for GB<'a, $V, $P> {
      fn set(&mut self, c: &'a ClaimSpec) -> Result<(), LibErr> {
        with_claim!(c, borrow_str, |cl| {
          self.0.set_claim(cl);
        })
      }
      fn remove(&mut self, key: &str) -> bool {
        self.0.remove_claim(key);
        true
      }
      fn extend(&mut self, entries: &[(String, Value)]) -> bool {
        let mut m: std::collections::HashMap<String, Box<dyn erased_serde::Serialize>> = std::collections::HashMap::new();
        for (k, v) in entries {
          m.insert(k.clone(), Box::new(v.clone()));
        }
        self.0.extend_claims(m);
        true
      }
      fn footer(&mut self, f: &'a str) {
        self.0.set_footer(Footer::from(f));
      }
      fn assertion(&mut self, _a: &'a str) -> bool {
        impl_builders!(@assert self, _a, $has_assert)
      }
      fn ack_no_expiry(&mut self) -> bool {
        false
      }
      fn build(&mut self, keys: &LibKeys) -> Result<String, LibErr> {
        match keys {
          $keypat => {
            let k = $keyexpr;
            self.0.$gbuild(k).map_err(|e| builder_err(&e))
          }
          _ => Err(wrong_keys(Proto::$variant)),
        }
      }
    }
    impl<'a> Builder<'a> for PB<'a, $V, $P> {
      fn set(&mut self, c: &'a ClaimSpec) -> Result<(), LibErr> {
        with_claim!(c, borrow_str, |cl| {
          self.0.set_claim(cl);
        })
      }
      fn remove(&mut self, _key: &str) -> bool {
        false
      }
      fn extend(&mut self, _entries: &[(String, Value)]) -> bool {
        false
      }
      fn footer(&mut self, f: &'a str) {
        self.0.set_footer(Footer::from(f));
      }
      fn assertion(&mut self, _a: &'a str) -> bool {
        impl_builders!(@assert self, _a, $has_assert)
      }
      fn ack_no_expiry(&mut self) -> bool {
        self.0.set_no_expiration_danger_acknowledged();
        true
      }
      fn build(&mut self, keys: &LibKeys) -> Result<String, LibErr> {
        match keys {
          $keypat => {
            let k = $keyexpr;
            self.0.build(k).map_err(|e| builder_err(&e))
          }
          _ => Err(wrong_keys(Proto::$variant)),
        }
      }
    }
  };
  (@assert $self:ident, $a:ident, true) => {{
    $self.0.set_implicit_assertion(ImplicitAssertion::from($a));
    true
  }};
  (@assert $self:ident, $a:ident, false) => {
    false
  };
}

impl_builders!(V1, Local, V1L, try_encrypt, false, LibKeys::V1L(k) => k);
impl_builders!(V2, Local, V2L, try_encrypt, false, LibKeys::V2L(k) => k);
impl_builders!(V3, Local, V3L, try_encrypt, true, LibKeys::V3L(k) => k);
impl_builders!(V4, Local, V4L, try_encrypt, true, LibKeys::V4L(k) => k);
impl_builders!(V1, Public, V1P, try_sign, false, LibKeys::V1P(sk, _) => sk.as_ref().ok_or_else(no_secret)?);
impl_builders!(V2, Public, V2P, try_sign, false, LibKeys::V2P(sk, _) => sk.as_ref().ok_or_else(no_secret)?);
impl_builders!(V3, Public, V3P, try_sign, true, LibKeys::V3P(sk, _) => sk.as_ref().ok_or_else(no_secret)?);
impl_builders!(V4, Public, V4P, try_sign, true, LibKeys::V4P(sk, _) => sk.as_ref().ok_or_else(no_secret)?);

/// A fresh builder of the given layer (`Generic` → `GenericBuilder::default()`, `Prelude` → `PasetoBuilder::default()`).
pub fn new_builder<'a>(proto: Proto, layer: Layer) -> Box<dyn Builder<'a> + 'a> {
  macro_rules! mk {
    ($V:ident, $P:ident) => {
      match layer {
        Layer::Prelude => Box::new(PB::<'a, $V, $P>(PasetoBuilder::<$V, $P>::default())),
        _ => Box::new(GB::<'a, $V, $P>(GenericBuilder::<$V, $P>::default())),
      }
    };
  }
  match proto {
    Proto::V1L => mk!(V1, Local),
    Proto::V2L => mk!(V2, Local),
    Proto::V3L => mk!(V3, Local),
    Proto::V4L => mk!(V4, Local),
    Proto::V1P => mk!(V1, Public),
    Proto::V2P => mk!(V2, Public),
    Proto::V3P => mk!(V3, Public),
    Proto::V4P => mk!(V4, Public),
  }
}

// ------------------------------------------------------------------------------------------------
// parsers

pub trait Parser<'a> {
  fn footer(&mut self, f: &'a str);
  fn assertion(&mut self, a: &'a str) -> bool;
  fn check(&mut self, c: &'a ClaimSpec) -> Result<(), LibErr>;
  fn validate(&mut self, c: &'a ClaimSpec, f: &'static ValidatorFn) -> Result<(), LibErr>;
  /// `GenericParser::extend_check_claims` with caller-defined claims; false for the batteries-included parser
  fn extend_checks(&mut self, entries: &[(String, Value)]) -> bool;
  /// `GenericParser::extend_check_claims` where the boxed claim under map key k serialises to the given value VERBATIM
  /// (its own member name may differ from k, or be missing); false for the batteries-included parser
  fn extend_checks_verbatim(&mut self, _entries: &[(String, Value)]) -> bool {
    false
  }
  /// `GenericParser::extend_validation_claims`; false for the batteries-included parser
  fn extend_validators(&mut self, entries: &[(String, &'static ValidatorFn)]) -> bool;
  fn parse(&mut self, token: &'a str, keys: &'a LibKeys<'a>) -> Result<Value, LibErr>;
}

struct GP<'a, V, P>(GenericParser<'a, 'a, V, P>);
struct PP<'a, V, P>(PasetoParser<'a, V, P>);

macro_rules! impl_parsers {
  ($V:ident, $P:ident, $has_assert:tt, |$keys:ident| $keypat:pat => $keyexpr:expr) => {
    impl<'a> Parser<'a> for GP<'a, $V, $P> {
      fn footer(&mut self, f: &'a str) {
        self.0.set_footer(Footer::from(f));
      }
      fn assertion(&mut self, _a: &'a str) -> bool {
        impl_builders!(@assert self, _a, $has_assert)
      }
      fn check(&mut self, c: &'a ClaimSpec) -> Result<(), LibErr> {
        with_claim!(c, borrow_str, |cl| {
          self.0.check_claim(cl);
        })
      }
      fn validate(&mut self, c: &'a ClaimSpec, f: &'static ValidatorFn) -> Result<(), LibErr> {
        with_claim!(c, borrow_str, |cl| {
          self.0.validate_claim(cl, f);
        })
      }
      fn extend_checks(&mut self, entries: &[(String, Value)]) -> bool {
        let mut m: std::collections::HashMap<String, Box<dyn erased_serde::Serialize + 'a>> = std::collections::HashMap::new();
        for (k, v) in entries {
          m.insert(k.clone(), Box::new(AnyClaim { key: k.clone(), value: v.clone() }));
        }
        self.0.extend_check_claims(m);
        true
      }
      fn extend_checks_verbatim(&mut self, entries: &[(String, Value)]) -> bool {
        let mut m: std::collections::HashMap<String, Box<dyn erased_serde::Serialize + 'a>> = std::collections::HashMap::new();
        for (k, v) in entries {
          m.insert(k.clone(), Box::new(ShapedClaim { key: k.clone(), value: v.clone() }));
        }
        self.0.extend_check_claims(m);
        true
      }
      fn extend_validators(&mut self, entries: &[(String, &'static ValidatorFn)]) -> bool {
        let mut m: ValidatorMap = std::collections::HashMap::new();
        for (k, f) in entries {
          let f: &'static ValidatorFn = *f;
          m.insert(k.clone(), Box::new(move |key: &str, v: &Value| f(key, v)));
        }
        self.0.extend_validation_claims(m);
        true
      }
      fn parse(&mut self, token: &'a str, $keys: &'a LibKeys<'a>) -> Result<Value, LibErr> {
        match $keys {
          $keypat => self.0.parse(token, $keyexpr).map_err(|e| parser_err(&e)),
          _ => Err(LibErr::other("harness: key material of another protocol")),
        }
      }
    }
    impl<'a> Parser<'a> for PP<'a, $V, $P> {
      fn footer(&mut self, f: &'a str) {
        self.0.set_footer(Footer::from(f));
      }
      fn assertion(&mut self, _a: &'a str) -> bool {
        impl_builders!(@assert self, _a, $has_assert)
      }
      fn check(&mut self, c: &'a ClaimSpec) -> Result<(), LibErr> {
        // PasetoParser::check_claim requires 'static claims
        with_claim!(c, leak_str, |cl| {
          self.0.check_claim(cl);
        })
      }
      fn validate(&mut self, c: &'a ClaimSpec, f: &'static ValidatorFn) -> Result<(), LibErr> {
        with_claim!(c, borrow_str, |cl| {
          self.0.validate_claim(cl, f);
        })
      }
      fn extend_checks(&mut self, _entries: &[(String, Value)]) -> bool {
        false
      }
      fn extend_validators(&mut self, _entries: &[(String, &'static ValidatorFn)]) -> bool {
        false
      }
      fn parse(&mut self, token: &'a str, $keys: &'a LibKeys<'a>) -> Result<Value, LibErr> {
        match $keys {
          $keypat => self.0.parse(token, $keyexpr).map_err(|e| parser_err(&e)),
          _ => Err(LibErr::other("harness: key material of another protocol")),
        }
      }
    }
  };
}

impl_parsers!(V1, Local, false, |keys| LibKeys::V1L(k) => k);
impl_parsers!(V2, Local, false, |keys| LibKeys::V2L(k) => k);
impl_parsers!(V3, Local, true, |keys| LibKeys::V3L(k) => k);
impl_parsers!(V4, Local, true, |keys| LibKeys::V4L(k) => k);
impl_parsers!(V1, Public, false, |keys| LibKeys::V1P(_, k) => k);
impl_parsers!(V2, Public, false, |keys| LibKeys::V2P(_, k) => k);
impl_parsers!(V3, Public, true, |keys| LibKeys::V3P(_, k) => k);
impl_parsers!(V4, Public, true, |keys| LibKeys::V4P(_, k) => k);

/// `Generic` → `GenericParser::default()`; `Prelude` → `PasetoParser::default()` (with its exp/nbf validators)
pub fn new_parser<'a>(proto: Proto, layer: Layer) -> Box<dyn Parser<'a> + 'a> {
  macro_rules! mk {
    ($V:ident, $P:ident) => {
      match layer {
        Layer::Prelude => Box::new(PP::<'a, $V, $P>(PasetoParser::<$V, $P>::default())),
        _ => Box::new(GP::<'a, $V, $P>(GenericParser::<$V, $P>::default())),
      }
    };
  }
  match proto {
    Proto::V1L => mk!(V1, Local),
    Proto::V2L => mk!(V2, Local),
    Proto::V3L => mk!(V3, Local),
    Proto::V4L => mk!(V4, Local),
    Proto::V1P => mk!(V1, Public),
    Proto::V2P => mk!(V2, Public),
    Proto::V3P => mk!(V3, Public),
    Proto::V4P => mk!(V4, Public),
  }
}

// ------------------------------------------------------------------------------------------------
// token text helpers (harness-side, independent of the library)

pub fn b64(bytes: &[u8]) -> String {
  use base64::prelude::*;
  BASE64_URL_SAFE_NO_PAD.encode(bytes)
}
pub fn unb64(s: &str) -> Option<Vec<u8>> {
  use base64::prelude::*;
  BASE64_URL_SAFE_NO_PAD.decode(s).ok()
}

/// (header with trailing dot, payload segment, footer segment if any) of a well-formed token
pub fn split_token(t: &str) -> Option<(String, String, Option<String>)> {
  let parts: Vec<&str> = t.split('.').collect();
  if parts.len() < 3 || parts.len() > 4 {
    return None;
  }
  Some((format!("{}.{}.", parts[0], parts[1]), parts[2].to_string(), parts.get(3).map(|s| s.to_string())))
}

pub fn join_token(header: &str, payload: &[u8], footer_segment: Option<&str>) -> String {
  match footer_segment {
    Some(f) => format!("{}{}.{}", header, b64(payload), f),
    None => format!("{}{}", header, b64(payload)),
  }
}
