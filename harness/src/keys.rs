//! Key pools: Ed25519 and P-384 pairs derived from generated seeds, RSA-2048 pairs from committed fixtures.
#![allow(dead_code)]

use crate::proto::{KeyMaterial, Proto};
use ring::signature::KeyPair;

pub const RSA_POOL: [(&[u8], &[u8]); 9] = [
  (include_bytes!(concat!(env!("CARGO_MANIFEST_DIR"), "/../fixtures/rsa/k0.pk8")), include_bytes!(concat!(env!("CARGO_MANIFEST_DIR"), "/../fixtures/rsa/k0.pub.der"))),
  (include_bytes!(concat!(env!("CARGO_MANIFEST_DIR"), "/../fixtures/rsa/k1.pk8")), include_bytes!(concat!(env!("CARGO_MANIFEST_DIR"), "/../fixtures/rsa/k1.pub.der"))),
  (include_bytes!(concat!(env!("CARGO_MANIFEST_DIR"), "/../fixtures/rsa/k2.pk8")), include_bytes!(concat!(env!("CARGO_MANIFEST_DIR"), "/../fixtures/rsa/k2.pub.der"))),
  (include_bytes!(concat!(env!("CARGO_MANIFEST_DIR"), "/../fixtures/rsa/k3.pk8")), include_bytes!(concat!(env!("CARGO_MANIFEST_DIR"), "/../fixtures/rsa/k3.pub.der"))),
  (include_bytes!(concat!(env!("CARGO_MANIFEST_DIR"), "/../fixtures/rsa/k4.pk8")), include_bytes!(concat!(env!("CARGO_MANIFEST_DIR"), "/../fixtures/rsa/k4.pub.der"))),
  (include_bytes!(concat!(env!("CARGO_MANIFEST_DIR"), "/../fixtures/rsa/k5.pk8")), include_bytes!(concat!(env!("CARGO_MANIFEST_DIR"), "/../fixtures/rsa/k5.pub.der"))),
  // the repository's official v1 test-vector pair
  (include_bytes!(concat!(env!("CARGO_MANIFEST_DIR"), "/../fixtures/rsa/k6.pk8")), include_bytes!(concat!(env!("CARGO_MANIFEST_DIR"), "/../fixtures/rsa/k6.pub.der"))),
  // RSA-2048 pairs with public exponents other than 65537 (2^32 + 1: five bytes; 65539): the pinned library round-trips them
  (include_bytes!(concat!(env!("CARGO_MANIFEST_DIR"), "/../fixtures/rsa/k7.pk8")), include_bytes!(concat!(env!("CARGO_MANIFEST_DIR"), "/../fixtures/rsa/k7.pub.der"))),
  (include_bytes!(concat!(env!("CARGO_MANIFEST_DIR"), "/../fixtures/rsa/k8.pk8")), include_bytes!(concat!(env!("CARGO_MANIFEST_DIR"), "/../fixtures/rsa/k8.pub.der"))),
];

/// RSA pairs of a size PASETO v1 does not use (3072 and 4096 bits): the library may refuse them, it may not misbehave
pub const RSA_UNUSUAL: [(&[u8], &[u8]); 2] = [
  (include_bytes!(concat!(env!("CARGO_MANIFEST_DIR"), "/../fixtures/rsa/k9.pk8")), include_bytes!(concat!(env!("CARGO_MANIFEST_DIR"), "/../fixtures/rsa/k9.pub.der"))),
  (include_bytes!(concat!(env!("CARGO_MANIFEST_DIR"), "/../fixtures/rsa/k10.pk8")), include_bytes!(concat!(env!("CARGO_MANIFEST_DIR"), "/../fixtures/rsa/k10.pub.der"))),
];

/// Ed25519: (64-byte secret = seed || public, 32-byte public)
pub fn ed_from_seed(seed: &[u8; 32]) -> ([u8; 64], [u8; 32]) {
  let kp = ring::signature::Ed25519KeyPair::from_seed_unchecked(seed).expect("any 32 bytes are a valid Ed25519 seed");
  let mut pk = [0u8; 32];
  pk.copy_from_slice(kp.public_key().as_ref());
  let mut sk = [0u8; 64];
  sk[..32].copy_from_slice(seed);
  sk[32..].copy_from_slice(&pk);
  (sk, pk)
}

/// P-384: (48-byte scalar in [1, n-1], 49-byte compressed point, 97-byte uncompressed point)
pub fn p384_from_seed(seed: &[u8; 32]) -> ([u8; 48], [u8; 49], [u8; 97]) {
  use p384::elliptic_curve::sec1::ToEncodedPoint;
  let mut sk = [0u8; 48];
  for i in 0..48 {
    sk[i] = seed[i % 32] ^ ((i / 32) as u8).wrapping_mul(0x5c) ^ (i as u8).rotate_left(3);
  }
  sk[0] &= 0x7f; // < 2^383 < n
  if sk.iter().all(|b| *b == 0) {
    sk[47] = 1;
  }
  let secret = p384::SecretKey::from_slice(&sk).expect("scalar in range");
  let public = secret.public_key();
  let mut c = [0u8; 49];
  c.copy_from_slice(public.to_encoded_point(true).as_bytes());
  let mut u = [0u8; 97];
  u.copy_from_slice(public.to_encoded_point(false).as_bytes());
  (sk, c, u)
}

pub fn rsa_index(seed: &[u8; 32]) -> usize {
  (seed[0] as usize) % RSA_POOL.len()
}

/// secret/public bytes in the library's formats for `proto`, derived from a 32-byte seed
pub fn key_bytes(proto: Proto, seed: &[u8; 32]) -> (Vec<u8>, Vec<u8>) {
  match proto {
    p if p.is_local() => (seed.to_vec(), seed.to_vec()),
    Proto::V2P | Proto::V4P => {
      let (sk, pk) = ed_from_seed(seed);
      (sk.to_vec(), pk.to_vec())
    }
    Proto::V3P => {
      let (sk, pk, _) = p384_from_seed(seed);
      (sk.to_vec(), pk.to_vec())
    }
    _ => {
      let (sk, pk) = RSA_POOL[rsa_index(seed)];
      (sk.to_vec(), pk.to_vec())
    }
  }
}

pub fn material(proto: Proto, seed: &[u8; 32]) -> KeyMaterial {
  let (sk, pk) = key_bytes(proto, seed);
  KeyMaterial::new(proto, Some(&sk), &pk).expect("derived key material has the right shape")
}

/// Key material whose PRIVATE half cannot sign (public protocols only; None for local ones): an Ed25519 secret whose two
/// halves do not belong together, the zero scalar for P-384, bytes that are no PKCS#8 document for RSA.
pub fn unusable_signing_material(proto: Proto, seed: &[u8; 32]) -> Option<KeyMaterial> {
  let (sk, pk) = key_bytes(proto, seed);
  let bad: Vec<u8> = match proto {
    Proto::V2P | Proto::V4P => {
      let mut other = *seed;
      other[0] ^= 0xff;
      let (sk2, _) = ed_from_seed(&other);
      let mut b = sk2[..32].to_vec();
      b.extend_from_slice(&sk[32..]);
      b
    }
    Proto::V3P => vec![0u8; 48],
    Proto::V1P => b"-----this is not a PKCS#8 document-----".to_vec(),
    _ => return None,
  };
  KeyMaterial::new(proto, Some(&bad), &pk).ok()
}

pub fn seed32(v: &[u8]) -> [u8; 32] {
  let mut s = [0u8; 32];
  for (i, b) in v.iter().enumerate() {
    s[i % 32] ^= *b;
  }
  s
}
