#![no_main]
// C03: candidate token text against a pool of authentic tokens; the semantic oracle (c03::judge) runs in-target.
use libfuzzer_sys::fuzz_target;
fuzz_target!(|data: &[u8]| {
  if let Some((sig, detail)) = pv::c03::fuzz_one(data) {
    eprintln!("ORACLE VIOLATION {sig}: {detail}");
    std::process::abort();
  }
});
