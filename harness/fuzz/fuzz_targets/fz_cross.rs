#![no_main]
// C07: text presented to the entry points of protocol Y; accepted content must have been produced for Y.
use libfuzzer_sys::fuzz_target;
fuzz_target!(|data: &[u8]| {
  if let Some((sig, detail)) = pv::c07::fuzz_one(data) {
    eprintln!("ORACLE VIOLATION {sig}: {detail}");
    std::process::abort();
  }
});
