#![no_main]
// C09: any text into any parse entry point; a panic of the library aborts (libfuzzer-sys' panic hook) = the oracle.
use libfuzzer_sys::fuzz_target;
fuzz_target!(|data: &[u8]| {
  pv::c09::fuzz_one(data);
});
